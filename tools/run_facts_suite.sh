#!/bin/bash
# usage: run_facts_suite.sh <facts.json> [props...] -- run checks against an exported fact file (scratch; no evidence written)
F="$1"; shift
PROPS="${@:-C01 C02 C03 C04 C05 C06 C07 C08 C11 C12 C13 C14 C15 C16 C17 C18 C19 C20}"
for p in $PROPS; do
  out=$(cd /verif && GSA_NO_EVIDENCE=1 ./check $p --facts "$F" 2>&1); rc=$?
  echo "$p exit=$rc"
  if [ $rc -ne 0 ]; then echo "$out" | grep -v "^rule\|^OK\|^            \|KNOWN-FINDING" | head -${MAXL:-40}; fi
done
