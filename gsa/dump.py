import sys
from .load import Program
from .core import Analysis
def short(t, d=0):
    if not isinstance(t, tuple): return repr(t)
    if d>6: return "…"
    if t and t[0]=="at": return "at(%s@%s)"%(t[1], vs(t[3]))
    if t and t[0]=="mem": return "mem(%s@%s%s)"%(t[1], vs(t[2]), "," + short(t[3],d+1) if t[3] is not None else "")
    if t and t[0]=="call": return "%s(%s)"%(t[1].split("::")[-2]+"::"+t[1].split("::")[-1], ", ".join(short(x,d+1) for x in t[3]))
    if t and t[0]=="const": return "%s"%(t[2],)
    return "(" + " ".join(short(x,d+1) if isinstance(x,tuple) else str(x) for x in t) + ")"
def vs(v):
    if v==("e",): return "e"
    return "%s%s"%(v[0], ".".join(str(x) for x in v[1:]))
if __name__=="__main__":
    from .crate import Crate
    C=Crate(sys.argv[1]); P=C.prog
    for f in P.d['fns']:
        if sys.argv[2] in f['path']:
            a=C.an(f['path'])
            print("==",f['path'], "mem_locals",sorted(a.mem_locals))
            print("  regions", sorted(a.regions))
            print("  pts", {k:v for k,v in a.pts.items() if v})
            print("  cpts", a.cpts)
            print("  phis", a.phis)
            for ev in a.events:
                e={k:v for k,v in ev.items() if k not in ("vers","span","fn")}
                print("  bb%d.%d %s %s"%(ev['b'],ev['i'],ev['k'], " ".join("%s=%s"%(k, short(v) if isinstance(v,tuple) else ([short(x) for x in v] if isinstance(v,list) else v)) for k,v in e.items() if k not in ("b","i","k"))))
