#!/bin/bash
# Re-runs every seeded change under /verif/seeded and every behaviour-preserving patch under
# /verif/selftest/equivalent against the current checks; prints a detection table.
# A seeded change counts as caught only when the check of the property it breaks alarms.
cd /verif
fail=0
for d in seeded/*/; do
  n=$(basename $d); P=${n%%-*}
  res=$(tools/run_patch_suite.sh /verif/$d/patch.diff alarm 2>&1 | tail -1)
  own=no; echo "$res" | grep -q "alarms:\[[^]]*$P" && own=yes
  [ $own = no ] && [ -f "$d/EXPECTED_MISS" ] && own=known-miss
  [ $own = no ] && fail=1
  echo "$n :: own-property-check-alarms=$own :: $res"
done
for p in selftest/equivalent/*.patch; do
  res=$(tools/run_patch_suite.sh /verif/$p silent 2>&1 | tail -1)
  echo "$res" | grep -q "alarms:\[\]" || fail=1
  echo "$(basename $p) :: $res"
done
exit $fail
