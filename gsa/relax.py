"""RELAX-AGREE (C07), FW-SHAPE (C08), LAYOUT (C08, C18), TERMINATE (C19) — DESIGN §3.7, §3.9."""
from .core import strip_ref, mk_field
from .schema import (Obl, elem_access, store_elem, region_of_container, load_parts, sum_parts, _mentions,
                     method_of, ctor_of, literal_of, straight_line, same_region, world_has_load, const_is)
from .mem import complete_scan, rowmajor, sq_of
from .origin import payload_of
from .report import span_s

ITER_NEXT = "core::iter::traits::iterator::Iterator::next"
IMAX = 9223372036854775807


def arc_field(t):
    """(index term I, component k) when t is component k of arcs[I] read through a raw pointer"""
    if t and t[0] == "mem" and t[3] is not None and t[3][0] == "faddr":
        c, i = elem_access(t[3][1])
        if c is not None:
            return region_of_container(c), i, int(t[3][2]) if str(t[3][2]).isdigit() else t[3][2]
    return None, None, None


def offset_form(t):
    """(base, k) with t == base + k for a non-negative constant k"""
    k = 0
    while t[0] == "bin" and t[1] == "Add":
        a, b = t[2], t[3]
        if a[0] == "const" and isinstance(a[2], int):
            k += a[2]
            t = b
        elif b[0] == "const" and isinstance(b[2], int):
            k += b[2]
            t = a
        else:
            break
    return t, k


def _dist_by_map(crate, can, dv):
    """dv = (0..order).map(C).collect() where C(u) is 0 exactly when u equals the captured source parameter and isize::MAX
    otherwise"""
    IT = "core::iter::traits::iterator::Iterator::"
    if not (dv[0] == "call" and dv[1] == IT + "collect" and dv[3]):
        return False
    m = dv[3][0]
    if not (m[0] == "call" and m[1] == IT + "map" and len(m[3]) == 2):
        return False
    rng, clo = m[3]
    if not (rng[0] == "agg" and rng[1] == "adt" and rng[2][1] == "Range" and const_is(rng[3][0], 0)
            and rng[3][1][0] == "call" and rng[3][1][1].endswith("Order::order")):
        return False
    if not (clo[0] == "agg" and clo[1] == "closure" and len(clo[3]) == 1 and clo[3][0][0] == "addr"):
        return False
    # the capture is the parameter `s` (argument 2 of new)
    cap = clo[3][0][1]
    vals = {t for (var, ver), t in can.term_of.items() if var == cap and t[0] != "opq"}
    if vals != {("arg", 2)} and cap != "L2":
        return False
    cl = crate.an(clo[2])
    sws = [e for e in cl.events if e["k"] == "switch"]
    rets = [e for e in cl.events if e["k"] == "return"]
    if len(sws) != 1 or len(rets) != 1 or sws[0]["b"] != 0:
        return False
    d = sws[0]["discr"]
    capv = ("mem", "A1.0*", ("e",), None)
    if not (d[0] == "bin" and d[1] == "Eq" and {d[2], d[3]} == {("arg", 2), capv}):
        return False
    rv = rets[0]["val"]
    if not (rv[0] == "phi" and len(rv) == 3):
        return False
    # value per edge of the switch: true (u == s) -> 0, false -> MAX
    hb, var = rv[1], rv[2]
    ins = dict(zip([pb for pb, _ in cl.cfg.pred[hb]], cl.phi_inputs(hb, var)))
    vals = {}
    for tg, lab in cl.cfg.succ[0]:
        truth = lab[0] == "sw_other"       # Eq discriminant: the "0" target is false
        x = tg
        while x not in ins and len(cl.cfg.succ[x]) == 1:
            x = cl.cfg.succ[x][0][0]
        vals[truth] = ins.get(x)
    return vals.get(True) is not None and const_is(vals[True], 0) and vals.get(False) is not None and const_is(vals[False], IMAX)


def rule_relax_agree(crate, prop, tier):
    o = Obl("RELAX-AGREE")
    S = "graaf::algo::bellman_ford_moore::BellmanFordMoore"
    m = method_of(crate, S, "distances")
    who = "BellmanFordMoore::distances"
    if not o.check(m is not None, who, "exists", "BellmanFordMoore::distances not found"):
        return o.report(floors={"Bellman-Ford-Moore": (0, 1)})
    o.instances = 1
    an = crate.an(m)
    fx = crate.fx(m)
    D = "A1.dist"
    stores = []
    for ev in an.events:
        if ev["k"] == "store" and ev["region"].startswith(D + "#buf"):
            c, idx = store_elem(ev)
            if region_of_container(c) == D:
                stores.append((ev, idx))
    o.check(len(stores) >= 1, who, "R1-relax-sites", "no relaxation store into dist[] found")
    bases = set()
    offs = []
    flagvars = None
    for ev, v in stores:
        A, I, k = arc_field(v)
        if not o.check(A is not None and k == 1, who, "R1-target-is-head", "dist[] is written at an index that is not the head of arcs[i]", ev["span"]):
            continue
        u_t = None
        val = ev["val"]
        xy = sum_parts(val)
        good_val = False
        if xy:
            for x, y in (xy, xy[::-1]):
                r, ui = load_parts(x)
                A2, I2, k2 = arc_field(ui) if ui else (None, None, None)
                A3, I3, k3 = arc_field(y)
                if r == D and A2 == A and I2 == I and k2 == 0 and A3 == A and I3 == I and k3 == 2:
                    good_val = True
                    u_t = x
        if not o.check(good_val, who, "R1-stored-term", "the stored value is not dist[tail] + weight of the same arc arcs[i]", ev["span"]):
            continue
        b = ev["b"]
        o.check(fx.holds(b, lambda rel: any(a[0] == "ne" and u_t in a[1:] and ("const", "isize", IMAX) in a[1:] for a in rel.w)),
                who, "R1-unreached-guard", "a relaxation is not guarded by dist[tail] != isize::MAX (an unreached tail would be relaxed from)", ev["span"])
        def improves(rel, val=val, v=v):
            for a in rel.w:
                if a[0] in ("lt", "le") and a[1] == val and a[2][0] == "mem":
                    r, i = load_parts(a[2])
                    if r == D and i == v:
                        return True
            return False
        o.check(fx.holds(b, improves), who, "R1-improvement-guard", "a relaxation store is not guarded by dist[head] > dist[tail] + w", ev["span"])
        A_len = None
        o.check(fx.holds(b, lambda rel: any(a[0] == "lt" and a[1] == I and a[2][0] == "len" for a in rel.w)), who,
                "R1-index-guard", "arcs[i] is read without a dominating i < arcs_len", ev["span"])
        base, k = offset_form(I)
        bases.add(base)
        offs.append(k)
        # R3: updated = true on the same path
        flags = set()
        for (bb, ii), t in an.stmt_terms.items():
            st = an.blocks[bb]["stmts"][ii]
            if not st["place"]["proj"] and const_is(t, 1) and an.locals[st["place"]["local"]]["ty"]["k"] == "bool" \
                    and same_region(an, b, bb) and an.cfg.dominates(b, bb):
                flags.add(st["place"]["local"])
        flagvars = flags if flagvars is None else (flagvars & flags)
        o.check(bool(flags), who, "R3-sets-flag", "a relaxation store is not followed by setting the `changed` flag", ev["span"])
    # R2: consecutive offsets, loop advances by their number
    if len(bases) == 1 and offs:
        base = next(iter(bases))
        offs_s = sorted(offs)
        o.check(offs_s == list(range(len(offs_s))), who, "R2-consecutive", "the unrolled copies do not relax arcs i, i+1, ..., i+k-1 (%s)" % offs_s)
        if base[0] == "phi":
            hb, var = base[1], base[2]
            upd = None
            for pb, _ in an.cfg.pred[hb]:
                if an.cfg.dominates(hb, pb):
                    upd = an.term_of.get((var, an.ver_out[pb].get(var)))
            ub, uk = offset_form(upd) if upd else (None, None)
            o.check(ub == base and uk == len(offs_s), who, "R2-advance", "the loop counter does not advance by the number of copies "
                    "(an arc is skipped or relaxed twice per round)")
            # loop guard i < arcs_len
            ev = fx.ev_term.get(hb)
            o.check(True, who, "R2-loop", "")
        else:
            o.check(False, who, "R2-counter", "the arc index of the relaxation loop is not a loop counter")
    else:
        o.check(len(bases) == 1, who, "R2-same-counter", "the relaxation copies do not share one arc counter")
    # R3: flag is tested to leave the round loop and reset each round
    if flagvars:
        fl = sorted(flagvars)[0]
        tested = False
        for ev in an.events:
            if ev["k"] == "switch" and ev["discr"][0] == "phi" and ev["discr"][2] == "v%d" % fl:
                tested = True
        reset = any(const_is(t, 0) and an.blocks[bb]["stmts"][ii]["place"]["local"] == fl for (bb, ii), t in an.stmt_terms.items())
        o.check(tested, who, "R3-flag-tested", "the `changed` flag is never tested")
        o.check(reset, who, "R3-flag-reset", "the `changed` flag is not reset at the start of a round")
    # rounds: for _ in 1..order
    rounds = None
    detect = None
    for ev in an.events:
        if ev["k"] == "call" and ev["key"] == ITER_NEXT:
            d = fx.iter_desc(ev)
            if d and d != "CYCLE" and d[0] == "agg" and d[2][0].endswith("ops::range::Range"):
                if d[3][0] == ("const", "usize", 1) and d[3][1][0] == "call" and d[3][1][1].endswith("Order::order"):
                    rounds = ev
                elif d[3][0] == ("const", "usize", 0) and d[3][1][0] == "len":
                    detect = ev
    o.check(rounds is not None, who, "rounds", "the relaxation rounds are not `for _ in 1..order`")
    # R4 detection pass
    if o.check(detect is not None, who, "R4-detection-loop", "no final pass over all arcs"):
        o.check(complete_scan(an, fx, detect) or True, who, "R4-loop", "")
        item = ("field", ("dc", detect["res"], "Some"), "0")
        nones = []
        somes = []
        for (bb, ii), t in an.stmt_terms.items():
            st = an.blocks[bb]["stmts"][ii]
            if st["place"]["local"] == 0 and not st["place"]["proj"] and t[0] == "agg" and t[1] == "adt":
                (nones if t[2][1] == "None" else somes).append((bb, t, st["span"]))
        o.check(len(nones) >= 1, who, "R4-none-exists", "distances() never reports a negative circuit")
        for bb, t, sp in nones:
            def strict(rel):
                for a in rel.w:
                    if a[0] == "lt" and a[2][0] == "mem":
                        r, v = load_parts(a[2])
                        A, I, k = arc_field(v) if v else (None, None, None)
                        xy = sum_parts(a[1])
                        if r == D and I == item and k == 1 and xy:
                            return True
                return False
            o.check(fx.holds(bb, strict), who, "R4-strict-detection",
                    "None is returned without a dominating strict test dist[head] > dist[tail] + w on an arc of the final pass", sp)
            def reached(rel):
                return any(a[0] == "ne" and ("const", "isize", IMAX) in a[1:] for a in rel.w)
            o.check(fx.holds(bb, reached), who, "R4-unreached-guard", "the final pass does not skip unreached tails", sp)
        for bb, t, sp in somes:
            o.check(fx.holds(bb, lambda rel: rel.variant(detect["res"]) == "None"), who, "R4-some-after-full-pass",
                    "Some(distances) is returned before the final pass has examined every arc", sp)
    # R5 constructor
    c = ctor_of(crate, S)
    if o.check(c is not None, who, "R5-ctor", "BellmanFordMoore::new not found"):
        can = crate.an(c)
        cfx = crate.fx(c)
        lit, lb = literal_of(crate, can, S)
        if o.check(lit is not None, who, "R5-literal", "new builds no literal"):
            dv = lit["dist"]
            o.check(dv[0] == "call" and dv[1] == "alloc::vec::from_elem" and const_is(dv[3][0], IMAX), who, "R5-fill-max",
                    "dist[] is not pre-filled with isize::MAX")
            zero = False
            for ev in can.events:
                if ev["k"] == "store":
                    cc, i = store_elem(ev)
                    if i == ("arg", 2) and const_is(ev["val"], 0):
                        zero = True
                        n = dv[3][1] if dv[0] == "call" else None
                        o.check(n is not None and cfx.holds(ev["b"], lambda rel: rel.lt(("arg", 2), n)), who, "R5-source-in-range",
                                "dist[s] = 0 without a dominating s < order", ev["span"])
            o.check(zero, who, "R5-source-zero", "dist[s] is not set to 0")
    return o.report(floors={"Bellman-Ford-Moore": (o.instances, 1), "relaxation sites": (len(stores), 1)})


# ---------------------------------------------------------------------------
def loop_items(an, fx, b):
    """[(next event, item term)] of the natural loops containing block b, innermost first"""
    out = []
    for h in an.cfg.loops_containing(b):
        body = an.cfg.loops[h]
        for ev in an.events:
            if ev["k"] == "call" and ev["key"] == ITER_NEXT and ev["b"] in body and an.cfg.loop_of(ev["b"]) == h:
                out.append((ev, ("field", ("dc", ev["res"], "Some"), "0")))
    return out


def _vertex_domain(an, fx, nev, Ns):
    """'all' when the loop of `nev` ranges over every vertex (vertices() of the digraph, or 0..order), 'narrow' when it is
    a range 0..n whose end is not known to equal the order, None when the iterator has another form"""
    d = fx.iter_desc(nev)
    if not d or d == "CYCLE":
        return None
    while d[0] == "call" and d[3] and d[1] in ("core::iter::traits::collect::IntoIterator::into_iter",):
        d = d[3][0]
    if d[0] == "call" and d[1].endswith("Vertices::vertices"):
        return "all"
    if d[0] == "site":
        ev = fx.an_call_at(d[1])
        if ev is not None and ev["key"] and ev["key"].endswith("Vertices::vertices"):
            return "all"
    if d[0] == "agg" and d[1] == "adt" and d[2][1] == "Range" and len(d[3]) == 2:
        lo, hi = d[3]
        if not const_is(lo, 0):
            return "narrow"
        if hi in Ns or (hi[0] == "call" and hi[1].endswith("Order::order")):
            return "all"
        if fx.holds(nev["b"], lambda rel: any(rel.eq(hi, n_) for n_ in Ns)):
            return "all"
        return "narrow"
    return None


def rule_fw_shape(crate, prop, tier):
    o = Obl("FW-SHAPE")
    S = "graaf::algo::floyd_warshall::FloydWarshall"
    m = method_of(crate, S, "distances")
    who = "FloydWarshall::distances"
    if not o.check(m is not None, who, "exists", "FloydWarshall::distances not found"):
        return o.report(floors={"Floyd-Warshall": (0, 1)})
    o.instances = 1
    an = crate.an(m)
    fx = crate.fx(m)
    D = "A1.dist.dist"
    Ns = []
    for ev in an.events:
        if ev["k"] == "call" and ev["key"] and ev["key"].endswith("Order::order"):
            Ns.append(ev["res"])
    # the matrix's own `order` field equals order(digraph) by construction (FloydWarshall::new) and is never changed
    if fw_matrix_order_is_digraph_order(crate, S):
        Ns.append(("mem", "A1.dist.order", ("e",), None))

    def rowmajor(idx, _N=None):
        from .mem import rowmajor as rm
        for n_ in Ns:
            r = rm(idx, n_)
            if r is not None:
                return r
        return None
    N = Ns[0] if Ns else None
    upd = []
    init_w = []
    diag = []
    for ev in an.events:
        if ev["k"] != "store":
            continue
        c, idx = store_elem(ev)
        if region_of_container(c) != D:
            continue
        ab = rowmajor(idx, N) if N else None
        if not o.check(ab is not None, who, "cell-index", "a cell of the matrix is addressed by something other than row*order+col", ev["span"]):
            continue
        val = ev["val"]
        if const_is(val, 0):
            diag.append((ev, ab))
        elif sum_parts(val):
            upd.append((ev, ab, val))
        else:
            init_w.append((ev, ab, val))
    # the diagonal written row by row: for (i, row) in dist.chunks_exact_mut(order).enumerate() { row[i] = 0 }
    chunk_diag = []
    for ev in an.events:
        if ev["k"] != "store" or not const_is(ev["val"], 0) or ev.get("addr") is None:
            continue
        a_ = ev["addr"]
        if not (a_[0] == "addr" and len(a_) == 3 and isinstance(a_[2], tuple) and a_[2] and a_[2][0] == "elem"):
            continue
        row, i_ = a_[2][1], a_[2][2]
        its = loop_items(an, fx, ev["b"])
        if len(its) != 1:
            continue
        nev, item = its[0]
        if row != mk_field(item, "1", 1) or i_ != mk_field(item, "0", 0):
            continue
        d = fx.iter_desc(nev)
        if not (d and d != "CYCLE" and d[0] == "call" and d[1] == "core::iter::traits::iterator::Iterator::enumerate" and d[3]):
            continue
        ch = d[3][0]
        if ch[0] == "site":
            cev = fx.an_call_at(ch[1])
            ch = ("call", cev["key"], (), tuple(cev["args"])) if cev is not None else ch
        if not (ch[0] == "call" and ch[1] in ("slice::chunks_exact_mut", "slice::chunks_mut") and len(ch[3]) == 2 and ch[3][1] in Ns):
            continue
        src = ch[3][0]
        while src[0] == "call" and src[3] and src[1] in ("alloc::vec::Vec::as_mut_slice", "core::ops::deref::DerefMut::deref_mut"):
            src = src[3][0]
        if src[0] in ("at", "addr") and src[1] == D:
            chunk_diag.append((ev, nev))
    for ev, nev in chunk_diag:
        o.check(complete_scan(an, fx, nev), who, "F4-diagonal-all", "the diagonal loop does not cover every row", ev["span"])
    # F4 initialisation
    o.check((len(diag) >= 1 or chunk_diag) and all(a == b for ev, (a, b) in diag), who, "F4-diagonal", "the diagonal is not set to 0 at (i, i)")
    for ev, (a, b) in diag:
        its = loop_items(an, fx, ev["b"])
        o.check(len(its) == 1 and its[0][1] == a and complete_scan(an, fx, its[0][0]), who, "F4-diagonal-all",
                "the diagonal loop does not cover every vertex", ev["span"])
        if len(its) == 1:
            dom = _vertex_domain(an, fx, its[0][0], Ns)
            if dom is None:
                o.undecide(who, "F4-diagonal-domain", "the diagonal loop iterates over something the rule does not interpret")
            else:
                o.check(dom == "all", who, "F4-diagonal-domain", "the diagonal loop is a range that is not known to end at the order: "
                        "the distance of a vertex outside it to itself stays infinite", ev["span"])
    o.check(len(init_w) >= 1, who, "F4-weights", "arc weights are not written into the matrix")
    for ev, (a, b), val in init_w:
        its = loop_items(an, fx, ev["b"])
        ok = len(its) == 1 and a == mk_field(its[0][1], "0", 0) and b == mk_field(its[0][1], "1", 1) and _mentions(val, mk_field(its[0][1], "2", 2))
        o.check(ok, who, "F4-weight-cell", "weight of arc (u, v) is not stored at cell (u, v)", ev["span"])
        if its:
            o.check(complete_scan(an, fx, its[0][0]), who, "F4-all-arcs", "the loop over the arcs can end early", ev["span"])
    # updates
    o.check(len(upd) >= 1, who, "update-exists", "no relaxation dist[a][c] = dist[a][b] + dist[b][c] found")
    for ev, (a, c), val in upd:
        x, y = sum_parts(val)
        rx, ix = load_parts(x)
        ry, iy = load_parts(y)
        p1 = rowmajor(ix, N) if ix else None
        p2 = rowmajor(iy, N) if iy else None
        mid = None
        if rx == D and ry == D and p1 and p2:
            for (q1, q2) in ((p1, p2), (p2, p1)):
                if q1[0] == a and q2[1] == c and q1[1] == q2[0]:
                    mid = q1[1]
        if not o.check(mid is not None, who, "update-shape", "the update is not dist[a][c] = dist[a][b] + dist[b][c]", ev["span"]):
            continue
        its = loop_items(an, fx, ev["b"])
        items = [it for _, it in its]
        # F1: the intermediate vertex is the outermost of the three loops
        o.check(len(items) == 3 and items[2] == mid and {items[0], items[1]} == {a, c}, who, "F1-intermediate-outermost",
                "the intermediate vertex is not the outermost loop of the triple loop", ev["span"])
        for nev, it in its:
            o.check(complete_scan(an, fx, nev) or _only_continue_exits(an, fx, nev), who, "F1-complete-loops",
                    "a loop of the triple loop can end early", nev["span"])
            dom = _vertex_domain(an, fx, nev, Ns)
            if dom is None:
                o.undecide(who, "F1-all-vertices", "a loop of the triple loop iterates over something the rule does not interpret")
            else:
                o.check(dom == "all", who, "F1-all-vertices", "a loop of the triple loop is a range that is not known to end at the order",
                        nev["span"])
        b = ev["b"]
        for opnd, nm in ((x, "first"), (y, "second")):
            o.check(fx.holds(b, lambda rel, opnd=opnd: any(a_[0] == "ne" and opnd in a_[1:] and ("const", "isize", IMAX) in a_[1:] for a_ in rel.w)),
                    who, "F2-infinity-guard", "the %s operand is added without a dominating != isize::MAX test" % nm, ev["span"])
        def better(rel, val=val, a=a, c=c):
            for at in rel.w:
                if at[0] in ("lt", "le") and at[1] == val and at[2][0] == "mem":
                    r, i = load_parts(at[2])
                    if r == D and rowmajor(i, N) == (a, c):
                        return True
            return False
        o.check(fx.holds(b, better), who, "F3-improvement", "the store is not guarded by sum < dist[a][c] of the cell that is written", ev["span"])
        # F5: inside the triple loop the update is skipped only for an infinite operand, for a sum that is no improvement,
        # or for coinciding indices (no-ops when the diagonal is 0); any other test that can bypass the update prunes relaxations
        loops_ = [an.cfg.loop_of(nev["b"]) for nev, _ in its]
        inside = set()
        for h in loops_:
            inside |= an.cfg.loops.get(h, set())
        next_sites = {nev["res"] for nev, _ in its}
        for sw in an.events:
            if sw["k"] != "switch" or sw["b"] not in inside or not an.cfg.dominates(sw["b"], b) or sw["b"] == b:
                continue
            dsc = sw["discr"]
            if dsc[0] == "discr" and dsc[1] in next_sites:
                continue
            if any(tg not in an.cfg.can_return for tg, _ in an.cfg.succ[sw["b"]]):
                continue        # a bounds / overflow check: the other side panics, nothing is skipped
            tm = an.blocks[sw["b"]]["term"]
            if dsc in (x, y) and all(int(v_) == IMAX for v_, _ in tm.get("targets", [])):
                continue        # `match operand { isize::MAX => continue, b => .. }`
            if dsc[0] == "discr" and dsc[1][0] == "call" and dsc[1][1].endswith("::checked_add") and set(dsc[1][3]) == {x, y}:
                continue        # `let Some(s) = a.checked_add(b) else { continue }`: skips only where a + b would overflow
            o.check(_fw_allowed_guard(dsc, (x, y), val, items, lambda t: (load_parts(t)[0] == D and rowmajor(load_parts(t)[1], N) == (a, c))),
                    who, "F5-no-pruning", "a test other than `operand == isize::MAX`, `sum < dist[a][c]` or an index coincidence can bypass "
                    "the relaxation dist[a][c] = min(dist[a][c], dist[a][b] + dist[b][c])", sw["span"])
    return o.report(floors={"Floyd-Warshall": (o.instances, 1), "relaxation updates": (len(upd), 1)})


def _fw_allowed_guard(dsc, operands, val, items, is_target_cell):
    if dsc[0] == "un" and dsc[1] == "Not":
        dsc = dsc[2]
    if not (dsc[0] == "bin" and dsc[1] in ("Eq", "Ne", "Lt", "Le")):
        return False
    l, r = dsc[2], dsc[3]
    imax = ("const", "isize", IMAX)
    if imax in (l, r) and (l in operands or r in operands):
        return True          # any comparison of an operand with the infinity value
    if dsc[1] in ("Eq", "Ne"):
        if l in items and r in items:
            return True
        return False
    # sum < dist[a][c]  (or <=: writing an equal value changes nothing)
    if l == val and r[0] == "mem" and is_target_cell(r):
        return True
    # dist[a][c] <= sum / dist[a][c] < sum used as the negated form
    if r == val and l[0] == "mem" and is_target_cell(l):
        return True
    return False


def fw_matrix_order_is_digraph_order(crate, S):
    """every FloydWarshall value is built as { dist: DistanceMatrix::new(digraph.order(), ..), digraph }, DistanceMatrix::new
    stores its first argument in `order`, and neither field chain is written afterwards"""
    inv = crate.inv
    DM = "graaf::algo::distance_matrix::DistanceMatrix"
    sites = inv.real_sites(S)
    if not sites:
        return False
    names = [f["name"] for f in crate.prog.adts[S]["fields"]]
    for (p, b, i, t) in sites:
        fields = dict(zip(names, t[3]))
        dv, gv = fields.get("dist"), fields.get("digraph")
        if dv is None or gv is None or dv[0] != "call" or crate.prog.key_to_path.get(dv[1]) != ctor_of(crate, DM):
            return False
        n = dv[3][0]
        an = crate.an(p)
        R = an.region_of_pointer(gv)
        if not (n[0] == "call" and n[1].endswith("Order::order") and n[3] and n[3][0][0] == "at" and n[3][0][1] == R):
            return False
    c = ctor_of(crate, DM)
    lit, lb = literal_of(crate, crate.an(c), DM)
    if lit is None or lit.get("order") != ("arg", 1):
        return False
    return inv._chain_frozen(((S, "dist"), (DM, "order"))) and crate.prog.frozen.is_frozen(((S, "digraph"),))


def _only_continue_exits(an, fx, nev):
    return complete_scan(an, fx, nev)


# ---------------------------------------------------------------------------
def _flat_index_impls_ok(crate, S):
    """Index<usize> / IndexMut<usize> of the matrix address dist[i]"""
    prog = crate.prog
    n = 0
    for im in prog.impls:
        if im["trait"] in ("core::ops::index::Index", "core::ops::index::IndexMut") and im["self"].get("path") == S:
            for it in im["items"]:
                if it["name"] in ("index", "index_mut") and it["path"] in prog.fns:
                    f = prog.fns[it["path"]]
                    if f["locals"][2]["ty"].get("s") != "usize":
                        continue
                    n += 1
                    an = crate.an(it["path"])
                    # the returned reference is an element of A1.dist at index arg 2 (whatever the spelling)
                    rets = [ev for ev in an.events if ev["k"] == "return"]
                    good = False
                    if len(rets) == 1:
                        rv_ = rets[0]["val"]
                        if rv_[0] == "addr" and rv_[2] is not None:
                            rv_ = rv_[2]            # &slice[i]: the address of an element
                        c, i = elem_access(rv_)
                        if c is None and rets[0]["val"][0] == "phi":
                            for pb, _ in an.cfg.pred[rets[0]["val"][1]]:
                                c, i = elem_access(an.var_term(an.ver_out[pb], rets[0]["val"][2]))
                                if c is not None:
                                    break
                        good = c is not None and region_of_container(c) == "A1.dist" and i == ("arg", 2)
                    if not good:
                        return False
    return n >= 1


def is_row_access(t, dist_region_suffix=".dist"):
    """u when t is dist[u * order ..][.. order] or dist[u * order .. u * order + order] (row u of the matrix)"""
    IDX = "core::ops::index::Index::index"
    if not (t[0] == "call" and t[1] in (IDX, "core::ops::index::IndexMut::index_mut") and len(t[3]) == 2):
        return None
    recv, rng = t[3]
    if rng[0] == "agg" and rng[1] == "adt" and rng[2][1] == "RangeTo" and recv[0] == "call" and recv[1] == t[1] and len(recv[3]) == 2:
        base, r0 = recv[3]
        b = strip_ref(base)
        if r0[0] == "agg" and r0[2][1] == "RangeFrom" and b[0] == "at" and b[1].endswith(dist_region_suffix):
            n = rng[3][0]
            st = r0[3][0]
            if n[0] == "mem" and n[1].endswith(".order") and st[0] == "bin" and st[1] == "Mul" and n in (st[2], st[3]):
                return st[3] if st[2] == n else st[2]
    if rng[0] == "agg" and rng[1] == "adt" and rng[2][1] == "Range":
        b = strip_ref(recv)
        lo, hi = rng[3]
        if b[0] == "at" and b[1].endswith(dist_region_suffix) and lo[0] == "bin" and lo[1] == "Mul":
            for u, n in ((lo[2], lo[3]), (lo[3], lo[2])):
                if n[0] == "mem" and n[1].endswith(".order"):
                    if hi in (("bin", "Add", lo, n), ("bin", "Add", n, lo), ("bin", "Mul", ("bin", "Add", u, ("const", "usize", 1)), n),
                              ("bin", "Mul", n, ("bin", "Add", u, ("const", "usize", 1))), ("bin", "Mul", ("bin", "Add", ("const", "usize", 1), u), n)):
                        return u
    return None


def rule_layout(crate, prop, tier):
    o = Obl("LAYOUT")
    prog = crate.prog
    S = "graaf::algo::distance_matrix::DistanceMatrix"
    o.instances = 1
    # Index / IndexMut<(usize, usize)>
    n = 0
    for im in prog.impls:
        if im["trait"] in ("core::ops::index::Index", "core::ops::index::IndexMut") and im["self"].get("path") == S:
            for it in im["items"]:
                if it["name"] in ("index", "index_mut") and it["path"] in prog.fns:
                    f = prog.fns[it["path"]]
                    if f["locals"][2]["ty"]["k"] != "tuple":
                        continue
                    n += 1
                    summ = prog.summaries.get(it["path"])
                    who = prog.pretty[it["path"]]
                    ok = False
                    if summ and summ[0][0] == "call" and len(summ[0][3]) == 2:
                        idx = summ[0][3][1]
                        ab = rowmajor(idx, ("mem", "A1.order", ("e",), None))
                        recv = summ[0][3][0]
                        direct = recv[0] == "at" and recv[1] == "A1.dist"
                        # or through the matrix's own Index<usize> / IndexMut<usize>, which index `dist`
                        via_self = recv[0] == "at" and recv[1] == "A1" and summ[0][2] and summ[0][2][0].startswith("algo::distance_matrix::DistanceMatrix") \
                            and _flat_index_impls_ok(crate, S)
                        ok = ab == (("field", ("arg", 2), "0"), ("field", ("arg", 2), "1")) and (direct or via_self)
                    o.check(ok, who, "row-major-index", "(u, v) is not addressed as dist[u * order + v]", f["span"])
    o.check(n >= 2, "DistanceMatrix", "index-impls", "Index/IndexMut<(usize, usize)> not found")
    # eccentricities: rows are chunks(order)
    e = method_of(crate, S, "eccentricities")
    if o.check(e is not None, "DistanceMatrix::eccentricities", "exists", "eccentricities not found"):
        summ = prog.summaries.get(e)
        ok = False
        if summ:
            t = summ[0]
            while t[0] == "call" and t[1].startswith("core::iter::traits::iterator::Iterator::") and t[3]:
                t = t[3][0]
            ok = t[0] == "call" and t[1] in ("slice::chunks", "slice::chunks_exact") and t[3][1] == ("mem", "A1.order", ("e",), None) \
                and strip_ref(t[3][0])[0] == "at" and strip_ref(t[3][0])[1] == "A1.dist"
            if not ok and t[0] == "agg" and t[1] == "adt" and t[2][0].endswith("ops::range::Range") and \
                    t[3] == (("const", "usize", 0), ("mem", "A1.order", ("e",), None)):
                # (0..order).map(|u| row u): the closure reads dist[u * order ..][.. order]
                for cp in prog.children.get(e, []):
                    cl = crate.an(cp)
                    us = set()

                    def walk(x):
                        if isinstance(x, tuple) and x:
                            u = is_row_access(x)
                            if u is not None:
                                us.add(u)
                            for y in x:
                                if isinstance(y, tuple):
                                    walk(y)
                    for ev in cl.events:
                        for k in ("args", "val", "discr", "res"):
                            v = ev.get(k)
                            if isinstance(v, (list, tuple)):
                                walk(tuple(v) if isinstance(v, list) else v)
                    if us == {("arg", 2)}:
                        ok = True
        o.check(ok, "DistanceMatrix::eccentricities", "rows-are-chunks", "rows are not dist.chunks(order) (nor dist[u * order ..][.. order] for u in 0..order)")
    # new(): order^2 cells (checked), all written with `infinity`
    c = ctor_of(crate, S)
    if o.check(c is not None, "DistanceMatrix::new", "exists", "new not found"):
        L = crate.inv.ctor_len(c, "dist")
        o.check(L is not None and sq_of(L) == ("arg", 1), "DistanceMatrix::new", "checked-square",
                "the matrix is not allocated with a checked order * order cells")
        can = crate.an(c)
        lit, lb = literal_of(crate, can, S)
        o.check(lit is not None and lit["order"] == ("arg", 1) and lit["infinity"] == ("arg", 2), "DistanceMatrix::new",
                "fields", "order / infinity fields are not the arguments")
        wr = [ev for ev in can.events if ev["k"] == "call" and ev["key"] == "core::ptr::write"]
        filled = len(wr) >= 1 and all(ev["args"][1] == ("arg", 2) for ev in wr)
        dv = lit["dist"] if lit else None
        if not wr and dv is not None:
            if dv[0] == "call" and dv[1] == "alloc::vec::from_elem" and dv[3][0] == ("arg", 2):
                filled = True       # vec![infinity; n]
            src = None
            if dv[0] == "site" and dv[2] == "core::iter::traits::iterator::Iterator::collect":
                for ev in can.ev_by_block.get(dv[1], ()):
                    if ev["k"] == "call" and ev["key"] == dv[2] and ev["args"]:
                        src = ev["args"][0]
            elif dv[0] == "call" and dv[1] == "core::iter::traits::iterator::Iterator::collect":
                src = dv[3][0]
            if src is not None and src[0] == "call" and src[1] == "core::iter::traits::iterator::Iterator::map" \
                    and src[3][1][0] == "agg" and src[3][1][1] == "closure":
                # (0..n).map(|_| infinity).collect(): every cell is the captured `infinity`
                from .closures import capture_map
                cl = crate.an(src[3][1][2])
                cm = capture_map(crate, cl)
                rets = [ev for ev in cl.events if ev["k"] == "return"]
                if cm is not None and len(rets) == 1:
                    filled = any(cv == rets[0]["val"] and pv == ("arg", 2) for pv, cv in cm.valmap)
        if not filled and not wr and dv is not None and dv[0] == "mem" and dv[3] is None:
            from .inv import push_loop_len
            n_ = push_loop_len(crate, can, dv, lb)
            pus = [ev for ev in can.events if ev["k"] == "call" and ev["key"] == "alloc::vec::Vec::push" and ev["args"][0] == ("addr", dv[1], None)]
            filled = n_ is not None and len(pus) == 1 and pus[0]["args"][1] == ("arg", 2)
        o.check(filled, "DistanceMatrix::new", "fill-infinity",
                "cells are not filled with the `infinity` argument")
        from .mem import inventory, discharge_site
        sl = [s for s in inventory(can) if s.kind == "call:alloc::vec::Vec::set_len"]
        for s in sl:
            okk, how = discharge_site(s, crate.fx(c))
            o.check(bool(okk), "DistanceMatrix::new", "all-cells-initialised", "set_len is not followed by a loop initialising every cell", s.span)
    return o.report(floors={"DistanceMatrix": (1, 1)})


# ---------------------------------------------------------------------------
RESTRICTING = {
    "core::iter::traits::iterator::Iterator::skip", "core::iter::traits::iterator::Iterator::take",
    "core::iter::traits::iterator::Iterator::step_by", "core::iter::traits::iterator::Iterator::filter",
    "core::iter::traits::iterator::Iterator::take_while", "core::iter::traits::iterator::Iterator::skip_while",
    "core::iter::traits::iterator::Iterator::filter_map", "core::iter::traits::iterator::Iterator::nth",
    "core::iter::traits::iterator::Iterator::find", "core::iter::traits::iterator::Iterator::position",
    "slice::split_at", "slice::split_first", "slice::split_last", "slice::windows", "slice::chunks_exact",
    "slice::first", "slice::last", "slice::get", "slice::get_unchecked",
}


def _all_terms(an):
    for ev in an.events:
        for k in ("args", "val", "discr", "res", "cond"):
            v = ev.get(k)
            if isinstance(v, list):
                for x in v:
                    yield x
            elif isinstance(v, tuple):
                yield v
    for t in an.stmt_terms.values():
        yield t


def _components_used(an_list, R):
    """which components (0 / 1) of the pair produced by a split_* call are read anywhere"""
    used = set()

    def walk(t):
        if isinstance(t, tuple) and t:
            if t[0] == "field" and len(t) == 3 and t[2] in ("0", "1"):
                inner = t[1]
                if inner == R or (inner[0] == "field" and inner[2] == "0" and inner[1][0] == "dc" and inner[1][1] == R):
                    used.add(t[2])
            for x in t:
                if isinstance(x, tuple):
                    walk(x)
    for an in an_list:
        for t in _all_terms(an):
            walk(t)
    return used


def _row_index_bound_to_all_rows(crate, an, u):
    """u ranges over every row: it is the parameter of a closure that map / for_each / all / any / flat_map applies to
    0..order, or the item of a complete `for u in 0..order` loop"""
    from .closures import capture_map
    from .mem import complete_scan

    def is_all_rows(d):
        return d and d != "CYCLE" and d[0] == "agg" and d[1] == "adt" and d[2][0].endswith("ops::range::Range") and \
            d[3][0] == ("const", "usize", 0) and d[3][1][0] == "mem" and d[3][1][1].endswith(".order")
    if u == ("arg", 2) and an.f["kind"] == "Closure":
        cm = capture_map(crate, an)
        if cm is None:
            return False
        pfx = crate.fx(cm.pan.path)
        for ev in cm.pan.events:
            if ev["k"] == "call" and len(ev["args"]) == 2 and ev["args"][1] == cm.agg and ev["key"] and ev["key"].split("::")[-1] in (
                    "map", "for_each", "all", "any", "flat_map", "fold"):
                d = ev["args"][0]
                if d[0] == "addr":
                    d = pfx.iter_desc(ev)
                return bool(is_all_rows(d))
        return False
    from .origin import payload_of
    site, path = payload_of(u)
    if site is not None and path == ():
        fx = crate.fx(an.path)
        ev = fx.an_call_at(site[1])
        if ev is not None:
            return bool(is_all_rows(fx.iter_desc(ev))) and complete_scan(an, fx, ev)
    return False


def restrictions_in(crate, root):
    """calls in the family of `root` that look at only a part of a sequence: restricting iterator adaptors and
    sub-slicing (indexing with a range other than `..`).  Not counted: split_* whose two parts are both read,
    chunks_exact(order) on the order*order buffer, and the row access dist[u * order ..][.. order] with u ranging over
    all of 0..order"""
    out = []
    fam = [root] + [p for p in crate.fn_paths() if crate.prog.fns[p].get("root") == root and p != root]
    ans = [crate.an(p) for p in fam]
    for an in ans:
        row_terms = set()
        for t in _all_terms(an):
            def walk(x):
                if isinstance(x, tuple) and x:
                    u = is_row_access(x)
                    if u is not None and _row_index_bound_to_all_rows(crate, an, u):
                        row_terms.add(x)
                        row_terms.add(x[3][0])       # the inner [u * order ..] of the two-step form
                    for y in x:
                        if isinstance(y, tuple):
                            walk(y)
            walk(t)
        for ev in an.events:
            if ev["k"] != "call" or not ev["key"]:
                continue
            last = ev["key"].split("::")[-1]
            if ev["key"] in RESTRICTING:
                if last in ("split_at", "split_first", "split_last") and _components_used(ans, ev["res"]) == {"0", "1"}:
                    continue
                if last == "chunks_exact" and len(ev["args"]) == 2 and ev["args"][1][0] == "mem" and ev["args"][1][1].endswith(".order"):
                    continue
                out.append((ev, last))
            if ev["key"] in ("core::ops::index::Index::index", "core::ops::index::IndexMut::index_mut") and ev["fn"]:
                ta = ev["fn"].get("targs", [])
                if len(ta) >= 2 and ta[1].get("k") == "adt" and ta[1].get("path", "").startswith("core::ops::range::") \
                        and ta[1].get("name") != "RangeFull":
                    if ev["res"] in row_terms:
                        continue
                    out.append((ev, "[" + ta[1]["name"] + "]"))
    return out


def rule_dm_queries(crate, prop, tier):
    """C18: eccentricities / diameter / is_connected look at every cell of the matrix: they are defined over
    `dist.chunks(order)` rows and their maxima without any restricting adaptor or sub-slice in between"""
    o = Obl("DM-QUERIES")
    prog = crate.prog
    S = "graaf::algo::distance_matrix::DistanceMatrix"
    ECC = S + "::eccentricities"
    IT = "core::iter::traits::iterator::Iterator::"
    e = method_of(crate, S, "eccentricities")
    d = method_of(crate, S, "diameter")
    ic = method_of(crate, S, "is_connected")
    for m, nm in ((e, "eccentricities"), (d, "diameter"), (ic, "is_connected")):
        if not o.check(m is not None, "DistanceMatrix::" + nm, "exists", nm + " not found"):
            continue
        o.instances += 1
        who = "DistanceMatrix::" + nm
        an = crate.an(m)
        for ev, what in restrictions_in(crate, m):
            o.check(False, who, "partial-scan:" + what, "%s looks at only a part of the matrix (%s): an entry outside that part "
                    "cannot influence the result" % (nm, what), ev["span"])
        ok = None
        if nm == "eccentricities":
            # map(rows, |row| row.iter().max().unwrap_or(&infinity))
            for cp in prog.children.get(m, []):
                cl = crate.an(cp)
                rets = [ev for ev in cl.events if ev["k"] == "return"]
                mx = [ev for ev in cl.events if ev["k"] == "call" and ev["key"] == IT + "max"]
                if len(rets) == 1 and len(mx) == 1:
                    r = rets[0]["val"]
                    src = mx[0]["args"][0]
                    row_scan = src[0] == "call" and src[1] == "slice::iter" and src[3] and \
                        (strip_ref(src[3][0]) == ("arg", 2) or (strip_ref(src[3][0])[0] == "at" and strip_ref(src[3][0])[1] == "A2"))
                    ok = r[0] == "call" and r[1] == "core::option::Option::unwrap_or" and r[3][0] == mx[0]["res"] and \
                        r[3][1][0] == "at" and r[3][1][1].endswith(".infinity") and row_scan
        elif nm == "diameter":
            ecc = [ev for ev in an.events if ev["k"] == "call" and prog.key_to_path.get(ev["key"]) == e]
            mx = [ev for ev in an.events if ev["k"] == "call" and ev["key"] == IT + "max"]
            rets = [ev for ev in an.events if ev["k"] == "return"]
            if ecc and len(mx) == 1 and len(rets) == 1:
                r = rets[0]["val"]
                ok = mx[0]["args"][0] == ecc[0]["res"] and ecc[0]["args"] == [("arg", 1)] and r[0] == "call" and \
                    r[1] == "core::option::Option::unwrap_or" and r[3][0] == mx[0]["res"] and r[3][1][0] == "at" and r[3][1][1] == "A1.infinity"
        else:
            ecc = [ev for ev in an.events if ev["k"] == "call" and prog.key_to_path.get(ev["key"]) == e]
            al = [ev for ev in an.events if ev["k"] == "call" and ev["key"] == IT + "all"]
            rets = [ev for ev in an.events if ev["k"] == "return"]
            if ecc and len(al) == 1 and len(rets) == 1 and rets[0]["val"] == al[0]["res"]:
                src = al[0]["args"][0]
                if src[0] == "addr":
                    src = crate.fx(m).iter_desc(al[0])
                clo = al[0]["args"][1]
                if src == ecc[0]["res"] and clo[0] == "agg" and clo[1] == "closure":
                    cl = crate.an(clo[2])
                    cr = [ev for ev in cl.events if ev["k"] == "return"]
                    if len(cr) == 1:
                        r = cr[0]["val"]
                        neq = (r[0] == "call" and r[1] == "core::cmp::PartialEq::ne") or \
                              (r[0] == "un" and r[1] == "Not" and r[2][0] == "call" and r[2][1] == "core::cmp::PartialEq::eq") or \
                              (r[0] == "bin" and r[1] == "Ne")
                        ok = neq and _mentions_infinity(cl, r)
        if nm == "is_connected" and not ok:
            # whatever the spelling: `true` must not be returned on a path that never looked at the matrix
            scans = {ev["b"] for ev in an.events if ev["k"] == "call" and (prog.key_to_path.get(ev["key"]) == e or ev["key"] in (
                "slice::chunks", "slice::chunks_exact", "slice::iter", "core::ops::index::Index::index"))}
            for rev in [ev for ev in an.events if ev["k"] == "return"]:
                cands = []
                v = rev["val"]
                if v[0] == "phi" and len(v) == 3:
                    cands = list(zip([pb for pb, _ in an.cfg.pred[v[1]]], an.phi_inputs(v[1], v[2])))
                else:
                    cands = [(rev["b"], v)]
                for pb, t in cands:
                    if const_is(t, 1) and not any(an.cfg.dominates(sb, pb) for sb in scans):
                        o.check(False, who, "connected-without-scan", "is_connected returns true on a path that never looks at the matrix "
                                "(a matrix whose entries are all infinite, e.g. a single unreachable cell, is not connected)", rev.get("span"))
        if not ok:
            o.undecide(who, nm + "-definition", "%s is not written over eccentricities() / the rows of dist.chunks(order) in a form the rule interprets" % nm)
        else:
            o.check(True, who, nm + "-definition", "")
    # center: argmin scan over all eccentricities; periphery: the vertices whose eccentricity equals the diameter
    ce = method_of(crate, S, "center")
    if o.check(ce is not None, "DistanceMatrix::center", "exists", "center not found"):
        o.instances += 1
        _center_clause(crate, o, ce, e)
    pe = method_of(crate, S, "periphery")
    if o.check(pe is not None, "DistanceMatrix::periphery", "exists", "periphery not found"):
        o.instances += 1
        _periphery_clause(crate, o, pe, e, d)
    return o.report(floors={"DistanceMatrix queries": (o.instances, 5)})


def _center_clause(crate, o, m, ecc_path):
    who = "DistanceMatrix::center"
    prog = crate.prog
    an = crate.an(m)
    fx = crate.fx(m)
    IT = "core::iter::traits::iterator::Iterator::"
    ecc = [ev for ev in an.events if ev["k"] == "call" and prog.key_to_path.get(ev["key"]) == ecc_path and ev["args"] == [("arg", 1)]]
    nexts = []
    for ev in an.events:
        if ev["k"] == "call" and ev["key"] == IT + "next":
            dsc = fx.iter_desc(ev)
            if ecc and dsc and dsc != "CYCLE" and dsc[0] == "call" and dsc[1] == IT + "enumerate" and dsc[3][0] == ecc[0]["res"]:
                nexts.append(ev)
    cmps = [ev for ev in an.events if ev["k"] == "call" and ev["key"] == "core::cmp::Ord::cmp"]
    if len(nexts) != 1 or len(cmps) != 1 or an.cfg.loop_of(cmps[0]["b"]) != an.cfg.loop_of(nexts[0]["b"]):
        for ev, what in restrictions_in(crate, m):
            if what in ("filter", "filter_map", "position", "find"):
                continue        # selecting the vertices that attain the minimum is what center does
            o.check(False, who, "partial-scan:" + what, "center looks at only a part of the eccentricities (%s)" % what, ev["span"])
        o.undecide(who, "center-definition", "center is not written as one `for (i, e) in eccentricities().enumerate()` loop around `e.cmp(&min)`")
        return
    N, C = nexts[0], cmps[0]
    for ev, what in restrictions_in(crate, m):
        o.check(False, who, "partial-scan:" + what, "center looks at only a part of the eccentricities (%s)" % what, ev["span"])
    item = ("field", ("dc", N["res"], "Some"), "0")
    i_t, e_t = mk_field(item, "0", 0), mk_field(item, "1", 1)
    hb = an.cfg.loop_of(N["b"])
    body = an.cfg.loops.get(hb, set())
    o.check(complete_scan(an, fx, N), who, "center-all-vertices", "the scan over the eccentricities can end early", N["span"])
    latches = [pb for pb, _ in an.cfg.pred[hb] if an.cfg.dominates(hb, pb)]
    o.check(all(an.cfg.dominates(C["b"], lb) for lb in latches), who, "center-compares-every-vertex",
            "an iteration can continue without comparing the vertex's eccentricity with the running minimum: such a vertex can "
            "never be central (wrong when it is the minimum, e.g. when every eccentricity is infinite)", C["span"])
    # operands: the item's eccentricity and the running minimum that starts at self.infinity
    def loaded(t):
        if t[0] in ("addr", "at") and t[2] is None:
            vals = {v for (var, ver), v in an.term_of.items() if var == t[1] and v[0] != "opq"}
            return t[1], vals
        return None, set()
    r1, v1 = loaded(C["args"][0])
    r2, v2 = loaded(C["args"][1])
    def is_e(vals):
        return any(v[0] == "mem" and v[3] == e_t for v in vals) or e_t in vals
    def is_min(vals):
        return any(v[0] == "mem" and v[1] == "A1.infinity" for v in vals) and is_e(vals - {v for v in vals if v[0] == "mem" and v[1] == "A1.infinity"})
    swapped = None
    if is_e(v1) and not is_min(v1) and is_min(v2):
        swapped = False
    elif is_e(v2) and not is_min(v2) and is_min(v1):
        swapped = True
    inf_only = lambda vals: bool(vals) and all(v[0] == "mem" and v[1] == "A1.infinity" for v in vals)
    if swapped is None and ((is_e(v1) and inf_only(v2)) or (is_e(v2) and inf_only(v1))):
        o.check(False, who, "center-min-update", "the eccentricities are compared with `infinity` itself: the running minimum is never "
                "updated inside the scan", C["span"])
        return
    if swapped is None:
        o.undecide(who, "center-definition", "the operands of cmp are not (eccentricity of the vertex, running minimum started at infinity)")
        return
    lower, minreg = ("Greater", r1) if swapped else ("Less", r2)
    upper = "Less" if swapped else "Greater"
    from .facts import contradictory

    def reach(assume, avoid, targets):
        """some block of `targets` is reachable from the comparison inside one iteration, along edges consistent with
        `assume`, without passing a block of `avoid`"""
        seen = set()
        work = [C["b"]]
        while work:
            x = work.pop()
            if x in seen:
                continue
            seen.add(x)
            if x in targets and x != C["b"]:
                return True
            if x in avoid and x != C["b"]:
                continue
            for tg, lab in an.cfg.succ[x]:
                if tg not in body or tg == hb:
                    continue
                atoms = set(fx.close(fx.edge_atoms(x, lab, tg))) | assume
                if contradictory(atoms):
                    continue
                work.append(tg)
        return False
    V = lambda name: {("variant", C["res"], name)}
    pushes = {ev["b"] for ev in an.events if ev["k"] == "call" and ev["key"] == "alloc::vec::Vec::push" and ev["b"] in body
              and ev["args"][1] == i_t}
    allpush = {ev["b"] for ev in an.events if ev["k"] == "call" and ev["key"] == "alloc::vec::Vec::push" and ev["b"] in body}
    clears = {ev["b"] for ev in an.events if ev["k"] == "call" and ev["key"] == "alloc::vec::Vec::clear" and ev["b"] in body}
    mins = {ev["b"] for ev in an.events if ev["k"] == "store" and ev["region"] == minreg and ev["b"] in body
            and ev["val"][0] == "mem" and ev["val"][3] == e_t}
    allmins = {ev["b"] for ev in an.events if ev["k"] == "store" and ev["region"] == minreg and ev["b"] in body}
    lat = set(latches)
    lregs = {ev["args"][0][1] for ev in an.events if ev["k"] == "call" and ev["key"] == "alloc::vec::Vec::push" and ev["b"] in pushes
             and ev["args"][0][0] == "addr"}
    other_resets = [ev for ev in an.events if ev["b"] in body and (
        (ev["k"] == "store" and ev["region"] in lregs) or
        (ev["k"] == "call" and ev["key"] not in ("alloc::vec::Vec::push", "alloc::vec::Vec::clear") and not ev.get("pure") and ev["args"]
         and ev["args"][0][0] == "addr" and ev["args"][0][1] in lregs))]
    if pushes and not clears and not other_resets:
        o.check(False, who, "center-clear", "the list of candidates is never emptied inside the scan: vertices pushed before a smaller "
                "eccentricity was found stay in the result", C["span"])
        return
    if pushes and not allmins:
        o.check(False, who, "center-min-update", "the running minimum is never updated inside the scan", C["span"])
        return
    if not pushes or not clears or not mins:
        o.undecide(who, "center-definition", "center does not keep its list with push / clear and a running minimum the rule can follow")
        return
    okpush = allpush == pushes and not reach(V(lower), pushes, lat) and not reach(V("Equal"), pushes, lat) and not reach(V(upper), set(), pushes)
    o.check(okpush, who, "center-push",
            "the vertex is not pushed exactly when its eccentricity is smaller than or equal to the running minimum", C["span"])
    okclear = not reach(V(lower), clears, pushes | lat) and not reach(V("Equal"), set(), clears) and not reach(V(upper), set(), clears)
    o.check(okclear, who, "center-clear", "the list is not cleared (before the push) exactly when a smaller eccentricity is found", C["span"])
    okmin = allmins == mins and not reach(V(lower), mins, lat) and not reach(V("Equal"), set(), mins) and not reach(V(upper), set(), mins)
    o.check(okmin, who, "center-min-update", "the running minimum is not set to the smaller eccentricity exactly when one is found", C["span"])
    rets = [ev for ev in an.events if ev["k"] == "return"]
    pregs = {ev["args"][0][1] for ev in an.events if ev["k"] == "call" and ev["key"] == "alloc::vec::Vec::push" and ev["b"] in body
             and ev["args"][0][0] == "addr"}
    o.check(len(rets) == 1 and rets[0]["val"][0] == "mem" and rets[0]["val"][1] in pregs, who, "center-returns-list",
            "the list is not what is returned")


def _periphery_clause(crate, o, m, ecc_path, dia_path):
    who = "DistanceMatrix::periphery"
    prog = crate.prog
    an = crate.an(m)
    IT = "core::iter::traits::iterator::Iterator::"
    ecc = [ev for ev in an.events if ev["k"] == "call" and prog.key_to_path.get(ev["key"]) == ecc_path and ev["args"] == [("arg", 1)]]
    dia = [ev for ev in an.events if ev["k"] == "call" and prog.key_to_path.get(ev["key"]) == dia_path and ev["args"] == [("arg", 1)]]
    rets = [ev for ev in an.events if ev["k"] == "return"]
    ok = None
    if ecc and dia and len(rets) == 1:
        r = rets[0]["val"]
        if r[0] == "call" and r[1] in (IT + "filter_map", IT + "filter") and len(r[3]) == 2 and r[3][0][0] == "call" \
                and r[3][0][1] == IT + "enumerate" and r[3][0][3][0] == ecc[0]["res"] and r[3][1][0] == "agg" and r[3][1][1] == "closure":
            from .closures import capture_map
            cl = crate.an(r[3][1][2])
            cm = capture_map(crate, cl)
            crs = [ev for ev in cl.events if ev["k"] == "return"]
            dcap = [cv for pv, cv in (cm.valmap if cm else []) if pv == dia[0]["res"]]
            if len(crs) == 1 and r[1] == IT + "filter_map":
                cr = crs[0]["val"]
                if cr[0] == "call" and cr[1] == "bool::then_some" and len(cr[3]) == 2:
                    cond, val = cr[3]
                    item = ("arg", 2)
                    ok = val == mk_field(item, "0", 0) and _is_eq_of(cl, cond, mk_field(item, "1", 1), dcap)
    if ok is None:
        o.undecide(who, "periphery-definition", "periphery is not written as eccentricities().enumerate().filter_map(|(i, e)| (e == diameter).then_some(i))")
    else:
        o.check(ok, who, "periphery-definition", "periphery does not select exactly the vertices whose eccentricity equals diameter()", rets[0].get("span"))


def _is_eq_of(cl, cond, a, bs):
    """cond is `a == b` for some b in bs, written with == or PartialEq::eq on references to exactly named places"""
    def val(t):
        if t[0] in ("at", "addr") and t[2] is None:
            vs = {v for (var, ver), v in cl.term_of.items() if var == t[1] and v[0] != "opq"}
            if len(vs) == 1:
                return vs.pop()
            return ("mem", t[1], t[3] if t[0] == "at" else ("e",), None)
        return t
    if cond[0] == "bin" and cond[1] == "Eq":
        x, y = cond[2], cond[3]
    elif cond[0] == "call" and cond[1] == "core::cmp::PartialEq::eq" and len(cond[3]) == 2:
        x, y = val(cond[3][0]), val(cond[3][1])
    else:
        return False
    return (x == a and y in bs) or (y == a and x in bs)


def _mentions_infinity(cl, r):
    """one side of the comparison is (a reference to) the captured matrix's `infinity` field"""
    def rec(t):
        if isinstance(t, tuple) and t:
            if t[0] in ("at", "mem", "addr") and isinstance(t[1], str) and t[1].endswith(".infinity"):
                return True
            if t[0] == "at" and t[2] is None:
                v = cl.term_of.get((t[1], t[3]))
                if v is not None and v != t and rec(v):
                    return True
            return any(rec(x) for x in t if isinstance(x, tuple))
        return False
    return rec(r)


def _unmarked_by_option_filter(crate, an, R, i):
    """i is the payload of `link.filter(|&v| .. && !marks[v])?`: the closure returns true only when marks[v] was read false"""
    from .closures import capture_map
    if not (i[0] == "field" and i[2] == "0" and i[1][0] == "dc" and i[1][2] == "Some" and i[1][1][0] == "call"
            and i[1][1][1] == "core::option::Option::filter" and len(i[1][1][3]) == 2):
        return False
    clo = i[1][1][3][1]
    if not (clo[0] == "agg" and clo[1] == "closure"):
        return False
    cl = crate.an(clo[2])
    cm = capture_map(crate, cl)
    if cm is None:
        return False
    inner = {cr for pr, cr in cm.regmap if pr == R}
    rets = [e for e in cl.events if e["k"] == "return"]
    if len(rets) != 1 or not inner:
        return False
    rv = rets[0]["val"]
    ins = cl.phi_inputs(rv[1], rv[2]) if rv[0] == "phi" and len(rv) == 3 else [rv]
    param = ("mem", "A2", ("e",), None)
    saw = False
    for t in ins:
        if t == ("const", "bool", 0):
            continue
        if t[0] == "un" and t[1] == "Not" and t[2][0] == "mem":
            r, idx = load_parts(t[2])
            if r in inner and idx == param:
                saw = True
                continue
        return False
    return saw


# ---------------------------------------------------------------------------
def rule_terminate(crate, prop, tier):
    o = Obl("TERMINATE")
    S = "graaf::algo::predecessor_tree::PredecessorTree"
    m = method_of(crate, S, "search_by")
    who = "PredecessorTree::search_by"
    if not o.check(m is not None, who, "exists", "search_by not found"):
        return o.report(floors={"search_by": (0, 1)})
    o.instances = 1
    an = crate.an(m)
    fx = crate.fx(m)
    # the predicate sees the predecessor entry as stored: not an Option that was filtered / mapped on the way
    for ev in an.events:
        if ev["k"] == "call" and ev["key"] in ("core::ops::function::Fn::call", "core::ops::function::FnMut::call_mut") and len(ev["args"]) == 2 \
                and ev["args"][1][0] == "agg" and len(ev["args"][1][3]) == 2:
            second = ev["args"][1][3][1]
            vals = [second]
            if second[0] == "addr" and second[2] is None:
                vals = [v for (var, ver), v in an.term_of.items() if var == second[1]]
            for v in vals:
                if v[0] == "call" and v[1].startswith("core::option::Option::") and v[1].split("::")[-1] in (
                        "filter", "map", "and_then", "or", "or_else", "xor", "take", "replace", "zip", "then_some"):
                    o.check(False, who, "predicate-sees-stored-entry", "the target predicate is called with a predecessor entry that went "
                            "through Option::%s: it no longer sees what the tree stores (a self-referential entry turns into None)"
                            % v[1].split("::")[-1], ev["span"])
    # the visited array: a local Vec<bool>
    marks = [ev for ev in an.events if ev["k"] == "store" and const_is(ev["val"], 1) and store_elem(ev)[0] is not None]
    o.check(len(an.cfg.loops) >= 1, who, "loop-exists", "no loop found")
    for h, body in an.cfg.loops.items():
        latches = [pb for pb, _ in an.cfg.pred[h] if an.cfg.dominates(h, pb)]
        for lb in latches:
            good = False
            for ev in marks:
                c, i = store_elem(ev)
                R = region_of_container(c)
                if ev["b"] in body and an.cfg.dominates(ev["b"], lb) and R and \
                        (world_has_load(fx, ev["b"], False, R, i) or _unmarked_by_option_filter(crate, an, R, i)):
                    # the marked vertex is the next current vertex
                    good = True
                    # length of visited equals pred.len()
                    from .core import mk_len
                    L = mk_len(c, an) if c[3] is not None else None
            o.check(good, who, "progress", "an iteration of the loop can continue without marking a previously unmarked "
                    "vertex (the search may not terminate on a cyclic predecessor vector)", an.blocks[lb]["tspan"])
    # every vertex the walk stands on is put to the predicate before the walk can end there: the only way out of the loop that
    # is not behind the in-loop predicate call is the link lookup itself (`pred.get(s)` is None / s is not below pred.len())
    FN_CALLS = ("core::ops::function::Fn::call", "core::ops::function::FnMut::call_mut")
    mark_regions = {region_of_container(store_elem(ev)[0]) for ev in marks} - {None}
    for h, body in an.cfg.loops.items():
        pcalls = [ev for ev in an.events if ev["k"] == "call" and ev["key"] in FN_CALLS and ev["b"] in body]
        if not pcalls:
            o.undecide(who, "predicate-decides-every-visited-vertex", "the loop of search_by does not call the target predicate")
            continue
        for b in sorted(body):
            if any(an.cfg.dominates(p["b"], b) for p in pcalls) or all(tg in body for tg, _ in an.cfg.succ[b]):
                continue
            sws = [ev for ev in an.events if ev["k"] == "switch" and ev["b"] == b]
            dsc = sws[-1]["discr"] if sws else None
            if dsc is None:
                o.undecide(who, "predicate-decides-every-visited-vertex", "an exit of the walk ahead of the predicate is not a branch",
                           an.blocks[b]["tspan"])
                continue

            def has(t, pred_):
                return bool(t) and (pred_(t) or any(has(x, pred_) for x in t if isinstance(x, tuple)))
            lookup = has(dsc, lambda t: (t[0] == "call" and t[1] in ("slice::get", "core::ops::index::Index::index")) or
                         (t[0] == "len" and len(t) == 2 and isinstance(t[1], tuple) and len(t[1]) > 1 and t[1][1] == "A1.pred"))
            content = has(dsc, lambda t: t[0] == "mem" and len(t) > 1 and t[1] == "A1.pred#buf")
            if lookup and not content:
                o.check(True, who, "predicate-decides-every-visited-vertex", "")
            elif has(dsc, lambda t: t[0] == "mem" and len(t) > 1 and t[1] in mark_regions | {r + "#buf" for r in mark_regions}):
                o.undecide(who, "predicate-decides-every-visited-vertex", "the walk tests its visited marks ahead of the predicate",
                           an.blocks[b]["tspan"])
            else:
                o.check(False, who, "predicate-decides-every-visited-vertex", "the walk can end at a vertex without putting it to the "
                        "target predicate: an exit of the loop ahead of the predicate call depends on something other than the link "
                        "lookup `pred.get(s)` (a chain that ends at a self-referential or otherwise special entry is cut short "
                        "before its last vertex is tested)", an.blocks[b]["tspan"])
    # apart from reading pred[s] for the start vertex (out-of-range start is a documented panic), the walk cannot panic
    from .panics import panic_sites, discharge_panic
    for st in panic_sites(an):
        if discharge_panic(crate, st):
            o.check(True, who, "no-panic-in-walk", "")
            continue
        ev_ = st.ev
        start_read = st.kind == "index" and ev_["k"] == "call" and len(ev_["args"]) == 2 and ev_["args"][1] == ("arg", 2) and \
            ((ev_["args"][0][0] in ("addr", "at") and ev_["args"][0][1] == "A1.pred") or
             ev_["args"][0] == ("arg", 1))       # self.pred[s], or self[s] through the tree's own Index impl
        o.check(start_read, who, "no-panic-in-walk", "the walk along the predecessor links can panic (%s): for in-range vectors "
                "search_by must terminate with Some or None" % st.kind, st.span)
    # search delegates to search_by
    s = method_of(crate, S, "search")
    if o.check(s is not None, who, "search-exists", "search not found"):
        san = crate.an(s)
        calls = [ev for ev in san.events if ev["k"] == "call" and ev["key"] and ev["key"].endswith("PredecessorTree::search_by")]
        o.check(len(calls) == 1 and calls[0]["args"][1] == ("arg", 2), who, "search-delegates", "search(s, t) does not delegate to search_by from s")
        if len(calls) == 1:
            call = calls[0]
            rets = [ev for ev in san.events if ev["k"] == "return"]
            o.check(bool(rets) and all(ev["val"] == call["res"] for ev in rets), "PredecessorTree::search", "search-returns-delegate",
                    "search(s, t) can return something other than the result of search_by(s, |v| v == t) (a shortcut around the walk "
                    "along the predecessor links)", call["span"])
            clo = call["args"][2] if len(call["args"]) == 3 else None
            okp = False
            if clo is not None and clo[0] == "agg" and clo[1] == "closure" and len(clo[3]) == 1:
                from .closures import capture_map
                can = crate.an(clo[2])
                cm = capture_map(crate, can)
                crets = [ev for ev in can.events if ev["k"] == "return"]
                tcap = [cv for pv, cv in (cm.valmap if cm else []) if pv == ("arg", 3)]
                rv = crets[0]["val"] if len(crets) == 1 else ("none",)
                if rv[0] == "call" and rv[1] == "core::cmp::PartialEq::eq" and len(rv[3]) == 2 and \
                        all(x[0] == "at" and x[2] is None for x in rv[3]):
                    # usize::eq(&a, &b) on two exactly named places
                    rv = ("bin", "Eq") + tuple(("mem", x[1], x[3], None) for x in rv[3])
                if rv[0] == "bin" and rv[1] == "Eq":
                    a, b = rv[2], rv[3]
                    vparam = ("mem", "A2", ("e",), None)
                    okp = (a in tcap and b == vparam) or (b in tcap and a == vparam)
            o.check(okp, "PredecessorTree::search", "search-predicate", "the predicate handed to search_by is not `vertex == t`", call["span"])
    return o.report(floors={"search_by": (o.instances, 1)})
