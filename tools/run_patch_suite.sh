#!/bin/bash
# usage: tools/run_patch_suite.sh <patch> <expect: silent|alarm> [properties...]
# applies <patch> to a scratch worktree of /repo's HEAD (outside /repo and /verif), exports the facts of that tree once,
# runs the checks against them (no evidence is written), removes the worktree. Exit 0 when the expectation is met.
set -u
PATCH="$1"; EXPECT="$2"; shift 2
PROPS="${@:-C01 C02 C03 C04 C05 C06 C07 C08 C11 C12 C13 C14 C15 C16 C17 C18 C19 C20}"
W=$(mktemp -d /tmp/gsa-wt.XXXXXX); rmdir "$W"
F=$(mktemp /tmp/gsa-facts.XXXXXX.json)
git -C /repo worktree add -q "$W" HEAD || exit 2
trap 'git -C /repo worktree remove --force "$W" >/dev/null 2>&1; rm -f "$F"' EXIT
git -C "$W" apply "$PATCH" || { echo "patch does not apply: $PATCH"; exit 3; }
GSA_REPO="$W" /verif/export_facts.sh "$F" || { echo "fact export failed (does the patched tree build?)"; exit 2; }
alarms=""
for c in $PROPS; do
  out=$(cd /verif && GSA_NO_EVIDENCE=1 ./check $c --facts "$F" 2>&1); rc=$?
  if [ $rc -eq 1 ]; then alarms="$alarms $c"; echo "$out" | grep -A1 "violation rule" | head -6; fi
  if [ $rc -ge 2 ]; then echo "checker error on $c"; echo "$out" | tail -5; exit 2; fi
done
echo "patch=$(basename $PATCH) alarms:[${alarms# }] expected=$EXPECT"
if [ "$EXPECT" = silent ]; then [ -z "$alarms" ]; else [ -n "$alarms" ]; fi
