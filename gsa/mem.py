"""MEM: unsafe-operation obligations (DESIGN §3.1)."""
from .core import Analysis, mk_len, strip_ref
from .facts import Facts
from . import effects as E

RAW_DEREF_OK_KEYS = ()


def is_raw_ptr_local(an, local):
    return an.locals[local]["ty"]["k"] == "rawptr"


def span_str(sp):
    return "%s:%d" % (sp["file"], sp["line"])


def from_macro(sp, names=("vec", "format_args", "panic", "assert", "assert_ne", "assert_eq", "format",
                          "unreachable", "write", "debug_assert", "const_format_args")):
    for e in sp.get("exp", []):
        if e.startswith("macro:") and e.split(":", 1)[1] in names:
            return True
    return False


class Site:
    def __init__(self, an, kind, b, span, **kw):
        self.an = an
        self.fn = an.path
        self.kind = kind
        self.b = b
        self.span = span
        self.__dict__.update(kw)
        self.status = None
        self.how = None
        self.detail = None

    def key(self):
        return "%s|%s|%s|%s" % (self.fn, self.kind, getattr(self, "rootname", "?"), getattr(self, "idxname", "?"))


def ptr_root(t):
    """(container identity term, index term or None, kind) of a raw pointer / reference term"""
    idx = None
    while True:
        k = t[0]
        if k == "pcast":
            t = t[1]
            continue
        if k == "cast":
            t = t[2]
            continue
        if k == "call":
            key, args = t[1], t[3]
            if key in ("rawptr::add",) and len(args) == 2:
                if idx is not None:
                    return None, None, "double-offset"
                idx = args[1]
                t = args[0]
                continue
            if key in ("alloc::vec::Vec::as_mut_ptr", "alloc::vec::Vec::as_ptr", "slice::as_ptr", "slice::as_mut_ptr") and args:
                return strip_ref(args[0]), idx, "buf"
            if key in ("rawptr::as_mut", "rawptr::as_ref"):
                t = args[0]
                continue
        return t, idx, "unknown"


def inventory(an):
    """all unsafe operations of one body"""
    sites = []
    f = an.f
    # 1. unsafe calls
    for ev in an.events:
        if ev["k"] != "call":
            continue
        key = ev["key"]
        sp = ev["span"]
        if key is None:
            continue
        if ev["unsafe"]:
            if from_macro(sp):
                continue
            sites.append(Site(an, "call:" + key, ev["b"], sp, ev=ev))
    # 2. raw pointer dereferences
    for b in an.cfg.rpo:
        blk = an.blocks[b]
        def scan_place(p, sp, what):
            L = p["local"]
            if from_macro(sp):
                return
            if p["proj"] and p["proj"][0]["k"] == "deref" and is_raw_ptr_local(an, L):
                sites.append(Site(an, "deref", b, sp, place=p, what=what))
        for i, s in enumerate(blk["stmts"]):
            if s["k"] != "assign":
                continue
            scan_place(s["place"], s["span"], "store")
            rv = s["rv"]
            for op in _rv_operands(rv):
                if op["k"] in ("copy", "move"):
                    scan_place(op["place"], s["span"], "load")
            if rv["k"] in ("ref", "rawptr", "discriminant"):
                scan_place(rv["place"], s["span"], "ref")
            if rv["k"] == "cast" and ("Transmute" in rv["kind"] or "PointerWithExposedProvenance" in rv["kind"]):
                if not from_macro(s["span"]):
                    sites.append(Site(an, "cast:" + rv["kind"].split("(")[0], b, s["span"], stmt=(b, i)))
        t = blk["term"]
        for op in an._term_operands(t):
            if op["k"] in ("copy", "move"):
                scan_place(op["place"], blk["tspan"], "load")
    return sites


def _rv_operands(rv):
    k = rv["k"]
    if k in ("use", "cast", "repeat"):
        return [rv["op"]]
    if k == "binop":
        return [rv["a"], rv["b"]]
    if k == "unop":
        return [rv["a"]]
    if k == "aggregate":
        return rv["ops"]
    return []


def check_idx(an, facts, b, I, C, vers_now):
    if C is None:
        return False, "no-root"
    if C[0] == "at":
        R, ver = C[1], C[3]
        cur = vers_now.get(R, ("e",))
        v = cur
        while v != ver and (R, v) in an.setlen_prev:
            v = an.setlen_prev[(R, v)]      # set_len keeps the buffer where it is
        if v != ver:
            return False, "stale-pointer(%s)" % R
        if cur != ver:
            C = ("at", R, C[2], cur, C[4])
    bound = mk_len(C, an)
    crate = an.crate
    how = bounded(crate, an, facts, b, I, C, vers=vers_now)
    if how:
        return True, how
    return False, ("need", I, bound)


def discharge_site(s, facts):
    an = s.an
    k = s.kind
    if k == "call:rawptr::add":
        ev = s.ev
        P, I = ev["args"]
        C, idx0, kind = ptr_root(P)
        s.rootterm, s.idx = C, I
        if idx0 is not None:
            return False, "double-offset"
        if kind != "buf":
            Bs = root_bounds(an.crate, an, P)
            for B in Bs:
                how = bounded(an.crate, an, facts, s.b, I, None, bound_term=B, vers=ev["vers"])
                if how:
                    s.needs_live = True
                    return True, how + "+CAPTURE"
            if Bs:
                return False, ("need", I, Bs[0])
            return False, ("unknown-root", C)
        return check_idx(an, facts, s.b, I, C, ev["vers"])
    if k in ("call:slice::get_unchecked", "call:slice::get_unchecked_mut"):
        ev = s.ev
        recv = an.arg_for_call(ev["args"][0], ev["vers"], True, {"k": "ref"})
        C = strip_ref(recv)
        s.rootterm, s.idx = C, ev["args"][1]
        I = ev["args"][1]
        if I[0] == "agg" and I[1] == "adt" and I[2][0].startswith("core::ops::range::"):
            # sub-slice: a..b needs a <= b <= len, a.. needs a <= len, ..b needs b <= len
            L = mk_len(C, an)
            nm, ops = I[2][1], I[3]
            need = []
            if nm == "RangeFrom" and len(ops) == 1:
                need = [(ops[0], L)]
            elif nm == "RangeTo" and len(ops) == 1:
                need = [(ops[0], L)]
            elif nm == "Range" and len(ops) == 2:
                need = [(ops[0], ops[1]), (ops[1], L)]
            elif nm == "RangeFull":
                return True, "FULL"
            else:
                return False, ("unsupported-range", nm)
            for x, y in need:
                if not prove_le(an.crate, an, facts, s.b, x, y):
                    return False, ("need-le", x, y)
            return True, "RANGE"
        return check_idx(an, facts, s.b, ev["args"][1], C, ev["vers"])
    if k == "deref":
        L = s.place["local"]
        cur = an.ver_in[s.b]  # approximate: pointer temps are defined before use in straight-line code
        P = pointer_term_at(an, s)
        s.ptr = P
        C, idx0, kind = ptr_root(P)
        if P[0] == "call" and P[1] == "rawptr::add":
            return True, "VIA-ADD"
        if P[0] in ("pcast",) and P[1][0] == "call" and P[1][1] == "rawptr::add":
            return True, "VIA-ADD"
        if kind == "buf" and idx0 is None:
            return check_idx(an, facts, s.b, ("const", "usize", 0), C, an.ver_at_term[s.b])
        return False, ("deref-of", P)
    if k.endswith("unwrap_unchecked"):
        return discharge_unwrap(s, facts)
    if k == "call:alloc::vec::Vec::set_len":
        return discharge_set_len(s, facts)
    if k in ("call:core::ptr::write", "call:core::ptr::read", "call:rawptr::write", "call:rawptr::read"):
        P = s.ev["args"][0]
        C, idx0, kind = ptr_root(P)
        s.ptr = P
        Q = P[1] if P[0] == "pcast" else P
        if Q[0] == "call" and Q[1] == "rawptr::add":
            return True, "VIA-ADD"
        return False, ("pointer-of-unknown-shape", P)
    if k.startswith("cast:PointerWithExposedProvenance"):
        b, i = s.stmt
        t = an.stmt_terms.get((b, i))
        src = t[2] if t and t[0] == "cast" else None
        s.ptr = t
        if src is not None and root_bounds(an.crate, an, t):
            s.needs_live = True
            return True, "CAPTURE"
        return False, ("int-to-pointer", src)
    if k.startswith("cast:Transmute"):
        return False, "transmute"
    if k.startswith("call:graaf::") or (s.ev.get("fn") or {}).get("local"):
        s.callee = (s.ev["fn"].get("resolved") or s.ev["fn"]["path"])
        return None, "CALLEE"
    return False, "unhandled"


def pointer_term_at(an, s):
    """term of the raw pointer local dereferenced at site s"""
    L = s.place["local"]
    # the latest definition of v<L> that reaches the site: walk the block
    b = s.b
    cur = dict(an.ver_in[b])
    blk = an.blocks[b]
    # find the statement index of this site by span identity
    best = an.var_term(cur, "v%d" % L)
    for i, st in enumerate(blk["stmts"]):
        if st["k"] == "assign" and st["span"] is s.span:
            return an.var_term(cur, "v%d" % L)
        for v in an.defs_at.get((b, i), ()):
            cur[v] = ("d", b, i)
    return an.var_term(cur, "v%d" % L)


# ---------------------------------------------------------------------------
# general index-bound prover

CONTIG = "graaf::op::contiguous_order::ContiguousOrder"
ORD_KEY = "graaf::op::order::Order::order"


def type_is_contiguous(crate, an, D):
    """every digraph value that region D can hold has vertex set 0..contiguous_order()"""
    prog = crate.prog
    ri = an.region_info.get(D)
    if ri is None:
        return False, "unknown region type"
    ty = ri["ty"]
    impls = prog.implements.get(CONTIG, set())
    if ty["k"] == "adt":
        nm = ty["name"]
        if nm in impls or any(x.startswith(nm + "<") for x in impls):
            return True, "type %s implements ContiguousOrder" % nm
        return False, "type %s is not a ContiguousOrder implementor" % nm
    if ty["k"] == "param":
        P = ty["name"]
        cands = None
        for pr in an.f.get("predicates", []):
            if pr.get("kind") == "trait" and pr["self"].get("k") == "param" and pr["self"]["name"] == P:
                if pr["trait"] == CONTIG:
                    return True, "bound %s: ContiguousOrder" % P
                im = prog.implements.get(pr["trait"])
                if im is not None:
                    cands = set(im) if cands is None else (cands & im)
        for pr in an.f.get("predicates", []):
            if pr.get("kind") == "projection" and pr["self"].get("k") == "param" and pr["self"]["name"] == P \
                    and cands is not None:
                term = pr["term"]
                cands = {c for c in cands if ("<" not in c) is False and c.endswith("<%s>" % term)} \
                    if any("<" in c for c in cands) else cands
        if cands is None:
            return False, "no trait bound restricts %s" % P
        graaf = {c for c in cands}
        if graaf and all(c in impls for c in graaf):
            return True, "every candidate type of %s (%s) implements ContiguousOrder" % (P, ",".join(sorted(graaf)))
        return False, "candidate types of %s include a non-contiguous one: %s" % (P, ",".join(sorted(graaf - impls)))
    return False, "unsupported digraph type"


def cord_term(crate, an, D, vers):
    """contiguous_order(D) as a term at the given versions"""
    from .core import _subst, _NoInline
    prog = crate.prog
    ri = an.region_info.get(D)
    ty = ri["ty"] if ri else None
    if ty and ty["k"] == "adt":
        # concrete representation: use its accessor summary
        for trait, item in ((CONTIG, "contiguous_order"), ("graaf::op::order::Order", "order")):
            for im in prog.impls:
                if im["trait"] == trait and im["self"].get("path") == ty["path"]:
                    for it in im["items"]:
                        if it["name"] == item and it["path"] in prog.summaries:
                            try:
                                return _subst(an, prog.summaries[it["path"]][0], [("addr", D, None)], vers)
                            except _NoInline:
                                pass
    at = an.arg_for_call(("addr", D, None), vers, False)
    return ("call", ORD_KEY, (), (at,))


def bound_class(crate, an, C, vers, bound_term=None):
    """terms equal to len(C) by construction-site invariants"""
    inv = crate.inv
    out = []
    base = bound_term if bound_term is not None else mk_len(C, an)
    out.append(base)
    work = [base]
    seen = {base}
    while work:
        t = work.pop()
        new = []
        if t[0] == "len" and t[1][0] == "at":
            R = t[1][1]
            ri = an.region_info.get(R)
            if ri and ri["chain"] and len(ri["chain"]) in (1, 2) and ri["chain"][0][0] in crate.prog.adts:
                S = ri["chain"][0][0]
                fp = tuple(f for _, f in ri["chain"])
                from .inv import fill_hole
                for (tfp, g, kind, tmpl) in inv.len_templates(S):
                    if tfp != fp:
                        continue
                    baseR = R[: -len("." + ".".join(fp))]
                    if kind == "order":
                        G = baseR + "." + g + "*"
                        if G in an.regions or (baseR + "." + g) in an.regions:
                            an.regions.add(G)
                            at = an.arg_for_call(("addr", G, None), vers, False)
                            new.append(fill_hole(tmpl, ("call", ORD_KEY, (), (at,))))
                    else:
                        Gr = baseR + "." + g
                        new.append(fill_hole(tmpl, an.load_region(Gr, None, vers)))
        if t[0] == "len" and t[1][0] == "at" and t[1][2] is None and "." in t[1][1]:
            # field of a local struct that was returned by a crate constructor
            R, ver = t[1][1], t[1][3]
            root, fld = R.rsplit(".", 1)
            v = an.term_of.get((root, ver))
            if v is not None and v[0] == "call":
                fpath = crate.prog.key_to_path.get(v[1])
                if fpath is not None:
                    L = inv.ctor_len(fpath, fld)
                    if L is not None:
                        new.append(subst_args(L, v[3]))
        if t[0] == "call" and t[1] == ORD_KEY and t[3] and t[3][0][0] == "at":
            Gs = t[3][0][1]
            if Gs.endswith("*"):
                X = Gs[:-1]
                ri = an.region_info.get(X)
                if ri and ri["chain"] and len(ri["chain"]) == 1:
                    S, G = ri["chain"][0]
                    if S in crate.prog.adts:
                        for (f, g, kind) in inv.leneq(S):
                            if g == G:
                                baseR = X[: -len("." + G)]
                                Fr = baseR + "." + f
                                at = an.arg_for_call(("addr", Fr, None), vers, True)
                                new.append(("len", at))
        for n in new:
            if n not in seen:
                seen.add(n)
                out.append(n)
                work.append(n)
    return out


def bounded(crate, an, fx, b, I, C, bound_term=None, vers=None, depth=0):
    """prove I < len(C) (or I < bound_term) at entry of block b; returns the
    name of the strategy or None"""
    from .origin import Origins, payload_of
    from .inv import POP_KEYS
    if depth > 3:
        return None
    if vers is None:
        vers = an.ver_in.get(b, {})
    bounds = bound_class(crate, an, C, vers, bound_term)
    # CONST / GUARD
    for B in bounds:
        if I[0] == "const" and B[0] == "const" and isinstance(I[2], int) and isinstance(B[2], int) and I[2] < B[2]:
            return "CONST"
        if fx.holds(b, lambda rel, B=B: rel.lt(I, B)):
            return "GUARD"
    inv = crate.inv
    # WORKLIST / YIELD
    site, path = payload_of(I)
    if site is not None:
        ev = fx.an_call_at(site[1])
        if ev is not None and ev["key"] in POP_KEYS and ev["args"] and ev["args"][0][0] == "addr":
            R = ev["args"][0][1]
            ri = an.region_info.get(R)
            if ri and ri["chain"] and len(ri["chain"]) == 1:
                S, W = ri["chain"][0]
                baseR = R[: -len("." + W)]
                for B in bounds:
                    if B[0] == "len" and B[1][0] == "at" and B[1][1].startswith(baseR + "."):
                        F = B[1][1][len(baseR) + 1:]
                        if "." not in F and "#" not in F and "*" not in F and inv.worklist_bound(S, W, path, F):
                            return "WORKLIST"
        if ev is not None and ev["key"] == "core::iter::traits::iterator::Iterator::next":
            nf, baseR = self_iterator(crate, an, fx, ev)
            if nf is not None:
                for B in bounds:
                    if B[0] == "len" and B[1][0] == "at" and B[1][1].startswith(baseR + "."):
                        F = B[1][1][len(baseR) + 1:]
                        if "." not in F and "#" not in F and "*" not in F and inv.yield_bound(nf, path, F):
                            return "YIELD"
    # ROWMAJOR / BITS lemmas
    for B in bounds:
        N = sq_of(B)
        if N is not None:
            ab = rowmajor(I, N)
            if ab is not None and all(bounded(crate, an, fx, b, x, None, bound_term=N, vers=vers, depth=depth + 1)
                                      for x in ab):
                return "ROWMAJOR"
        if B[0] == "call" and B[1] == "usize::div_ceil" and len(B[3]) == 2 and B[3][1] == ("const", "usize", 64):
            N = sq_of(B[3][0])
            if N is not None and I[0] == "bin" and I[1] == "Shr" and I[3] == ("const", "i32", 6) or \
                    (N is not None and I[0] == "bin" and I[1] == "Shr" and I[3][0] == "const" and I[3][2] == 6):
                ab = rowmajor(I[2], N)
                if ab is not None and all(bounded(crate, an, fx, b, x, None, bound_term=N, vers=vers, depth=depth + 1)
                                          for x in ab):
                    return "BITS"
    # PHI: a value merged from several paths is bounded when every incoming value is
    base, fpath = I, []
    while base[0] == "field" and len(base) == 3:
        fpath.append(base[2])
        base = base[1]
    if base[0] == "phi" and len(base) == 3 and base[2].startswith("v"):
        from .core import mk_field
        pb = base[1]
        ok = True
        n = 0
        for p_, _ in an.cfg.pred[pb]:
            if p_ not in an.ver_out:
                continue
            x = an.var_term(an.ver_out[p_], base[2])
            if x == base:
                continue
            for f_ in reversed(fpath):
                x = mk_field(x, f_, int(f_) if str(f_).isdigit() else 0)
            n += 1
            if not bounded(crate, an, fx, p_, x, C, bound_term=bound_term, vers=an.ver_out[p_], depth=depth + 1):
                ok = False
                break
        if ok and n:
            return "PHI"
    # PARAM-INV: the index is the parameter of a closure that a std adaptor applies to every item of an
    # iterator built in the parent; origin and bound are established in the parent
    if an.f["kind"] == "Closure" and C is not None and param_inv(crate, an, I, C):
        return "PARAM-INV"
    # INV: contiguity contract
    org = Origins(crate, an, fx).origin(I)
    if org is not None:
        kind, D = org
        ok, why = type_is_contiguous(crate, an, D)
        if ok:
            ct = cord_term(crate, an, D, vers)
            for B in bounds:
                if B == ct or fx.holds(b, lambda rel, B=B: rel.le(ct, B)):
                    return "INV"
    return None


def param_inv(crate, an, I, C):
    from .closures import capture_map, MAP_LIKE
    from .origin import Origins
    if I == ("arg", 2):
        deref = False
    elif I == ("mem", "A2", ("e",), None):
        deref = True
    else:
        return False
    if not (C[0] == "at" and C[2] is None):
        return False
    cm = capture_map(crate, an)
    if cm is None:
        return False
    # the closure never changes the header (length) of the captured container
    Rc = C[1]
    if any(Rc in vs for vs in an.defs_at.values()):
        return False
    pr = [p for p, c in cm.regmap if c == Rc]
    if len(pr) != 1:
        return False
    pan = cm.pan
    pfx = crate.fx(pan.path)
    for ev in pan.events:
        if ev["k"] != "call" or ev["key"] not in MAP_LIKE or ev["key"].endswith("::filter"):
            continue
        if len(ev["args"]) < 2 or ev["args"][1] != cm.agg:
            continue
        d = ev["args"][0]
        if d[0] == "addr":
            d = pfx.iter_desc(ev)
        org = Origins(crate, pan, pfx).item_origin(d, (), deref)
        if org is None:
            return False
        kind, D = org
        ok, why = type_is_contiguous(crate, pan, D)
        if not ok:
            return False
        pvers = ev["vers"]
        ct = cord_term(crate, pan, D, pvers)
        pC = pan.arg_for_call(("addr", pr[0], None), pvers, True)
        for B in bound_class(crate, pan, pC, pvers):
            if B == ct or pfx.holds(ev["b"], lambda rel, B=B: rel.le(ct, B)):
                return True
        return False
    return False


def prove_le(crate, an, fx, b, x, y, depth=0):
    """x <= y at block b: from the facts, or by induction over a loop counter (x is a loop-header phi:
    x0 <= y on entry and, under the facts of each latch, next(x) <= y)"""
    if x == ("const", "usize", 0) or (x[0] == "const" and y[0] == "const" and x[2] <= y[2]):
        return True
    if fx.holds(b, lambda rel: rel.le(x, y)):
        return True
    if depth > 1 or not (x[0] == "phi" and len(x) == 3 and x[2].startswith("v")):
        return False
    hb, var = x[1], x[2]
    if not an.cfg.dominates(hb, b):
        return False
    preds = [p for p, _ in an.cfg.pred[hb]]
    if not any(an.cfg.dominates(hb, p) for p in preds):
        return False        # not a loop header
    for p in preds:
        if p not in an.ver_out:
            return False
        t = an.var_term(an.ver_out[p], var)
        if t == x:
            continue
        if an.cfg.dominates(hb, p):
            # latch: the facts of this iteration (which hold x's guard) must give next(x) <= y
            ok = fx.holds(p, lambda rel: rel.le(t, y))
            if not ok:
                # the update may sit in the latch block itself: use the facts at its end via successors' edge
                ok = prove_le(crate, an, fx, p, t, y, depth + 1)
            if not ok:
                return False
        else:
            if not prove_le(crate, an, fx, p, t, y, depth + 1):
                return False
    # y must not change inside the loop: it is a term over loop-invariant values (no phi of this loop)
    body = an.cfg.loops.get(hb, set())

    def variant_in_loop(t):
        if isinstance(t, tuple) and t:
            if t[0] == "phi" and t[1] in body:
                return True
            if t[0] in ("mem", "at") and len(t) > 3:
                ver = t[2] if t[0] == "mem" else t[3]
                if isinstance(ver, tuple) and ver and ver[0] in ("d", "phi") and ver[1] in body:
                    return True
            return any(variant_in_loop(z) for z in t if isinstance(z, tuple))
        return False
    return not variant_in_loop(y)


def self_iterator(crate, an, fx, ev):
    """if the receiver of this Iterator::next call is (a by_ref / &mut of) a crate
    struct that implements Iterator itself: (path of its next, base region)"""
    prog = crate.prog
    a0 = ev["args"][0]
    base = None
    if a0[0] == "arg":
        base = an.region_of_pointer(a0)
    elif a0[0] == "addr" and a0[2] is None:
        d = fx.iter_desc(ev)
        if d is not None and d != "CYCLE":
            if d[0] == "arg":
                base = an.region_of_pointer(d)
            elif d[0] == "call" and d[1] == "core::iter::traits::iterator::Iterator::by_ref" and d[3]:
                x = d[3][0]
                base = x[1] if x[0] == "at" else an.region_of_pointer(x)
            elif d[0] == "at":
                base = d[1]
    if base is None:
        return None, None
    ri = an.region_info.get(base)
    if not ri or ri["ty"].get("k") != "adt":
        return None, None
    S = ri["ty"]["path"]
    for im in prog.impls:
        if im["trait"] == "core::iter::traits::iterator::Iterator" and im["self"].get("path") == S:
            for it in im["items"]:
                if it["name"] == "next":
                    return it["path"], base
    return None, None


def subst_args(t, args):
    if not isinstance(t, tuple) or not t:
        return t
    if t[0] == "arg":
        return args[t[1] - 1] if t[1] - 1 < len(args) else t
    return tuple(subst_args(x, args) if isinstance(x, tuple) else x for x in t)


def sq_of(B):
    """N when B is the checked square of N: payload of usize::checked_mul(N, N)"""
    if B[0] == "field" and B[1][0] == "dc" and B[1][2] == "Some" and B[1][1][0] == "call" \
            and B[1][1][1] == "usize::checked_mul" and len(B[1][1][3]) == 2 and B[1][1][3][0] == B[1][1][3][1]:
        return B[1][1][3][0]
    return None


def rowmajor(I, N):
    """(a, b) when I == a * N + b (lemma L-ROWMAJOR), else None"""
    if I[0] != "bin" or I[1] != "Add":
        return None
    for m, o in ((I[2], I[3]), (I[3], I[2])):
        if m[0] == "bin" and m[1] == "Mul":
            if m[2] == N:
                return (m[3], o)
            if m[3] == N:
                return (m[2], o)
    return None


def root_bounds(crate, an, ptrterm, depth=0):
    """candidate lengths (terms of `an`) of the buffer a raw pointer term points
    into, following closure captures up to the function that created the pointer"""
    from .closures import capture_map
    if depth > 4:
        return []
    C, idx, kind = ptr_root(ptrterm)
    if idx is not None:
        return []
    if kind == "buf":
        return [mk_len(C, an)]
    out = []
    # PTRLEN: pointer field paired with a length field of the same struct
    if C is not None and C[0] == "mem" and C[3] is None:
        ri = an.region_info.get(C[1])
        if ri and ri["chain"] and len(ri["chain"]) == 1 and ri["chain"][0][0] in crate.prog.adts:
            S, pf = ri["chain"][0]
            for (pn, nn) in crate.inv.ptrlen(S):
                if pn == pf:
                    base = C[1][: -len("." + pf)]
                    out.append(an.load_region(base + "." + nn, None, {}))
    cm = capture_map(crate, an)
    if cm is None or C is None:
        return out
    for pv, cv in cm.valmap:
        if C == cv:
            for pb in root_bounds(crate, cm.pan, pv, depth + 1):
                for t in cm.tr_all(pb):
                    if t not in out:
                        out.append(t)
    return out


def discharge_unwrap(s, facts):
    from .panics import always_variant
    an = s.an
    crate = an.crate
    X = s.ev["args"][0]
    want = "Some" if "option" in s.kind else "Ok"
    if facts.holds(s.b, lambda rel: rel.variant(X) == want):
        return True, "GUARD"
    # BTreeMap::get after a dominating contains_key on the same map and key
    if X[0] == "call" and X[1].endswith("BTreeMap::get") and want == "Some":
        if facts.holds(s.b, lambda rel: rel.has(("contains", X[3][0], X[3][1]))):
            return True, "GUARD"
    if always_variant(crate, an, facts, X, want):
        return True, "ALWAYS-" + want.upper()
    if X[0] == "call" and X[1] == "core::convert::TryFrom::try_from" and X[2] in (("usize", "u64"),) \
            and crate.prog.config.get("pointer_width") == 64:
        return True, "WIDTH64"
    if X[0] == "site":
        ev = facts.an_call_at(X[1])
        if ev is not None and ev["key"] in ("std::thread::join_handle::JoinHandle::join",
                                            "std::thread::scoped::ScopedJoinHandle::join"):
            from .conc import workers_panic_free
            ok, why = workers_panic_free(crate, an.f["root"])
            if ok:
                return True, "PANICFREE"
            return False, ("worker-may-panic", why)
        if ev is not None and ev["key"] in ("std::sync::poison::mutex::Mutex::lock", "std::sync::poison::mutex::Mutex::into_inner"):
            from .conc import workers_panic_free
            ok, why = workers_panic_free(crate, an.f["root"])
            if ok:
                return True, "PANICFREE"
            return False, ("worker-may-panic", why)
    return False, ("need-variant", X, want)


def discharge_set_len(s, facts):
    an = s.an
    ev = s.ev
    R_t, n = ev["args"][0], ev["args"][1]
    if n == ("const", "usize", 0):
        return True, "SHRINK0"
    if not (R_t[0] == "addr" and R_t[2] is None):
        return False, "set_len on unknown vector"
    R = R_t[1]
    prev = an.term_of.get((R, ev["vers"].get(R, ("e",))))
    if not (prev and prev[0] == "call" and prev[1] == "alloc::vec::Vec::with_capacity" and prev[3][0] == n):
        return False, ("capacity-unknown", prev)
    # INIT: a loop over 0..n that writes every cell follows on every path to return
    for ev2 in an.events:
        if ev2["k"] != "call" or ev2["key"] != "core::iter::traits::iterator::Iterator::next":
            continue
        d = facts.iter_desc(ev2)
        if not (d and d != "CYCLE" and d[0] == "agg" and d[1] == "adt" and d[2][0].endswith("ops::range::Range")
                and d[3] == (("const", "usize", 0), n)):
            continue
        hb = ev2["b"]
        if not an.cfg.postdominates(hb, s.b):
            continue
        item = ("field", ("dc", ev2["res"], "Some"), "0")
        body = an.cfg.loops.get(an.cfg.loop_of(hb), set())
        for ev3 in an.events:
            if ev3["k"] == "call" and ev3["key"] == "core::ptr::write" and ev3["b"] in body:
                C, idx, kind = ptr_root(ev3["args"][0])
                if kind == "buf" and C[0] == "at" and C[1] == R and idx == item and complete_scan(an, facts, ev2):
                    return True, "INIT-LOOP"
    return False, "no initialising loop found"


def complete_scan(an, fx, next_ev):
    """the natural loop driven by this Iterator::next call is left only on the
    iterator's None edge (panic exits aside)"""
    hb = next_ev["b"]
    header = an.cfg.loop_of(hb)
    if header is None:
        return False
    body = an.cfg.loops[header]
    res = next_ev["res"]
    for x in body:
        for tg, lab in an.cfg.succ[x]:
            if tg in body:
                continue
            # exit edge
            if tg not in an.cfg.can_return:
                continue   # leads only to a panic
            ev = fx.ev_term.get(x)
            if ev is None or ev["k"] != "switch":
                return False
            D = ev["discr"]
            if not (D[0] == "discr" and D[1] == res):
                return False
            atoms = fx.edge_atoms(x, lab, tg)
            if ("variant", res, "None") not in atoms:
                return False
    return True


# ---------------------------------------------------------------------------
# site naming, trusted table, rule runner

def local_var_name(an, local, depth=0):
    """user-visible variable name behind a MIR local (following copies/reborrows)"""
    f = an.f
    nm = f["locals"][local].get("name")
    if nm:
        return nm
    if depth > 6:
        return None
    defs = []
    for b in an.cfg.rpo:
        blk = an.blocks[b]
        for s in blk["stmts"]:
            if s["k"] == "assign" and s["place"]["local"] == local and not s["place"]["proj"]:
                defs.append(("stmt", s))
        t = blk["term"]
        if t["k"] == "call" and t["dest"]["local"] == local and not t["dest"]["proj"]:
            defs.append(("call", t))
    if len(defs) != 1:
        return None
    kind, d = defs[0]
    if kind == "stmt":
        rv = d["rv"]
        p = None
        if rv["k"] == "use" and rv["op"]["k"] in ("copy", "move"):
            p = rv["op"]["place"]
        elif rv["k"] in ("ref", "rawptr"):
            p = rv["place"]
        elif rv["k"] == "cast" and rv["op"]["k"] in ("copy", "move"):
            p = rv["op"]["place"]
        if p is not None:
            return place_var_name(an, p, depth + 1)
        return None
    key, fn = an.call_info(d)
    if key in E.RET_ARG0 or key in E.RET_ARG0_BUF or key in E.DEREF_KEYS:
        a = d["args"][0]
        if a["k"] in ("copy", "move"):
            return place_var_name(an, a["place"], depth + 1)
    return None


def place_var_name(an, p, depth=0):
    f = an.f
    # closure upvars
    for uv in f.get("upvars", []):
        up = uv["place"]
        if up["local"] == p["local"] and len(p["proj"]) >= len(up["proj"]) and \
                all(a["k"] == b["k"] and a.get("idx") == b.get("idx") for a, b in zip(up["proj"], p["proj"])):
            rest = p["proj"][len(up["proj"]):]
            return uv["name"] + "".join("." + e["name"] for e in rest if e["k"] == "field")
    nm = local_var_name(an, p["local"], depth)
    if nm is None:
        return None
    return nm + "".join("." + e["name"] for e in p["proj"] if e["k"] == "field")


def site_root_name(s):
    an = s.an
    if s.kind == "deref":
        return place_var_name(an, {"local": s.place["local"], "proj": []}) or "?"
    if s.kind.startswith("call:"):
        t = an.blocks[s.b]["term"]
        if t["args"] and t["args"][0]["k"] in ("copy", "move"):
            return place_var_name(an, t["args"][0]["place"]) or "?"
        return "?"
    if s.kind.startswith("cast:"):
        b, i = s.stmt
        st = an.blocks[b]["stmts"][i]
        op = st["rv"]["op"]
        if op["k"] in ("copy", "move"):
            return place_var_name(an, op["place"]) or "?"
    return "?"


def site_key(crate, s):
    return "%s|%s|%s" % (crate.prog.pretty.get(s.fn, s.fn), s.kind, site_root_name(s))


def load_trusted(path):
    import json
    try:
        return json.load(open(path))
    except FileNotFoundError:
        return []


def run_mem(crate, trusted_path="/verif/tables/trusted_sites.json"):
    """-> list of result dicts, one per unsafe operation of the crate"""
    trusted = load_trusted(trusted_path)
    tindex = {}
    import re

    def norm_fn(nm):
        # a trusted site is identified by its enclosing function, the operation and the variable: closure
        # numbering and nesting change whenever the surrounding code is restructured
        return re.sub(r"(::\{closure#\d+\})+$", "", nm)
    for e in trusted:
        tindex[(norm_fn(e["fn"]), e["kind"], e["root"])] = e
    results = []
    per_fn = {}
    away = getattr(crate, "inlined_away", set())
    for p in crate.fn_paths():
        if p in away:
            # a private helper all calls of which were inlined: its unsafe sites are judged in every caller's context
            continue
        an = crate.an(p)
        sites = inventory(an)
        if not sites:
            continue
        fx = crate.fx(p)
        for s in sites:
            try:
                ok, how = discharge_site(s, fx)
            except Exception as ex:  # a crash of the prover is never a discharge
                ok, how = False, ("checker-error", repr(ex))
            s.status, s.how = ok, how
            per_fn.setdefault(p, []).append(s)
    # trusted table and CALLEE second pass (iterate: callee clean = all its sites ok)
    used_trusted = set()
    for p, sites in per_fn.items():
        for s in sites:
            if s.status is False:
                k = (norm_fn(crate.prog.pretty.get(p, p)), s.kind, site_root_name(s))
                if k in tindex:
                    e = tindex[k]
                    used_trusted.add(k)
                    if not trusted_guard_ok(crate, s, e):
                        s.how = ("trusted-site-lost-its-guard", e.get("requires_guard"))
                        continue
                    s.status, s.how = True, "TRUSTED"
                    s.trust = e
    changed = True
    while changed:
        changed = False
        for p, sites in per_fn.items():
            for s in sites:
                if s.status is None:
                    cs = per_fn.get(s.callee, [])
                    if any(x.status is False for x in cs):
                        s.status, s.how = False, ("callee-has-undischarged-site", s.callee)
                        changed = True
                    elif all(x.status is True for x in cs):
                        s.status, s.how = True, "CALLEE-CLEAN"
                        changed = True
    for p, sites in per_fn.items():
        for s in sites:
            if s.status is None:
                s.status, s.how = False, ("callee-cycle", s.callee)
            results.append(s)
    unused = [e for e in trusted if (norm_fn(e["fn"]), e["kind"], e["root"]) not in used_trusted]
    return results, unused


def trusted_guard_ok(crate, s, e):
    """a trusted site keeps its (structural) guard: some upper bound on the index /
    pointer is known at the site"""
    g = e.get("requires_guard")
    if not g:
        return True
    an = s.an
    fx = crate.fx(an.path)
    if g == "index":
        I = getattr(s, "idx", None)
        if I is None and s.kind.startswith("call:") and len(s.ev["args"]) > 1:
            I = s.ev["args"][1]
        if I is None:
            return False
        return fx.holds(s.b, lambda rel: any(rel.lt(I, y) for y in rel.universe((I,)) if y != I))
    if g == "pointer":
        P = getattr(s, "ptr", None)
        if P is None and s.kind.startswith("call:"):
            P = s.ev["args"][0]
        if P is None:
            return False
        return fx.holds(s.b, lambda rel: any(rel.lt(P, y) for y in rel.universe((P,)) if y != P))
    return True
