"""Origin of integer terms: where does a vertex id come from? (DESIGN §2.2
'Provenance', rule INV of §3.1).

origin(term) -> ("ENDPOINT", D) | ("HEAD", D) | None where D is the region
name of a digraph value.  ENDPOINT: item of one of graaf's vertex/arc
iterators over D.  HEAD: element of a row container of D's own storage."""
from .core import strip_ref
from .inv import proj_path

ITER = "core::iter::traits::iterator::Iterator::next"

# trait iterator -> item paths that are vertex ids
TRAIT_ITERS = {
    "graaf::op::out_neighbors::OutNeighbors::out_neighbors": {()},
    "graaf::op::in_neighbors::InNeighbors::in_neighbors": {()},
    "graaf::op::vertices::Vertices::vertices": {()},
    "graaf::op::arcs::Arcs::arcs": {(0,), (1,)},
    "graaf::op::arcs_weighted::ArcsWeighted::arcs_weighted": {(0,), (1,)},
    "graaf::op::out_neighbors_weighted::OutNeighborsWeighted::out_neighbors_weighted": {(0,)},
}

ROW_TYPES = {"AdjacencyList": "arcs", "AdjacencyListWeighted": "arcs"}


def payload_of(term):
    """if term is path-projection of the Some-payload of a call site: (site term, path)"""
    path = []
    t = term
    while True:
        if t[0] == "field" and t[1][0] == "dc" and t[1][2] == "Some" and t[1][1][0] == "site" and t[2] == "0":
            return t[1][1], tuple(reversed(path))
        if t[0] == "field" and isinstance(t[2], str) and t[2].isdigit():
            path.append(int(t[2]))
            t = t[1]
            continue
        return None, None


class Origins:
    def __init__(self, crate, an, fx):
        self.c = crate
        self.an = an
        self.fx = fx

    def iter_desc_of_site(self, site):
        ev = self.fx.an_call_at(site[1])
        if ev is None or ev["key"] != ITER:
            return None, None
        return self.fx.iter_desc(ev), ev

    def digraph_region(self, at):
        if at[0] == "at":
            return at[1]
        r = self.an.region_of_pointer(at)
        return r

    def origin(self, term, depth=0):
        if depth > 6:
            return None
        an = self.an
        # 1. deref of a pointer item: `for &v in set`
        if term[0] == "mem" and term[3] is not None:
            inner = term[3]
            # element of a local buffer filled by collect(trait iterator)
            o = self.buffer_elem_origin(term)
            if o is not None:
                return o
            site, path = payload_of(inner)
            if site is not None:
                d, ev = self.iter_desc_of_site(site)
                return self.elem_of_row(d, path, depth)
            return None
        site, path = payload_of(term)
        if site is None:
            return None
        d, ev = self.iter_desc_of_site(site)
        if d is None or d == "CYCLE":
            return None
        # 2. item of a trait iterator over digraph D
        if d[0] == "call" and d[1] in TRAIT_ITERS and d[3]:
            if path in TRAIT_ITERS[d[1]]:
                D = self.digraph_region(d[3][0])
                if D is not None:
                    return ("ENDPOINT", D)
            return None
        if d[0] == "site":
            ev2 = self.fx.an_call_at(d[1])
            if ev2 is not None and ev2["key"] in TRAIT_ITERS and ev2["args"]:
                if path in TRAIT_ITERS[ev2["key"]]:
                    D = self.digraph_region(ev2["args"][0])
                    if D is not None:
                        return ("ENDPOINT", D)
            return None
        # 3. by-value items of copied()/keys() over a row
        return self.elem_of_row(d, path, depth, by_value=True)

    def item_origin(self, d, path, deref):
        """origin of (component `path` of) an item of the iterator value d; deref: the item is a
        reference and the id is read through it"""
        if d is None or d == "CYCLE":
            return None
        if deref:
            return self.elem_of_row(d, path, 0)
        if d[0] == "call" and d[1] in TRAIT_ITERS and d[3]:
            if path in TRAIT_ITERS[d[1]]:
                D = self.digraph_region(d[3][0])
                if D is not None:
                    return ("ENDPOINT", D)
            return None
        return self.elem_of_row(d, path, 0, by_value=True)

    def rows_iter_owner(self, x):
        """x iterates over the rows of D.arcs -> D"""
        x = strip_ref(x)
        if x[0] == "call" and x[1] in ("slice::iter",) and x[3]:
            return self.arcs_field_owner(strip_ref(x[3][0]))
        if x[0] == "at":
            return self.arcs_field_owner(x)
        return None

    def is_row(self, t, depth):
        """term t denotes (a reference to) a row container of digraph D -> D"""
        an = self.an
        t = strip_ref(t)
        # get_unchecked / index on D.arcs
        if t[0] == "call" and t[1] in ("slice::get_unchecked", "core::ops::index::Index::index", "slice::get_unchecked_mut") and t[3]:
            c = strip_ref(t[3][0])
            return self.arcs_field_owner(c)
        # item of iteration over D.arcs (optionally enumerated: item.1)
        site, path = payload_of(t)
        if site is not None:
            d, ev = self.iter_desc_of_site(site)
            if d is None or d == "CYCLE":
                return None
            if d[0] == "call" and d[1] == "core::iter::traits::iterator::Iterator::enumerate" and path == (1,):
                d = d[3][0]
                path = ()
            if path != ():
                return None
            if d[0] == "call" and d[1] in ("slice::iter",) and d[3]:
                return self.arcs_field_owner(strip_ref(d[3][0]))
            if d[0] == "at":
                return self.arcs_field_owner(d)
        return None

    def arcs_field_owner(self, c):
        """c = at(D.arcs) for a digraph region D of a row-based representation"""
        if c[0] != "at":
            return None
        R = c[1]
        ri = self.an.region_info.get(R)
        if not ri or not ri["chain"] or len(ri["chain"]) != 1:
            return None
        adt, field = ri["chain"][0]
        name = adt.split("::")[-1]
        if ROW_TYPES.get(name) != field:
            return None
        return R[: -len("." + field)]

    def elem_of_row(self, d, path, depth, by_value=False):
        """item (path) of an iterator d over a row container"""
        if d is None or d == "CYCLE":
            return None
        # strip copied()/keys()/iter()
        t = d
        keyish = False
        if t[0] == "call" and t[1] == "core::iter::traits::iterator::Iterator::copied" and t[3] \
                and t[3][0][0] == "call" and t[3][0][1] == "core::iter::traits::iterator::Iterator::flatten":
            t = t[3][0]
        if t[0] == "call" and t[1] == "core::iter::traits::iterator::Iterator::flatten" and t[3] and path == ():
            # every row of D.arcs, flattened: the items are the heads (set rows only)
            D = self.rows_iter_owner(t[3][0])
            if D is not None:
                ri = self.an.region_info.get(D)
                if ri and ri["ty"].get("name") == "AdjacencyList":
                    return ("HEAD", D)
            return None
        while t[0] == "call" and t[1] in ("core::iter::traits::iterator::Iterator::copied",
                                          "alloc::collections::btree::set::BTreeSet::iter",
                                          "alloc::collections::btree::map::BTreeMap::keys",
                                          "alloc::collections::btree::map::BTreeMap::iter") and t[3]:
            if t[1].endswith("BTreeMap::iter"):
                keyish = True
            t = t[3][0]
        if keyish:
            if path != (0,):
                return None
        elif path != ():
            return None
        D = self.is_row(t, depth + 1)
        if D is not None:
            return ("HEAD", D)
        return None

    def _iterated_local(self, X, depth=0):
        """root region L when X is (a reference to) an element of the buffer of the local Vec L reached by iterating over
        it: an item of `&L` / L.iter(), an element `chunk[k]` of an item of L.chunks_exact(n) / L.chunks(n), an item of
        the `remainder()` of such a chunk iterator"""
        if depth > 4 or not isinstance(X, tuple) or not X:
            return None
        if X[0] == "elem" and len(X) == 3:
            return self._iterated_local(X[1], depth + 1)
        site, path = payload_of(X)
        if site is None or path != ():
            return None
        d, ev = self.iter_desc_of_site(site)
        return self._buffer_iter_root(d, 0)

    def _buffer_iter_root(self, d, depth):
        an = self.an
        if depth > 8 or d is None or d == "CYCLE" or not isinstance(d, tuple) or not d:
            return None
        if d[0] == "call" and d[3] and d[1] in ("slice::iter", "core::iter::traits::collect::IntoIterator::into_iter", "slice::chunks_exact",
                                                "slice::chunks", "core::ops::deref::Deref::deref", "alloc::vec::Vec::as_slice",
                                                "core::slice::iter::ChunksExact::remainder", "core::iter::traits::iterator::Iterator::by_ref"):
            return self._buffer_iter_root(d[3][0], depth + 1)
        if d[0] in ("at", "addr") and d[2] is None and d[1].startswith("L"):
            ri = an.region_info.get(d[1])
            if ri and ri["ty"].get("k") == "adt" and ri["ty"].get("name") == "Vec":
                return d[1]
            # a local holding an iterator value (let mut quads = v.chunks_exact(4))
            vals = [t for (var, ver), t in an.term_of.items() if var == d[1] and t[0] != "opq"]
            if len(vals) == 1:
                return self._buffer_iter_root(vals[0], depth + 1)
        return None

    def buffer_elem_origin(self, term):
        """load from the buffer of a local Vec that was filled by collect(<trait iterator>)"""
        an = self.an
        region = term[1]
        if "#buf" not in region:
            # read through an item of an iteration over the local buffer: (*item).k
            inner = term[3]
            path = ()
            while inner is not None and inner[0] == "faddr" and len(inner) == 3 and str(inner[2]).isdigit():
                path = (int(inner[2]),) + path
                inner = inner[1]
            root = self._iterated_local(inner) if inner is not None else None
            if root is None:
                return None
            return self._collected_buffer_origin(root, path)
        root = region.split("#buf")[0]
        rest = region.split("#buf", 1)[1]
        path = tuple(int(x) for x in rest.split(".") if x.isdigit())
        if rest and not all(x.isdigit() for x in rest.split(".") if x):
            return None
        if term[3] is not None and term[3][0] == "faddr":
            # element reached through a chunk item: the component path is in the address
            inner = term[3]
            p2 = ()
            while inner[0] == "faddr" and len(inner) == 3 and str(inner[2]).isdigit():
                p2 = (int(inner[2]),) + p2
                inner = inner[1]
            r2 = self._iterated_local(inner)
            if r2 is not None:
                return self._collected_buffer_origin(r2, p2)
        return self._collected_buffer_origin(root, path)

    def _collected_buffer_origin(self, root, path):
        an = self.an
        # value with which the local was initialised
        vals = [t for (var, ver), t in an.term_of.items() if var == root and t[0] != "opq"]
        if len(vals) != 1:
            return None
        v = vals[0]
        src = None
        if v[0] == "site":
            ev = self.fx.an_call_at(v[1])
            if ev is not None and ev["key"] == "core::iter::traits::iterator::Iterator::collect" and ev["args"]:
                src = ev["args"][0]
        elif v[0] == "call" and v[1] == "core::iter::traits::iterator::Iterator::collect" and v[3]:
            src = v[3][0]
        if src is None:
            return None
        # no other element writes into the buffer
        for ev in an.events:
            if ev["k"] == "store" and ev["region"].startswith(root + "#buf"):
                return None
            if ev["k"] == "call" and ev["args"] and ev["args"][0][0] == "addr" and ev["args"][0][1] == root \
                    and not ev["pure"]:
                return None
        if src[0] == "call" and src[1] in TRAIT_ITERS and src[3] and path in TRAIT_ITERS[src[1]]:
            D = self.digraph_region(src[3][0])
            if D is not None:
                return ("ENDPOINT", D)
        if src[0] == "site":
            ev2 = self.fx.an_call_at(src[1])
            if ev2 is not None and ev2["key"] in TRAIT_ITERS and path in TRAIT_ITERS[ev2["key"]]:
                D = self.digraph_region(ev2["args"][0])
                if D is not None:
                    return ("ENDPOINT", D)
        return None
