#!/bin/bash
# usage: export_facts.sh <out.json> [extra RUSTFLAGS]   (analyses /repo's working tree, or $GSA_REPO)
set -e
OUT="$1"; EXTRA="$2"
REPO="${GSA_REPO:-/repo}"
T=$(mktemp -d /tmp/gsa-target.XXXXXX)
trap 'rm -rf "$T"' EXIT
cd "$REPO"
LD_LIBRARY_PATH=$(rustc +nightly --print sysroot)/lib \
RUSTFLAGS="-Zmir-opt-level=0 -Zub-checks=no -Awarnings $EXTRA" \
RUSTC_WORKSPACE_WRAPPER=/verif/driver/target/release/gsa-driver \
GSA_OUT="$OUT" CARGO_NET_OFFLINE=true CARGO_TARGET_DIR="$T/target" \
cargo +nightly check --offline --lib >"$T/log" 2>&1 || { cat "$T/log" >&2; exit 3; }
test -s "$OUT" || { echo "gsa: fact file missing" >&2; cat "$T/log" >&2; exit 3; }
