"""COVERAGE engine: exhaustive evaluation of the index skeleton of a body for small parameter values.

The skeleton of a body is what remains when everything but its loop counters is forgotten: `for i in lo..hi`
iterators (also step_by), `while` counters (loop-header phis updated by constants), the branches that compare
such values with each other or with the parameters (order, len), and the *visit sites* (places where an
element i, or a pair (u, v), is looked at).  Every other branch is data dependent and is explored both ways.
For given parameter values the engine computes, for every way through the body, the set of visited indices
(a must-visited set per abstract state: intersection over the paths that reach it) and hands it to the
caller's requirement at every block where the body is left.

Because the skeleton is affine in its counters with constant steps, its behaviour is periodic in the
parameters; the callers check all parameter values up to a bound that covers every residue and two periods
(lemma L-PERIODIC in DESIGN.md)."""

ITER_NEXT = "core::iter::traits::iterator::Iterator::next"


def _walk_phis(t, out):
    if isinstance(t, tuple) and t:
        if t[0] == "phi" and len(t) == 3:
            out.add(t)
            return
        for x in t:
            if isinstance(x, tuple):
                _walk_phis(x, out)


class Cover:
    def __init__(self, an, fx, visits, param, region=None):
        """visits: {block: [term | (term, term)]}; param(term) -> int | None gives the value of a parameter term;
        region: set of blocks the body is restricted to (None: the whole function)"""
        self.an, self.fx = an, fx
        self.visits = visits
        self.param = param
        self.region = region
        conds = []
        for b, vs in visits.items():
            for v in vs:
                conds.extend(v if isinstance(v, tuple) and v and isinstance(v[0], tuple) else [v])
        for ev in an.events:
            if ev["k"] == "switch":
                conds.append(ev["discr"])
            if ev["k"] == "store" and ev["val"][0] == "agg" and ev["val"][1] == "adt" and ev["val"][2][0].endswith("ops::range::Range"):
                conds.extend(ev["val"][3])
            if ev["k"] == "return":
                conds.append(ev["val"])
        rel = set()
        for t in conds:
            _walk_phis(t, rel)
        changed = True
        while changed:
            changed = False
            for phi in list(rel):
                b, var = phi[1], phi[2]
                for p, _ in an.cfg.pred[b]:
                    if p in an.ver_out:
                        n = len(rel)
                        _walk_phis(an.var_term(an.ver_out[p], var), rel)
                        changed = changed or len(rel) != n
        self.relevant = rel
        # range iterators: region of the iterator local -> store event that creates it
        self.range_stores = {}
        for ev in an.events:
            if ev["k"] == "store" and ev["region"].startswith("L") and self._range_of(ev["val"]) is not None:
                self.range_stores.setdefault(ev["b"], []).append(ev)

    @staticmethod
    def _range_of(v):
        """(lo, hi, step) terms of a Range / step_by(Range) value"""
        if v[0] == "agg" and v[1] == "adt" and v[2][0].endswith("ops::range::Range") and len(v[3]) == 2:
            return v[3][0], v[3][1], ("const", "usize", 1)
        if v[0] == "call" and v[1].endswith("Iterator::step_by") and len(v[3]) == 2:
            inner = Cover._range_of(v[3][0])
            if inner is not None and inner[2] == ("const", "usize", 1):
                return inner[0], inner[1], v[3][1]
        return None

    # -- evaluation -------------------------------------------------------------------------------------
    def ev(self, t, env):
        if t[0] == "const" and isinstance(t[2], int):
            return t[2]
        if t in env:
            return env[t]
        p = self.param(t)
        if p is not None:
            return p
        if t[0] == "bin" and t[1] in ("Add", "Sub", "Mul"):
            a, b = self.ev(t[2], env), self.ev(t[3], env)
            if a is None or b is None:
                return None
            return a + b if t[1] == "Add" else a - b if t[1] == "Sub" else a * b
        if t[0] == "bin" and t[1] in ("Shr", "Div", "Rem", "BitAnd"):
            a, b = self.ev(t[2], env), self.ev(t[3], env)
            if a is None or b is None or (t[1] in ("Div", "Rem") and b == 0):
                return None
            return a >> b if t[1] == "Shr" else a // b if t[1] == "Div" else a % b if t[1] == "Rem" else a & b
        if t[0] in ("min", "max"):
            a, b = self.ev(t[1], env), self.ev(t[2], env)
            if a is None or b is None:
                return None
            return min(a, b) if t[0] == "min" else max(a, b)
        if t[0] == "field" and t[2] == "0" and t[1][0] == "dc" and t[1][2] == "Some" and t[1][1][0] == "site":
            return env.get(("item", t[1][1][1]))
        if t[0] == "mem" and t[3] is None:
            v = self.an.term_of.get((t[1], t[2]))
            if v is not None and v != t:
                return self.ev(v, env)
        return None

    def truth(self, d, env):
        if d[0] == "const" and d[1] == "bool":
            return bool(d[2])
        if d[0] == "bin" and d[1] in ("Lt", "Le", "Eq", "Ne"):
            a, b = self.ev(d[2], env), self.ev(d[3], env)
            if a is None or b is None:
                return None
            return {"Lt": a < b, "Le": a <= b, "Eq": a == b, "Ne": a != b}[d[1]]
        if d[0] == "un" and d[1] == "Not":
            r = self.truth(d[2], env)
            return None if r is None else not r
        if d in env:
            return bool(env[d])
        return None

    # -- exploration ------------------------------------------------------------------------------------
    def run(self, entry, requirement, budget=40000, runaway=200):
        """requirement(block, env, visited, cover) -> None | message, called at every return block (and at every
        block outside `region`).  Returns None when the requirement holds on every path."""
        an, cfg, fx = self.an, self.an.cfg, self.fx
        best = {}
        work = [(entry, {}, frozenset())]
        steps = 0
        while work:
            b, env, vis = work.pop()
            steps += 1
            if steps > budget:
                return "step budget exhausted"
            if any(isinstance(v, int) and v > runaway for v in env.values()):
                return "a counter runs away"
            env = dict(env)
            # iterator creation in this block
            for sev in self.range_stores.get(b, ()):
                lo, hi, st = self._range_of(sev["val"])
                a, h, s = self.ev(lo, env), self.ev(hi, env), self.ev(st, env)
                if a is None or h is None or s is None or s <= 0:
                    env.pop(("rng", sev["region"]), None)
                else:
                    env[("rng", sev["region"])] = (a, h, s)
            for I in self.visits.get(b, ()):
                if isinstance(I, tuple) and I and isinstance(I[0], tuple):
                    xs = tuple(self.ev(x, env) for x in I)
                    if any(x is None for x in xs):
                        return "a visited index cannot be evaluated"
                    vis = vis | {xs}
                else:
                    x = self.ev(I, env)
                    if x is None:
                        return "a visited index cannot be evaluated"
                    vis = vis | {x}
            outside = self.region is not None and b not in self.region
            if b in cfg.returns or outside:
                msg = requirement(b, env, vis, self)
                if msg:
                    return msg
                continue
            succ = [(tg, lab) for tg, lab in cfg.succ[b] if tg in cfg.can_return]
            evt = fx.ev_term.get(b)
            forced = None
            if evt is not None and evt["k"] == "call" and evt["key"] == ITER_NEXT and evt["args"] and evt["args"][0][0] == "addr":
                st = env.get(("rng", evt["args"][0][1]))
                if st is not None:
                    cur, hi, step = st
                    if cur < hi:
                        env[("item", b)] = cur
                        env[("some", b)] = 1
                        env[("rng", evt["args"][0][1])] = (cur + step, hi, step)
                    else:
                        env[("some", b)] = 0
                        env.pop(("item", b), None)
                else:
                    env.pop(("some", b), None)
                    env.pop(("item", b), None)
            if evt is not None and evt["k"] == "switch":
                D = evt["discr"]
                if D[0] == "discr" and D[1][0] == "site" and ("some", D[1][1]) in env:
                    want = "Some" if env[("some", D[1][1])] else "None"
                    keep = [(tg, lab) for tg, lab in succ if ("variant", D[1], want) in fx.edge_atoms(b, lab, tg)]
                    if keep:
                        succ = keep
                elif fx.is_bool_switch(b):
                    r = self.truth(D, env)
                    if r is not None:
                        keep = []
                        for tg, lab in succ:
                            t = (int(lab[1]) != 0) if lab[0] == "sw" else (0 in [int(v) for v in lab[1]])
                            if t == r:
                                keep.append((tg, lab))
                        succ = keep
            for tg, lab in succ:
                nenv = dict(env)
                for var in an.phis.get(tg, ()):
                    if not var.startswith("v"):
                        continue
                    phi = ("phi", tg, var)
                    if phi not in self.relevant:
                        continue
                    val = self.ev(an.var_term(an.ver_out[b], var), env) if b in an.ver_out else None
                    if val is None:
                        nenv.pop(phi, None)
                    else:
                        nenv[phi] = val
                key = (tg, frozenset(nenv.items()))
                old = best.get(key, "none")
                if old == "none":
                    best[key] = vis
                    work.append((tg, nenv, vis))
                else:
                    new = old & vis
                    if new != old:
                        best[key] = new
                        work.append((tg, nenv, new))
        return None
