"""Forward must-facts over SSA terms (DESIGN §2.2 'Facts').

Atoms: ("lt",a,b) ("le",a,b) ("eq",a,b) ("ne",a,b) ("variant",X,name)
("notvariant",X,name) ("true",t) ("false",t) ("contains",m,k) ("FALSE",).
State at a block entry: a list of worlds (frozensets of atoms), at most
MAX_WORLDS; back edges are ignored (every term is an SSA value, so a fact
established before a loop stays true inside it)."""
from . import effects as E

MAX_WORLDS = 8

VARIANTS = {
    "Option": {0: "None", 1: "Some"},
    "Result": {0: "Ok", 1: "Err"},
    "ControlFlow": {0: "Continue", 1: "Break"},
    "ControlFlow?": {0: "Some", 1: "None"},   # discr of Try::branch(x) mapped back to x: Option
    "Ordering": {255: "Less", -1: "Less", 0: "Equal", 1: "Greater",
                 18446744073709551615: "Less", 340282366920938463463374607431768211455: "Less"},
}


def atoms_of_bool(t, truth):
    k = t[0]
    if k == "bin":
        op, a, b = t[1], t[2], t[3]
        if not truth and op in ("Lt", "Le") and any(x[0] == "constx" and x[1] in ("f64", "f32") for x in (a, b)):
            return [("false", t)]       # floating point: !(a < b) does not give b <= a (NaN)
        if op == "Lt":
            return [("lt", a, b)] if truth else [("le", b, a)]
        if op == "Le":
            return [("le", a, b)] if truth else [("lt", b, a)]
        if op == "Eq":
            return [mk_eq(a, b)] if truth else [mk_ne(a, b)]
        if op == "Ne":
            return [mk_ne(a, b)] if truth else [mk_eq(a, b)]
        if op == "BitAnd" and truth:
            return atoms_of_bool(a, True) + atoms_of_bool(b, True)
        if op == "BitOr" and not truth:
            return atoms_of_bool(a, False) + atoms_of_bool(b, False)
    if k == "un" and t[1] == "Not":
        return atoms_of_bool(t[2], not truth)
    if k == "const" and t[1] == "bool":
        return [] if bool(t[2]) == truth else [("FALSE",)]
    if k == "call":
        key, args = t[1], t[3]
        if key.endswith("::contains_key") and len(args) == 2:
            return [("contains", args[0], deref_val(args[1]))] if truth else [("notcontains", args[0], deref_val(args[1]))]
        if key.endswith("::is_empty") and args:
            ln = ("len", strip(args[0]))
            return [mk_eq(ln, ("const", "usize", 0))] if truth else [("lt", ("const", "usize", 0), ln)]
        if key == "core::option::Option::is_some" and args:
            return [("variant", args[0], "Some" if truth else "None")]
        if key == "core::option::Option::is_none" and args:
            return [("variant", args[0], "None" if truth else "Some")]
    return [("true", t)] if truth else [("false", t)]


def strip(t):
    from .core import strip_ref
    return strip_ref(t)


def deref_val(t):
    """&x passed by reference to a lookup: value term of x when visible"""
    return t


def mk_eq(a, b):
    if repr(b) < repr(a):
        a, b = b, a
    return ("eq", a, b)


def mk_ne(a, b):
    if repr(b) < repr(a):
        a, b = b, a
    return ("ne", a, b)


def contradictory(w):
    if ("FALSE",) in w:
        return True
    var = {}
    # a value known to equal an enum aggregate (phi input) cannot be observed as another variant
    vs = {a[1]: a[2] for a in w if a[0] == "variant"}
    if vs:
        for a in w:
            if a[0] != "eq":
                continue
            for x, y in ((a[1], a[2]), (a[2], a[1])):
                v = vs.get(x)
                if v is None:
                    continue
                if y[0] == "agg" and y[1] == "adt" and y[2][1] != v and y[2][1] in ("Some", "None", "Ok", "Err"):
                    return True
                if y[0] == "call" and y[1] == "core::ops::try_trait::FromResidual::from_residual" and v in ("Some", "Ok"):
                    return True
    for a in w:
        k = a[0]
        if k == "true" and ("false", a[1]) in w:
            return True
        if k == "variant":
            if var.setdefault(a[1], a[2]) != a[2]:
                return True
            if ("notvariant", a[1], a[2]) in w:
                return True
        if k == "lt":
            if ("le", a[2], a[1]) in w or ("lt", a[2], a[1]) in w or mk_eq(a[1], a[2]) in w:
                return True
            if a[1] == a[2]:
                return True
            x, y = a[1], a[2]
            if x[0] == "const" and y[0] == "const" and isinstance(x[2], int) and isinstance(y[2], int) and not x[2] < y[2]:
                return True
        if k == "eq":
            if ("ne", a[1], a[2]) in w:
                return True
            for x, y in ((a[1], a[2]), (a[2], a[1])):
                if y[0] == "const" and y[1] == "bool" and (("true", x) in w if not y[2] else ("false", x) in w):
                    return True      # a join known to carry `false` is not observed `true` (and vice versa)
            x, y = a[1], a[2]
            if x[0] == "const" and y[0] == "const" and x[2] != y[2]:
                return True
        if k == "ne" and a[1] == a[2]:
            return True
        if k == "contains" and ("notcontains", a[1], a[2]) in w:
            return True
    return False


class Facts:
    def __init__(self, an):
        self.an = an
        self.cfg = an.cfg
        self.ev_term = {}
        for ev in an.events:
            if ev["k"] in ("switch", "assert", "call"):
                self.ev_term[ev["b"]] = ev
        self.entry_facts = []
        self.worlds_in = {}
        self.extra_edge_atoms = {}   # (p, target) -> [atoms], filled by rules before solve()
        self._desc_memo = {}
        self._used_phis = None

    def used_phis(self):
        """phi terms of value locals that occur in some event of the body"""
        if self._used_phis is None:
            out = set()

            def walk(t):
                if isinstance(t, tuple):
                    if len(t) == 3 and t[0] == "phi" and isinstance(t[2], str) and t[2].startswith("v"):
                        out.add(t)
                        return
                    for x in t:
                        if isinstance(x, tuple):
                            walk(x)
            for ev in self.an.events:
                for k in ("discr", "cond", "val", "res"):
                    if k in ev and ev[k] is not None:
                        walk(ev[k])
                for a in ev.get("args", ()) or ():
                    walk(a)
            for t in self.an.stmt_terms.values():
                walk(t)
            # phis that feed used phis (loop-carried values merged inside the body)
            changed = True
            while changed:
                changed = False
                for phi in list(out):
                    b, var = phi[1], phi[2]
                    for p, _ in self.cfg.pred[b]:
                        if p in self.an.ver_out:
                            n = len(out)
                            walk(self.an.var_term(self.an.ver_out[p], var))
                            changed = changed or len(out) != n
            self._used_phis = out
        return self._used_phis

    def phi_atoms(self, p, b):
        """what the edge p -> b says about the phis of b (b is not a loop header): the merged value is the
        one flowing in along this edge"""
        an = self.an
        out = []
        if any(self.cfg.dominates(b, q) for q, _ in self.cfg.pred[b]):
            return out
        used = self.used_phis()
        for var in an.phis.get(b, ()):
            phi = ("phi", b, var)
            if phi not in used or p not in an.ver_out:
                continue
            t = an.var_term(an.ver_out[p], var)
            if t == phi or t[0] in ("undef", "opq", "init", "unk"):
                continue
            if t[0] == "agg" and t[1] == "adt" and t[2][1] in ("None", "Some", "Ok", "Err"):
                out.append(("variant", phi, t[2][1]))
                from .core import mk_field
                for i, op in enumerate(t[3]):
                    out.append(mk_eq(mk_field(("dc", phi, t[2][1]), str(i), i), op))
            elif t[0] == "const" and t[1] == "bool":
                out.append(("true", phi) if t[2] else ("false", phi))
            else:
                out.append(mk_eq(phi, t))
        return out

    def solve(self):
        cfg = self.cfg
        for b in cfg.rpo:
            if b == 0:
                self.worlds_in[b] = [frozenset(self.entry_facts)]
                continue
            worlds = []
            for p, lab in cfg.pred[b]:
                if cfg.dominates(b, p):
                    continue  # back edge
                if p not in self.worlds_in:
                    continue
                gen = self.edge_atoms(p, lab, b) + self.phi_atoms(p, b)
                gen = self.close(gen)
                for w in self.worlds_in[p]:
                    nw = w | frozenset(gen) if gen else w
                    if not contradictory(nw):
                        worlds.append(nw)
            # dedupe
            uniq = []
            seen = set()
            for w in worlds:
                if w not in seen:
                    seen.add(w)
                    uniq.append(w)
            if len(uniq) > MAX_WORLDS:
                inter = uniq[0]
                for w in uniq[1:]:
                    inter = inter & w
                uniq = [inter]
            self.worlds_in[b] = uniq
        return self

    # ------------------------------------------------------------------
    def close(self, atoms):
        """add atoms derived from the structure of the terms involved"""
        out = list(atoms)
        i = 0
        while i < len(out):
            a = out[i]
            i += 1
            if a[0] == "variant":
                out.extend(self.variant_consequences(a[1], a[2]))
        return out

    def variant_consequences(self, X, name):
        out = []
        if X[0] == "call":
            key, args = X[1], X[3]
            if key in ("slice::get", "slice::get_mut") and len(args) == 2 and name in ("Some", "None"):
                from .core import mk_len
                L = mk_len(strip(args[0]), self.an)       # canonical spelling of the container's length
                if name == "Some":
                    out.append(("lt", args[1], L))
                else:
                    out.append(("le", L, args[1]))
            if key.endswith("BTreeMap::get") or key.endswith("BTreeMap::get_mut"):
                if name == "Some":
                    out.append(("contains", args[0], args[1]))
                else:
                    out.append(("notcontains", args[0], args[1]))
            if key == "usize::checked_mul" and name == "Some" and len(args) == 2:
                out.append(("nomulovf", args[0], args[1]))
            if key == "core::num::nonzero::NonZero::new" and len(args) == 1:
                # NonZero::new(x) is Some exactly when x != 0
                z = ("const", "usize", 0)
                if name == "Some":
                    out.append(("lt", z, args[0]))
                    out.append(mk_ne(args[0], z))
                elif name == "None":
                    out.append(mk_eq(args[0], z))
            if key == "core::option::Option::filter" and name == "Some" and len(args) == 2 and args[1][0] == "agg" and args[1][1] == "closure":
                out.extend(self._option_filter_facts(X, args))
        if X[0] == "site" and name == "Some":
            ev = self.an_call_at(X[1])
            if ev is not None and ev["key"] == "core::iter::traits::iterator::Iterator::next":
                d = self.iter_desc(ev)
                item = ("field", ("dc", X, "Some"), "0")
                out.extend(self.item_facts(d, item))
        return out

    def an_call_at(self, b):
        ev = self.ev_term.get(b)
        if ev is not None and ev["k"] == "call":
            return ev
        return None

    # iterator descriptors ------------------------------------------------
    def iter_desc(self, ev):
        """value term with which the iterator behind `next(&mut it)` was created"""
        a0 = ev["args"][0] if ev["args"] else None
        if a0 is None:
            return None
        if a0[0] == "addr" and a0[2] is None:
            return self.region_origin(a0[1], ev["vers"].get(a0[1], ("e",)), set())
        return None

    def region_origin(self, region, ver, seen):
        an = self.an
        key = (region, ver)
        if key in seen:
            return "CYCLE"
        seen.add(key)
        t = an.term_of.get(key)
        if t is not None and t[0] != "opq":
            return t
        if ver[0] == "d":
            b, i = ver[1], ver[2]
            ev = self.an_call_at(b)
            if ev is not None and ev["i"] == i and ev["key"] in (
                    "core::iter::traits::iterator::Iterator::next",
                    "core::iter::traits::iterator::Iterator::by_ref"):
                a0 = ev["args"][0]
                if a0[0] == "addr" and a0[1] == region:
                    return self.region_origin(region, ev["vers"].get(region, ("e",)), seen)
            return None
        if ver[0] == "phi":
            b = ver[1]
            res = None
            for p, _ in an.cfg.pred[b]:
                if p not in an.ver_out:
                    continue
                r = self.region_origin(region, an.ver_out[p].get(region, ("e",)), seen)
                if r == "CYCLE":
                    continue
                if r is None:
                    return None
                if res is None:
                    res = r
                elif res != r:
                    return None
            return res
        return None

    def item_facts(self, d, item):
        if d is None or d == "CYCLE":
            return []
        out = []
        if d[0] == "agg" and d[1] == "adt" and d[2][0].endswith("ops::range::Range"):
            lo, hi = d[3]
            out.append(("le", lo, item))
            out.append(("lt", item, hi))
            return out
        if d[0] == "call":
            key, args = d[1], d[3]
            if key in ("slice::windows", "slice::chunks_exact") and len(args) == 2:
                out.append(("eq", ("len", item), args[1]))      # every window / exact chunk has that length
            if key == "slice::chunks" and len(args) == 2:
                out.append(("le", ("len", item), args[1]))
                out.append(("lt", ("const", "usize", 0), ("len", item)))
            if key in ("core::iter::traits::iterator::Iterator::take_while", "core::iter::traits::iterator::Iterator::filter") \
                    and len(args) == 2 and args[1][0] == "agg" and args[1][1] == "closure":
                # items that come out satisfy the predicate; they are items of the inner iterator
                out.extend(self.pred_atoms(args[1], item))
                out.extend(self.item_facts(args[0], item))
            if key == "core::iter::traits::iterator::Iterator::map" and len(args) == 2 and args[1][0] == "agg" \
                    and args[1][1] == "closure":
                out.extend(self.mapped_item_facts(args, item))
            if key == "core::iter::traits::iterator::Iterator::step_by" and args:
                inner = args[0]
                if inner[0] == "agg" and inner[1] == "adt" and inner[2][0].endswith("ops::range::Range"):
                    lo, hi = inner[3]
                    out.append(("le", lo, item))
                    out.append(("lt", item, hi))
            if key == "core::iter::traits::iterator::Iterator::enumerate" and args:
                pos = ("field", item, "0")
                cnt = self.count_bound(args[0])
                if cnt is not None:
                    out.append(("lt", pos, cnt))
            if key == "core::iter::traits::iterator::Iterator::zip" and len(args) == 2:
                out.extend(self.item_facts(args[0], ("field", item, "0")))
                out.extend(self.item_facts(args[1], ("field", item, "1")))
        return out

    def _closure_to_parent(self, cagg, t, item, inner_item=None):
        """term of closure `cagg` expressed over the parent's terms; the closure parameter (arg 2) stands for
        `item` (by reference for predicates: *arg2)"""
        crate = getattr(self.an, "crate", None)
        if crate is None:
            return None
        from .closures import capture_map
        from .core import mk_field, mk_bin
        cl = crate.an(cagg[2])
        cm = capture_map(crate, cl)
        if cm is None:
            return None
        back = {cv: pv for pv, cv in cm.valmap}

        def rec(x):
            if not isinstance(x, tuple) or not x:
                return x
            if x in back:
                pv = back[x]
                if pv[0] == "addr" and pv[2] is None:
                    vals = [v for (var, ver), v in self.an.term_of.items() if var == pv[1] and v[0] != "opq"]
                    return vals[0] if len(vals) == 1 else None
                return pv
            if x == ("arg", 2):
                return item
            if x[0] == "mem" and x[2] == ("e",) and x[3] is None and x[1].startswith("A2"):
                rest = x[1][2:]
                t_ = item
                for seg in [s for s in rest.split(".") if s]:
                    if not seg.isdigit():
                        return None
                    t_ = mk_field(t_, seg, int(seg))
                return t_
            if x[0] in ("const", "constx"):
                return x
            if x[0] == "field" and len(x) == 3:
                i_ = rec(x[1])
                return None if i_ is None else mk_field(i_, x[2], int(x[2]) if str(x[2]).isdigit() else 0)
            if x[0] == "bin":
                a_, b_ = rec(x[2]), rec(x[3])
                return None if a_ is None or b_ is None else mk_bin(x[1], a_, b_)
            if x[0] in ("phi", "site", "opq", "mem", "at", "addr", "undef", "init"):
                return None
            ys = []
            for z in x:
                if isinstance(z, tuple):
                    r_ = rec(z)
                    if r_ is None:
                        return None
                    ys.append(r_)
                else:
                    ys.append(z)
            return tuple(ys)
        return rec(t)

    def _option_filter_facts(self, X, args):
        """`opt.filter(pred)` is Some(v): opt was Some(v), and every order fact that holds on all paths of `pred` that can
        return true holds for v (facts about memory the closure reads are not imported)"""
        crate = getattr(self.an, "crate", None)
        if crate is None:
            return []
        memo = self.__dict__.setdefault("_of_memo", {})
        if X in memo:
            return memo[X]
        memo[X] = []
        item = ("field", ("dc", X, "Some"), "0")
        out = [("variant", args[0], "Some"), mk_eq(item, ("field", ("dc", args[0], "Some"), "0"))]
        cagg = args[1]
        try:
            cl = crate.an(cagg[2])
            cfx = crate.fx(cagg[2])
            rets = [ev for ev in cl.events if ev["k"] == "return"]
            if len(rets) == 1:
                rb = rets[0]["b"]
                rv = rets[0]["val"]
                worlds = [set(w) for w in cfx.worlds_at(rb)]
                keep = []
                for w in worlds:
                    if rv[0] == "phi":
                        falsy = any(a[0] == "eq" and rv in a[1:] and ("const", "bool", 0) in a[1:] for a in w) or ("false", rv) in w
                        if falsy:
                            continue
                    keep.append(w)
                if keep:
                    common = set.intersection(*keep)
                    for a in common:
                        if a[0] not in ("lt", "le", "ne"):
                            continue
                        tr = tuple(self._closure_to_parent(cagg, x, item) if isinstance(x, tuple) else x for x in a[1:])
                        if all(x is not None for x in tr):
                            out.append((a[0],) + tr)
        except Exception:
            pass
        memo[X] = out
        return out

    def pred_atoms(self, cagg, item):
        crate = getattr(self.an, "crate", None)
        if crate is None:
            return []
        cl = crate.an(cagg[2])
        rets = [ev for ev in cl.events if ev["k"] == "return"]
        if len(rets) != 1:
            return []
        r = self._closure_to_parent(cagg, rets[0]["val"], item)
        if r is None:
            return []
        return [a for a in atoms_of_bool(r, True) if a[0] not in ("true", "false")]

    def mapped_item_facts(self, args, item):
        """items of inner.map(|x| (f(x), g(x), ..)): each tuple component that is a plain function of x"""
        crate = getattr(self.an, "crate", None)
        if crate is None:
            return []
        cagg = args[1]
        cl = crate.an(cagg[2])
        rets = [ev for ev in cl.events if ev["k"] == "return"]
        if len(rets) != 1:
            return []
        X = ("INNER",)
        r = self._closure_to_parent(cagg, rets[0]["val"], X)
        if r is None or r[0] != "agg" or r[1] != "tuple":
            return []
        out = []
        inner_facts = self.item_facts(args[0], X)
        from .core import mk_field
        for i, comp in enumerate(r[3]):
            me = mk_field(item, str(i), i)
            if comp == X:
                # component i is the inner item itself: it inherits the inner item's facts
                for a in inner_facts:
                    out.append(tuple(me if z == X else z for z in a))
            else:
                # component i == comp[X := component j that equals X], when such a j exists
                js = [j for j, c2 in enumerate(r[3]) if c2 == X]
                if js:
                    def sub(z, j=js[0]):
                        if z == X:
                            return mk_field(item, str(j), j)
                        if isinstance(z, tuple):
                            return tuple(sub(q) if isinstance(q, tuple) else q for q in z)
                        return z
                    out.append(mk_eq(me, sub(comp)))
        return out

    def count_bound(self, d):
        """an upper bound term on the number of items of iterator value d"""
        if d[0] == "call":
            key, args = d[1], d[3]
            if key in ("slice::iter", "slice::iter_mut") and args:
                return ("len", strip(args[0]))
            if key in ("core::iter::traits::iterator::Iterator::map",
                       "core::iter::traits::iterator::Iterator::copied",
                       "core::iter::traits::iterator::Iterator::enumerate") and args:
                return self.count_bound(args[0])
        if d[0] == "at":
            # `for x in &vec` : IntoIterator on a reference to a container
            return ("len", d)
        return None

    # edges ---------------------------------------------------------------
    def edge_atoms(self, p, lab, target):
        out = list(self.extra_edge_atoms.get((p, target), ()))
        ev = self.ev_term.get(p)
        if ev is None:
            return out
        if ev["k"] == "switch":
            D = ev["discr"]
            if D[0] in ("discr",):
                names = VARIANTS.get(D[2])
                X = D[1]
                if lab[0] == "sw":
                    v = int(lab[1])
                    nm = names.get(v, str(v)) if names else str(v)
                    out.append(("variant", X, nm))
                else:
                    listed = [int(v) for v in lab[1]]
                    if names:
                        rest = {n for k, n in names.items()} - {names.get(v) for v in listed}
                        if len(rest) == 1:
                            out.append(("variant", X, next(iter(rest))))
                        else:
                            for v in listed:
                                out.append(("notvariant", X, names.get(v, str(v))))
                    else:
                        for v in listed:
                            out.append(("notvariant", X, str(v)))
            elif self.is_bool_switch(p):
                if lab[0] == "sw":
                    truth = int(lab[1]) != 0
                    out.extend(atoms_of_bool(D, truth))
                else:
                    listed = [int(v) for v in lab[1]]
                    truth = 0 in listed
                    out.extend(atoms_of_bool(D, truth))
            else:
                ty = self.an.operand_ty(self.an.blocks[p]["term"]["discr"])
                tn = ty["s"] if ty is not None and ty.get("k") == "int" else "int"

                def cv(v):
                    v = int(v)
                    if tn.startswith("i") and tn != "int":
                        bits = {"i8": 8, "i16": 16, "i32": 32, "i64": 64, "isize": 64, "i128": 128}.get(tn, 64)
                        if v >= 1 << (bits - 1):
                            v -= 1 << bits          # switch values are the raw bits
                    return ("const", tn, v)
                if lab[0] == "sw":
                    out.append(mk_eq(D, cv(lab[1])))
                else:
                    for v in lab[1]:
                        out.append(mk_ne(D, cv(v)))
        elif ev["k"] == "assert":
            out.extend(atoms_of_bool(ev["cond"], ev["expected"]))
            if ev["kind"] == "bounds":
                d = ev.get("detail") or {}
                if "index" in d and "len" in d:
                    out.append(("lt", d["index"], d["len"]))
        elif ev["k"] == "call":
            key = ev["key"]
            args = ev["args"]
            if key in ("core::ops::index::Index::index", "core::ops::index::IndexMut::index_mut") and len(args) == 2:
                fn = ev["fn"]
                ta = fn.get("targs", [])
                if len(ta) >= 2 and ta[1]["s"] == "usize" and (ta[0]["k"] == "slice" or (ta[0]["k"] == "adt" and ta[0]["name"] == "Vec")):
                    cont = strip(self.an_arg_for_call(ev, 0))
                    out.append(("lt", args[1], ("len", cont)))
            if key in ("core::option::Option::unwrap", "core::option::Option::expect") and args:
                out.append(("variant", args[0], "Some"))
            if ev.get("unwraps") is not None:
                out.append(("variant", ev["unwraps"], "Some"))
            if key in ("core::result::Result::unwrap", "core::result::Result::expect") and args:
                out.append(("variant", args[0], "Ok"))
        return out

    def an_arg_for_call(self, ev, i):
        a = ev["args"][i]
        return self.an.arg_for_call(a, ev["vers"], True, {"k": "ref"})

    def is_bool_switch(self, p):
        t = self.an.blocks[p]["term"]
        ty = self.an.operand_ty(t["discr"])
        return ty is not None and ty["k"] == "bool"

    # queries -------------------------------------------------------------
    def worlds_at(self, b):
        return self.worlds_in.get(b, [frozenset()])

    def holds(self, b, pred):
        """pred(world_rel) holds in every world at entry of block b"""
        ws = self.worlds_at(b)
        if not ws:
            return True   # unreachable under the facts
        return all(pred(Rel(w, self.an)) for w in ws)


class Rel:
    """order/equality reasoning inside one world"""

    def __init__(self, world, an):
        self.w = world
        self.an = an
        self.edges = {}
        self.eqs = {}
        for a in world:
            k = a[0]
            if k == "lt":
                self._edge(a[1], a[2], True)
            elif k == "le":
                self._edge(a[1], a[2], False)
            elif k == "eq":
                self._edge(a[1], a[2], False)
                self._edge(a[2], a[1], False)

    def _edge(self, x, y, strict):
        self.edges.setdefault(x, []).append((y, strict))

    def structural(self, x):
        """edges implied by the shape of term x"""
        out = []
        if x[0] == "min":
            out.append((x[1], False))
            out.append((x[2], False))
        if x[0] == "bin" and x[1] == "Sub":
            strict = False
            c = x[3]
            if c[0] == "const" and isinstance(c[2], int) and c[2] > 0:
                # a - c < a when a >= 1 is known (unsigned, c > 0)
                for a in self.w:
                    if a[0] == "lt" and a[2] == x[2] and a[1][0] == "const" and isinstance(a[1][2], int) and a[1][2] >= 0:
                        strict = True
            out.append((x[2], strict))           # unsigned: a - b <= a
        if x[0] == "bin" and x[1] == "Add":
            # integers: y < z  =>  y + 1 <= z
            for y, c in ((x[2], x[3]), (x[3], x[2])):
                if c[0] == "const" and c[2] == 1:
                    for a in self.w:
                        if a[0] == "lt" and a[1] == y:
                            out.append((a[2], False))
        if x[0] == "bin" and x[1] in ("Div", "Shr"):
            out.append((x[2], False))
        if x[0] == "bin" and x[1] == "Rem":
            out.append((x[3], True))            # a % b < b (b != 0 or it panics)
        if x[0] == "bin" and x[1] == "BitAnd":
            for o in (x[2], x[3]):
                out.append((o, False))
        return out

    def reverse_structural(self, x, universe):
        out = []
        for t in universe:
            if t[0] == "max" and (t[1] == x or t[2] == x):
                out.append((t, False))
            if t[0] == "bin" and t[1] == "Add" and self.an.prog.config.get("overflow_checks"):
                # x <= x + c, strict when c is a positive constant (no wrap: overflow checks on)
                for o, other in ((t[2], t[3]), (t[3], t[2])):
                    if o == x:
                        strict = other[0] == "const" and isinstance(other[2], int) and other[2] > 0
                        out.append((t, strict))
        return out

    def universe(self, extra=()):
        u = set(self.edges)
        for ys in self.edges.values():
            for y, _ in ys:
                u.add(y)
        u.update(extra)
        # subterms that are comparable
        return u

    def lt(self, a, b, depth=0):
        if self._reach(a, b, True):
            return True
        if b[0] == "min":
            return self.lt(a, b[1]) and self.lt(a, b[2])        # greatest lower bound
        if depth == 0:
            # a < max(x, b) and x <= a  =>  a < b
            for M in self.universe((a, b)):
                if M[0] == "max" and b in (M[1], M[2]) and M[1] != M[2]:
                    other = M[2] if M[1] == b else M[1]
                    if self._reach(a, M, True) and self.le(other, a, 2):
                        return True
        return False

    def le(self, a, b, depth=0):
        if a == b or self._reach(a, b, False):
            return True
        if b[0] == "min":
            return self.le(a, b[1], depth) and self.le(a, b[2], depth)
        if depth < 2 and a[0] == "bin" and a[1] == "Add":
            # integers: x < b  =>  x + 1 <= b
            for x, c in ((a[2], a[3]), (a[3], a[2])):
                if c == ("const", "usize", 1) and self.lt(x, b):
                    return True
        return False

    def eq(self, a, b):
        return a == b or (self._reach(a, b, False) and self._reach(b, a, False))

    def _reach(self, a, b, need_strict, only_eq=False):
        uni = self.universe((a, b))
        start = (a, False)
        seen = {start}
        work = [start]
        while work:
            x, s = work.pop()
            if x == b and (s or not need_strict):
                return True
            nxt = list(self.edges.get(x, ()))
            if not only_eq:
                nxt += self.structural(x) + self.reverse_structural(x, uni)
                if x[0] == "const" and isinstance(x[2], int):
                    for t in uni:
                        if t[0] == "const" and isinstance(t[2], int) and t != x:
                            if x[2] < t[2]:
                                nxt.append((t, True))
                if x == ("const", "usize", 0) or (x[0] == "const" and x[2] == 0):
                    for t in uni:
                        if t[0] == "len":
                            nxt.append((t, False))
            for y, st in nxt:
                if only_eq and st:
                    continue
                ns = (y, s or st)
                if ns not in seen:
                    seen.add(ns)
                    work.append(ns)
            if not work and not only_eq:
                # a <= x and a <= y  =>  a <= min(x, y)
                reached = {}
                for (t, st) in seen:
                    reached[t] = reached.get(t, False) or st
                for t in uni:
                    if t[0] == "min" and t[1] in reached and t[2] in reached:
                        ns = (t, reached[t[1]] and reached[t[2]])
                        if ns not in seen and (t, True) not in seen:
                            seen.add(ns)
                            work.append(ns)
        return False

    def has(self, atom):
        return atom in self.w

    def variant(self, X):
        for a in self.w:
            if a[0] == "variant" and a[1] == X:
                return a[2]
        return None
