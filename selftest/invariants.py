#!/usr/bin/env python3
"""Internal consistency checks of the analysis itself on the current /repo tree (not a property check):
  1. no rule reports UNDECIDED on the unchanged tree (every anchor is interpreted);
  2. no local whose header the memory model treats as stable receives a length-changing call, in its function or in any
     closure that captures it;
  3. both build configurations give the same verdicts (run by ./check --tier thorough; here: facts export works)."""
import os, subprocess, sys, tempfile
sys.path.insert(0, os.path.dirname(os.path.dirname(os.path.abspath(__file__))))
from gsa.crate import Crate
from gsa.rules import PROPERTY_RULES, RULES
from gsa.closures import capture_map

GROW = ("push", "extend", "insert", "clear", "truncate", "set_len", "resize", "resize_with", "pop", "append", "reserve",
        "push_back", "push_front", "pop_front", "pop_back", "remove", "retain", "drain", "extend_from_slice", "swap_remove")


def main():
    tmp = tempfile.mkdtemp(prefix="gsa-inv.")
    facts = os.path.join(tmp, "facts.json")
    r = subprocess.run([os.path.join(os.path.dirname(__file__), "..", "export_facts.sh"), facts])
    if r.returncode != 0:
        print("export failed")
        return 2
    c = Crate(facts)
    bad = 0
    # 1
    und = 0
    for prop, meta in sorted(PROPERTY_RULES.items()):
        for rn in meta["rules"]:
            rep = RULES[rn](c, prop, "quick")
            for u in rep.get("undecided", []):
                und += 1
                print("UNDECIDED on the unchanged tree:", prop, u["key"])
    bad += und
    # 2
    n = 0
    for p in c.fn_paths():
        an = c.an(p)
        for L in an.stable_hdr:
            n += 1
            bodies = [(an, L)]
            for cp in c.prog.children.get(p, []):
                cl = c.an(cp)
                cm = capture_map(c, cl)
                if cm is not None:
                    bodies += [(cl, cr) for pr, cr in cm.regmap if pr == L]
            for a, R in bodies:
                for ev in a.events:
                    if ev["k"] == "call" and ev["key"] and ev["args"] and not ev["pure"]:
                        a0 = ev["args"][0]
                        r0 = a0[1] if a0[0] == "addr" else a.region_of_pointer(a0)
                        if r0 == R and ev["key"].split("::")[-1] in GROW:
                            bad += 1
                            print("stable header but", ev["key"], "in", c.prog.pretty[a.path])
    print("invariants: %d undecided, %d stable-header locals checked, %d problems" % (und, n, bad))
    return 1 if bad else 0


if __name__ == "__main__":
    sys.exit(main())
