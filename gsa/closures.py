"""Import of capture-site facts into closure bodies (DESIGN §2.2: 'Closure
upvars are replaced by the parent's term at the capture site, and the facts
that hold at the capture site ... are imported into the closure's entry
state')."""
from .core import mk_len, strip_ref, is_prefix

MAP_LIKE = {
    "core::iter::traits::iterator::Iterator::map": 1,
    "core::iter::traits::iterator::Iterator::filter": 1,
    "core::iter::traits::iterator::Iterator::filter_map": 1,
    "core::iter::traits::iterator::Iterator::flat_map": 1,
    "core::iter::traits::iterator::Iterator::all": 1,
    "core::iter::traits::iterator::Iterator::any": 1,
    "core::iter::traits::iterator::Iterator::position": 1,
    "core::iter::traits::iterator::Iterator::for_each": 1,
}

MAXV = 4


class CaptureMap:
    """translation of parent terms into the closure's term language"""

    def __init__(self, crate, can, pan, b, i, ops):
        self.crate = crate
        self.can = can      # closure analysis
        self.pan = pan      # parent analysis
        self.ops = ops      # parent terms of the captured values
        self.site = (b, i)
        f = can.f
        self.caps = f.get("captures", [])
        self.env_is_ref = can.locals[1]["ty"]["k"] == "ref"
        self.val = {}        # k -> closure-side value term of capture k
        self.regmap = []     # (parent region prefix, closure region prefix)
        self.valmap = []     # (parent value term, closure term)
        self.container = {}  # k -> closure-side region of a container captured by value
        self.pointee = {}    # k -> closure-side region behind a pointer / reference captured by value
        self.eqs = {}        # parent term -> terms the parent knows to be equal (capture site)
        pvers = _vers_at(pan, b, i)
        for k, c in enumerate(self.caps):
            if k >= len(ops):
                break
            mode = c["mode"]
            byref = mode.startswith("ByRef")
            cty = c["ty"]
            fty = {"k": "ref", "mut": "Immutable" not in mode, "to": cty, "s": "&" + cty["s"]} if byref else cty
            proj = []
            if self.env_is_ref:
                proj.append({"k": "deref"})
            proj.append({"k": "field", "idx": k, "name": str(k), "ty": fty})
            place = {"local": 1, "proj": proj}
            try:
                self.val[k] = can.place_term(place, {})
            except Exception:
                continue
            self.valmap.append((ops[k], self.val[k]))
            if fty["k"] in ("ref", "rawptr"):
                dproj = proj + [{"k": "deref"}]
                mode_, name, vp = can.walk_place({"local": 1, "proj": dproj})
                if mode_ != "mem":
                    continue
                can.regions.add(name)
                if not byref:
                    self.pointee[k] = name
                pr = pan.region_of_pointer(ops[k])
                if pr is not None:
                    self.regmap.append((pr, name))
                    # value stored in the captured parent local, when exactly known
                    if not pan.collapsed(pr):
                        pv = pan.term_of.get((pr, pvers.get(pr, ("e",))))
                        if pv is None and pvers.get(pr, ("e",)) == ("e",):
                            pv = pan.load_region(pr, None, pvers)
                        stable_mem = pv is not None and pv[0] == "mem" and pv[1] != pr and pv[2] == ("e",) \
                            and pv[3] is None and pan.shared_imm(pv[1])
                        if pv is not None and (pv[0] not in ("opq", "mem") or stable_mem):
                            cl = can.load_region(name, None, {})
                            self.valmap.append((pv, cl))
                            pr2 = pan.region_of_pointer(pv)
                            if pr2 is not None and fty["to"]["k"] in ("ref", "rawptr"):
                                self.regmap.append((pr2, name + "*"))
                                can.regions.add(name + "*")
            elif fty["k"] == "adt":
                mode_, name, vp = can.walk_place(place)
                if mode_ == "mem":
                    self.container[k] = name

    # translation: list of variants ------------------------------------------
    def tr_all(self, t, structural_only=False, use_eqs=True):
        busy = self.__dict__.setdefault("_busy", set())
        if t in busy or len(busy) > 200:
            return []           # an equation cycle (a == f(b), b == g(a)): no translation along this branch
        busy.add(t)
        try:
            return self._tr_all_guarded(t, structural_only, use_eqs)
        finally:
            busy.discard(t)

    def _tr_all_guarded(self, t, structural_only, use_eqs):
        out = self._tr_all(t, structural_only)
        if not out and use_eqs and isinstance(t, tuple):
            for y in self.eqs.get(t, ()):
                for v in self._tr_all(y, False):
                    if v not in out:
                        out.append(v)
        if not out and isinstance(t, tuple) and t and t[0] not in ("at", "addr"):
            # a value of the parent that the closure cannot name: it is a constant for the
            # lifetime of this closure instance
            out = [("pval", t)]
        return out

    def _tr_all(self, t, structural_only=False):
        out = []
        if not isinstance(t, tuple) or not t:
            return [t]
        if not structural_only:
            for pv, cv in self.valmap:
                if t == pv and cv not in out:
                    out.append(cv)
        k0 = t[0]
        if k0 == "ITEM":
            return [getattr(self, "_item", t)]
        if k0 in ("const", "constx", "fnref"):
            return out or [t]
        if k0 in ("arg", "phi", "site", "opq", "undef", "init", "unk"):
            return out
        if k0 in ("at", "mem", "addr"):
            R = t[1]
            for pr, cr in self.regmap:
                if is_prefix(pr, R):
                    nr = cr + R[len(pr):]
                    if k0 == "at" and t[2] is None:
                        self.can.regions.add(nr)
                        out.append(self.can.arg_for_call(("addr", nr, None), {}, True))
                    elif k0 == "mem" and t[3] is None:
                        out.append(self.can.load_region(nr, None, {}))
                    elif k0 == "addr" and t[2] is None:
                        out.append(("addr", nr, None))
            return out[:MAXV]
        if k0 == "len":
            for x in self.tr_all(t[1]):
                y = mk_len(x, self.can)
                if y not in out:
                    out.append(y)
            return out[:MAXV]
        # generic: cartesian product over children, capped
        combos = [[]]
        for x in t:
            if isinstance(x, tuple):
                vs = self.tr_all(x)
                if not vs:
                    return out[:MAXV]
                combos = [c + [v] for c in combos for v in vs][:MAXV]
            else:
                combos = [c + [x] for c in combos]
        for c in combos:
            y = tuple(c)
            if y not in out:
                out.append(y)
        return out[:MAXV]


def _vers_at(an, b, i):
    cur = dict(an.ver_in.get(b, {}))
    for j in range(i):
        for v in an.defs_at.get((b, j), ()):
            cur[v] = ("d", b, j)
    return cur


def find_capture_site(crate, cpath):
    f = crate.prog.fns[cpath]
    parent = f.get("parent")
    if parent is None or parent not in crate.prog.fns:
        return None
    pan = crate.an(parent)
    for (b, i), t in pan.stmt_terms.items():
        if t[0] == "agg" and t[1] == "closure" and t[2] == cpath:
            return pan, b, i, t
    return None


def capture_map(crate, can):
    _cm_cache = crate.__dict__.setdefault("_cm_cache", {})
    key = can.path
    if key not in _cm_cache:
        cm = None
        if can.f["kind"] == "Closure":
            site = find_capture_site(crate, can.path)
            if site is not None:
                pan, b, i, agg = site
                cm = CaptureMap(crate, can, pan, b, i, agg[3])
                cm.agg = agg
        _cm_cache[key] = cm
    return _cm_cache[key]


def tr_atom(cm, a, eqs=None):
    """all translations of one atom; an untranslatable component may be replaced
    by a term the parent knows to be equal to it"""
    combos = [[]]
    for x in a:
        if isinstance(x, tuple):
            vs = cm.tr_all(x)
            if not vs and eqs:
                for y in eqs.get(x, ()):
                    vs = vs + [v for v in cm.tr_all(y) if v not in vs]
            if not vs:
                return []
            combos = [c + [v] for c in combos for v in vs][:MAXV * 2]
        else:
            combos = [c + [x] for c in combos]
    return [tuple(c) for c in combos]


def closure_entry_facts(crate, can):
    f = can.f
    if f["kind"] != "Closure":
        return []
    cm = capture_map(crate, can)
    if cm is None:
        return []
    pan = cm.pan
    b, i = cm.site
    agg = cm.agg
    pfx = crate.fx(pan.path)
    out = []
    # 1. facts of the parent at the capture site (those that translate)
    worlds = pfx.worlds_at(b)
    if worlds:
        common = set(worlds[0])
        for w in worlds[1:]:
            common &= w
        eqs = {}
        for a in common:
            if a[0] == "eq":
                eqs.setdefault(a[1], []).append(a[2])
                eqs.setdefault(a[2], []).append(a[1])
        cm.eqs = eqs
        for a in common:
            out.extend(tr_atom(cm, a, eqs))
    # 2. definitional facts of captured scalars and lengths of captured containers
    for k, op in enumerate(agg[3]):
        if k not in cm.val:
            continue
        if op[0] == "min":
            for side in (op[1], op[2]):
                for s in cm.tr_all(side):
                    out.append(("le", cm.val[k], s))
            for sa in cm.tr_all(op[1])[:2]:
                for sb in cm.tr_all(op[2])[:2]:
                    a_, b_ = (sa, sb) if repr(sa) <= repr(sb) else (sb, sa)
                    out.append(("eq",) + tuple(sorted((cm.val[k], ("min", a_, b_)), key=repr)))
        elif op[0] in ("bin", "call", "len", "max", "field"):
            for s in cm.tr_all(op, structural_only=True):
                if s != cm.val[k]:
                    out.append(("eq",) + tuple(sorted((cm.val[k], s), key=repr)))
        if k in cm.pointee and cm.caps[k]["ty"].get("k") == "ref" and cm.caps[k]["ty"]["to"].get("k") in ("slice",):
            # a slice reference captured by value: its length is the length of what it was made from
            src = strip_ref(op)
            if src[0] == "addr":
                src = pan.arg_for_call(src, _vers_at(pan, b, i), True)
            L = mk_len(src, pan)
            at = can.arg_for_call(("addr", cm.pointee[k], None), {}, True)
            for s in cm.tr_all(L):
                if s != ("len", at):
                    out.append(("eq",) + tuple(sorted((("len", at), s), key=repr)))
        if k in cm.container:
            L = mk_len(strip_ref(op), pan)
            if L != ("len", strip_ref(op)):
                at = can.arg_for_call(("addr", cm.container[k], None), {}, True)
                for s in cm.tr_all(L):
                    out.append(("eq",) + tuple(sorted((("len", at), s), key=repr)))
    for pv, cv in cm.valmap:
        if cv[0] == "mem" and pv[0] in ("bin", "call", "len", "max", "min", "field", "mem"):
            for s_ in cm.tr_all(pv, structural_only=True):
                if s_ != cv:
                    out.append(("eq",) + tuple(sorted((cv, s_), key=repr)))
    # lengths of containers captured by reference
    pvers = _vers_at(pan, b, i)
    for pr, cr in cm.regmap:
        ri = pan.region_info.get(pr)
        if ri is None or ri["ty"].get("k") != "adt":
            continue
        if pan.collapsed(pr):
            continue
        L = mk_len(("at", pr, None, pvers.get(pr, ("e",)), ()), pan)
        if not (L[0] == "len" and L[1][0] == "at" and L[1][1] == pr):
            at = can.arg_for_call(("addr", cr, None), {}, True)
            for s in cm.tr_all(L):
                out.append(("eq",) + tuple(sorted((("len", at), s), key=repr)))
    # 2b. `cond.then(closure)` runs the closure only when cond is true
    for ev in pan.events:
        if ev["k"] == "call" and ev["key"] == "bool::then" and len(ev["args"]) == 2 and ev["args"][1] == agg:
            from .facts import atoms_of_bool
            for a in atoms_of_bool(ev["args"][0], True):
                out.extend(tr_atom(cm, a, cm.eqs))
    # 3. parameter facts from the consumer of the closure
    for ev in pan.events:
        if ev["k"] != "call" or ev["key"] not in MAP_LIKE:
            continue
        if len(ev["args"]) < 2 or ev["args"][1] != agg:
            continue
        desc = ev["args"][0]
        if desc[0] == "addr":
            desc = pfx.iter_desc(ev)        # adaptor called on `&mut iterator`
        item = ("arg", 2)
        if ev["key"].endswith("::filter"):
            continue                        # filter hands the closure a reference to the item
        for a in pfx.item_facts(desc, ("ITEM",)):
            for ta in tr_atom_item(cm, a, item):
                out.append(ta)
    return out


def tr_atom_item(cm, a, item):
    cm._item = item
    combos = [[]]
    for x in a:
        if x == ("ITEM",):
            combos = [c + [item] for c in combos]
        elif x == ("len", ("ITEM",)):
            # length of a slice-typed item: spelled like `param.len()` in the closure
            n = item[1] if item[0] == "arg" else 2
            combos = [c + [("len", ("at", "A%d" % n, None, ("e",), ()))] for c in combos]
        elif isinstance(x, tuple):
            vs = cm.tr_all(x)
            if not vs:
                return []
            combos = [c + [v] for c in combos for v in vs][:MAXV * 2]
        else:
            combos = [c + [x] for c in combos]
    return [tuple(c) for c in combos]
