//! Minimal JSON writer (the driver has no Cargo dependencies).

pub enum J {
    Null,
    Bool(bool),
    Num(i128),
    Str(String),
    Arr(Vec<J>),
    Obj(Vec<(&'static str, J)>),
}

impl J {
    pub fn s<S: Into<String>>(s: S) -> J {
        J::Str(s.into())
    }

    pub fn n(n: i128) -> J {
        J::Num(n)
    }

    pub fn obj(v: Vec<(&'static str, J)>) -> J {
        J::Obj(v)
    }

    pub fn write(&self, out: &mut String) {
        match self {
            J::Null => out.push_str("null"),
            J::Bool(b) => out.push_str(if *b { "true" } else { "false" }),
            J::Num(n) => out.push_str(&n.to_string()),
            J::Str(s) => write_str(s, out),
            J::Arr(v) => {
                out.push('[');
                for (i, x) in v.iter().enumerate() {
                    if i > 0 {
                        out.push(',');
                    }
                    x.write(out);
                }
                out.push(']');
            }
            J::Obj(v) => {
                out.push('{');
                for (i, (k, x)) in v.iter().enumerate() {
                    if i > 0 {
                        out.push(',');
                    }
                    write_str(k, out);
                    out.push(':');
                    x.write(out);
                }
                out.push('}');
            }
        }
    }
}

fn write_str(s: &str, out: &mut String) {
    out.push('"');
    for c in s.chars() {
        match c {
            '"' => out.push_str("\\\""),
            '\\' => out.push_str("\\\\"),
            '\n' => out.push_str("\\n"),
            '\r' => out.push_str("\\r"),
            '\t' => out.push_str("\\t"),
            c if (c as u32) < 0x20 => {
                out.push_str(&format!("\\u{:04x}", c as u32))
            }
            c => out.push(c),
        }
    }
    out.push('"');
}
