"""Loading of exported facts and callee naming."""
import json

def ty_head(t):
    k = t["k"]
    if k == "adt": return t["path"]
    if k in ("ref", "rawptr"): return ("&mut " if t.get("mut") and k == "ref" else "&" if k == "ref" else "*mut " if t["mut"] else "*const ") + ty_head(t["to"])
    if k == "slice": return "slice"
    if k == "array": return "array"
    if k == "param": return "param:" + t["name"]
    if k == "int": return t["s"]
    return k

def callee_key(fn):
    """Stable, impl-number-free name of a callee."""
    name = fn["name"]
    if "trait" in fn:
        return fn["trait"] + "::" + name
    if "impl_self" in fn:
        t = fn["impl_self"]
        k = t["k"]
        if k == "adt": return t["path"] + "::" + name
        if k == "rawptr": return "rawptr::" + name
        if k == "slice": return "slice::" + name
        if k == "int": return t["s"] + "::" + name
        if k == "ref": return "ref::" + name
        return k + "::" + name
    return fn["path"]

class Program:
    def __init__(self, path):
        self.d = json.load(open(path))
        self.fns = {f["path"]: f for f in self.d["fns"]}
        self.config = self.d["config"]
        self.adts = {a["path"]: a for a in self.d["adts"]}
        self.impls = self.d["impls"]
        self.implements = {m["trait"]: set(m["implementors"]) for m in self.d["implements"]}
        self.trait_by_name = {m["name"]: m["trait"] for m in self.d["implements"]}
        self.pretty = {f["path"]: f["pretty"] for f in self.d["fns"]}
        self.key_to_path = {}
        for f in self.d["fns"]:
            if f["kind"] == "Closure":
                continue
            if "impl_trait" in f or "trait_default_of" in f:
                continue
            if "impl_self" in f and f["impl_self"]["k"] == "adt":
                self.key_to_path[f["impl_self"]["path"] + "::" + f["name"]] = f["path"]
            elif "impl_self" not in f:
                self.key_to_path[f["path"]] = f["path"]
        self.children = {}
        for f in self.d["fns"]:
            if "parent" in f:
                self.children.setdefault(f["parent"], []).append(f["path"])

    def calls(self, f):
        for bi, b in enumerate(f["blocks"]):
            if b["cleanup"]: continue
            t = b["term"]
            if t["k"] == "call":
                yield bi, t
