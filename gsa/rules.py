"""Rule registry: property -> rules (DESIGN §3/§4)."""
from .report import Finding, span_s
from .dump import short


def term_s(t, n=160):
    s = short(t) if isinstance(t, tuple) else str(t)
    return s if len(s) <= n else s[:n] + "…"


# ---------------------------------------------------------------------------
def rule_mem(crate, prop, tier):
    from .mem import run_mem, site_key
    results, unused = run_mem(crate)
    viol = []
    samples = []
    by_how = {}
    fns = set()
    for s in results:
        fns.add(s.fn)
        how = s.how if isinstance(s.how, str) else s.how[0]
        by_how[how] = by_how.get(how, 0) + 1
        if not s.status:
            detail = [term_s(x) for x in s.how[1:]] if not isinstance(s.how, str) else []
            viol.append(Finding("MEM", "MEM|" + site_key(crate, s),
                                "unsafe operation without a discharged obligation: %s (%s)" % (how, "; ".join(detail)),
                                s.span, {"how": how, "detail": detail}))
    interesting = [s for s in results if s.status and s.how not in ("VIA-ADD", "CONST")]
    for s in interesting[:: max(1, len(interesting) // 12)][:12]:
        samples.append({"site": site_key(crate, s), "where": span_s(s.span), "discharged_by": s.how})
    for e in unused:
        # a trusted entry that matches nothing is stale, not a violation of the property
        pass
    trusted = [s for s in results if s.how == "TRUSTED"]
    return {
        "rule": "MEM", "instances": len(fns), "obligations": len(results),
        "discharged": sum(1 for s in results if s.status), "violations": viol, "samples": samples,
        "by_strategy": by_how, "trusted_sites": sorted({site_key(crate, s) for s in trusted}),
        "trusted_unused": [e["fn"] + "|" + e["kind"] + "|" + e["root"] for e in unused],
        "distinct_nontrivial": len({site_key(crate, s) for s in interesting}),
        "floors": {"bodies analysed": (len(crate.prog.d["fns"]), 600)},
        "note": "functions with unsafe operations=%d trusted=%d" % (len(fns), len(trusted)),
    }


def _schema(name):
    def f(crate, prop, tier):
        from . import schema
        return getattr(schema, name)(crate, prop, tier)
    return f


def rule_exhaust_for(names):
    def f(crate, prop, tier):
        from .schema import rule_exhaust
        return rule_exhaust(crate, prop, tier, only=names)
    return f


def _guard(name, *a):
    def f(crate, prop, tier):
        from . import guard
        r = getattr(guard, name)
        if a:
            r = r(*a)
        return r(crate, prop, tier)
    return f


RULES = {
    "MEM": rule_mem,
    "GUARD": _guard("rule_guard"),
    "NOPANIC-AFTER-WRITE": _guard("rule_nopanic_after_write"),
    "TOTAL-REMOVE": _guard("rule_total", ["remove_arc"], 5),
    "TOTAL": _guard("rule_total", None, 21),
    "ENCAPS": _guard("rule_encaps"),
    "EXHAUST-DJ": rule_exhaust_for(["::Dijkstra", "::DijkstraDist"]),
    "EXHAUST-BFS": rule_exhaust_for(["::Bfs", "::BfsDist"]),
    "EXHAUST-PRED": rule_exhaust_for(["::BfsPred", "::DijkstraPred"]),
    "EXHAUST-DFS": rule_exhaust_for(["::Dfs", "::DfsDist", "::DfsPred"]),
    "SCHEMA-BFS": _schema("rule_schema_bfs"),
    "SCHEMA-DFS": _schema("rule_schema_dfs"),
    "SCHEMA-DJ": _schema("rule_schema_dj"),
    "SCHEMA-PRED": _schema("rule_schema_pred"),
}

COMMON_ASSUMPTIONS = [
    "the digraph type parameter of an algorithm ranges over graaf's own representations (a foreign impl of the "
    "operation traits that lies about its vertex set is out of scope)",
    "order() of a shared-borrowed graaf digraph is stable for the duration of the borrow (all representations are "
    "Freeze; checked)",
    "target pointer width is 64 (read from the compiler session)",
    "rustc's MIR construction, type checker and trait solver are correct; the fact exporter reports them faithfully",
    "the semantics table of std functions (gsa/effects.py) is correct",
]

SCHEMA_TB = ["rustc MIR + trait solver", "gsa-driver fact exporter", "gsa/effects.py std semantics table",
             "the textbook invariant proofs of BFS/DFS/Dijkstra (DESIGN appendix B) connect the obligations to the property"]

PROPERTY_RULES = {
    "C01": {
        "rules": ["GUARD", "NOPANIC-AFTER-WRITE", "TOTAL-REMOVE", "ENCAPS"],
        "explanation": "For every function taking `&mut <representation>` (11 today) each arc-insertion site must be dominated "
                       "by tail != head, tail < order and head < order (GUARD; AdjacencyMap: tail != head and both endpoints "
                       "become keys on every path, ADMIT); the insertion is BTreeSet/BTreeMap::insert or `|=` (IDEMPOTENT, "
                       "toggle is the one `^=`), the stored weight is the weight argument, block index and bit mask address "
                       "the same cell u*order+v; no panic site is reachable after a modification (a rejected call leaves "
                       "the digraph unchanged); remove_arc cannot panic for any arguments (TOTAL); all fields of the five "
                       "structs are private and no reachable function returns a mutable handle into them (ENCAPS).",
        "trusted_base": ["rustc MIR + trait solver", "gsa-driver fact exporter", "gsa/effects.py std semantics table",
                         "BTreeSet/BTreeMap give de-duplication and ascending iteration (std)"],
        "not_decided": "that a sequence of accepted calls yields exactly the model's arc set; ascending order of arcs()/vertices() "
                       "(consequences of the ordered containers' semantics)",
        "assumptions": COMMON_ASSUMPTIONS,
    },
    "C03": {
        "rules": ["EXHAUST-DJ", "SCHEMA-DJ"],
        "explanation": "Dijkstra and DijkstraDist are checked against the lazy-deletion schema on every path of new/next/"
                       "distances: None only on the empty-heap edge (J1), min-heap on Reverse<key> (J2), every push is "
                       "dominated by a strict `new < dist[v]` test, stores that key into dist[v] and the key is popped "
                       "key + arc weight (J3), an entry is emitted only under `popped key == dist[vertex]` (J4), the "
                       "neighbour scan is complete (J5), sources get dist 0 and key Reverse(0) (J6), yielded values are "
                       "the popped ones and distances() folds them into a usize::MAX-filled vector (J7).",
        "trusted_base": SCHEMA_TB,
        "not_decided": "optimality and emission order as values (they follow from J2-J4 by the standard proof, which is not "
                       "mechanised); behaviour on path sums that overflow usize",
        "assumptions": COMMON_ASSUMPTIONS + ["the iterator is worklist-driven with lazy deletion (design choice encoded in the schema)"],
    },
    "C04": {
        "rules": ["EXHAUST-BFS", "SCHEMA-BFS"],
        "explanation": "Bfs and BfsDist are checked against the BFS schema: None only on the empty-queue edge (B1), a vertex "
                       "is enqueued only under a dominating `not visited` test and marked on the same path (B2), the scan "
                       "of out_neighbors(dequeued vertex) is complete (B3), FIFO pop_front/push_back (B4), every source is "
                       "enqueued and marked by new (B5), the dequeued element is the one yielded, level = parent level + 1, "
                       "distances() stores the yielded level at the yielded vertex in a usize::MAX-filled vector (B6).",
        "trusted_base": SCHEMA_TB,
        "not_decided": "equality of the yielded set with the reachable set as a value (follows from B1-B5 by induction on hop distance)",
        "assumptions": COMMON_ASSUMPTIONS + ["mark-on-enqueue BFS (design choice encoded in the schema)"],
    },
    "C05": {
        "rules": ["EXHAUST-PRED", "SCHEMA-BFS", "SCHEMA-DJ", "SCHEMA-PRED"],
        "explanation": "BfsPred and DijkstraPred inherit the BFS / Dijkstra schema; in addition the predecessor pushed with a "
                       "vertex is Some(the popped vertex whose out-neighbour scan produced it) (P1), predecessors()/"
                       "shortest_path()/cycles() store the yielded predecessor at the yielded vertex (P2), shortest_path "
                       "returns a path only under a successful predicate test on the yielded vertex, stops at the first "
                       "such vertex and returns None only on the exhaustion edge (P3); cycles() closes a chain of v only "
                       "with an out-neighbour of v.",
        "trusted_base": SCHEMA_TB,
        "not_decided": "minimality of the returned path among several targets and elementariness of cycles() as values",
        "assumptions": COMMON_ASSUMPTIONS,
    },
    "C06": {
        "rules": ["EXHAUST-DFS", "SCHEMA-DFS"],
        "explanation": "Dfs, DfsDist and DfsPred are checked against the explicit-stack DFS schema: a stale stack entry must "
                       "not end the iteration (D1, EXHAUST), a vertex is yielded only under a `not visited` test and after "
                       "being marked (D2), every out-neighbour of the popped vertex is scanned and pushed unless visited "
                       "(D3), Vec::pop/push LIFO (D4), pushed predecessor = popped vertex, pushed depth = popped depth + 1, "
                       "seeds are exactly the sources with None / 0 (D5).",
        "trusted_base": SCHEMA_TB,
        "not_decided": "the preorder as a value; D1 is violated on the current tree (known finding F2, pinned by four existing tests)",
        "assumptions": COMMON_ASSUMPTIONS + ["mark-on-pop stack DFS (design choice encoded in the schema)"],
    },
    "C13": {
        "rules": ["MEM"],
        "explanation": "Every unsafe operation of the library (raw pointer offset/dereference, get_unchecked, "
                       "unwrap_unchecked, set_len, ptr::read/write, int-to-pointer casts, calls of unsafe fns) is "
                       "inventoried from MIR and must carry a discharged bounds / initialisation / variant obligation: "
                       "by a dominating guard, a range, a struct length invariant checked at every construction site, a "
                       "worklist or yield invariant checked at every push/return site, the contiguity contract of the "
                       "digraph type, a row-major/bit-block lemma, imported capture-site facts for closures, or one "
                       "entry of the reviewed trust table (tables/trusted_sites.json). An undischarged site is a "
                       "violation naming function, operation and root variable.",
        "trusted_base": ["rustc MIR + trait solver", "gsa-driver fact exporter", "gsa/effects.py std semantics table",
                         "lemmas L-ROWMAJOR, L-BITS, L-PTRWALK (DESIGN appendix A)", "tables/trusted_sites.json",
                         "contiguity contract for generator literals (DESIGN §3.1 INV)"],
        "not_decided": "the trusted sites (merge-path arithmetic, walking pointer, nested-Vec row lengths), stack depth "
                       "of recursive algorithms, behaviour under foreign trait impls",
        "assumptions": COMMON_ASSUMPTIONS,
    },
}
