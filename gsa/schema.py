"""Traversal schemas (DESIGN §3.2, §3.3): EXHAUST, SCHEMA-BFS, SCHEMA-DFS,
SCHEMA-DJ, SCHEMA-PRED.  Each obligation is a dominance / dataflow predicate
over the MIR events of `new` and `next` of one traversal struct."""
from .core import strip_ref, mk_field
from .inv import POP_KEYS, PUSH_KEYS, apply_path, proj_path
from .origin import payload_of, TRAIT_ITERS
from .report import Finding, span_s
from .mem import complete_scan, local_var_name

ITER_NEXT = "core::iter::traits::iterator::Iterator::next"
NEIGHBOR_ITERS = ("graaf::op::out_neighbors::OutNeighbors::out_neighbors",
                  "graaf::op::out_neighbors_weighted::OutNeighborsWeighted::out_neighbors_weighted")


def elem_access(ptr):
    """(container term, index term) for a pointer/reference to one element"""
    t = ptr
    while t and t[0] == "pcast":
        t = t[1]
    if not t:
        return None, None
    if t[0] == "call":
        key, args = t[1], t[3]
        if key == "rawptr::add" and len(args) == 2:
            base = args[0]
            while base[0] == "pcast":
                base = base[1]
            if base[0] == "call" and base[1] in ("alloc::vec::Vec::as_mut_ptr", "alloc::vec::Vec::as_ptr",
                                                  "slice::as_ptr", "slice::as_mut_ptr") and base[3]:
                return strip_ref(base[3][0]), args[1]
            return None, None
        if key in ("core::ops::index::Index::index", "core::ops::index::IndexMut::index_mut",
                   "slice::get_unchecked", "slice::get_unchecked_mut") and len(args) == 2:
            return strip_ref(args[0]), args[1]
    if t[0] == "elem":
        base = t[1]
        if base[0] == "addr":
            return ("at", base[1], None, None, ()), t[2]
        sb = strip_ref(base)
        if sb[0] == "at":
            # slice[i] on `&mut *vec` / `vec.as_mut_slice()`: an element of the vector
            return sb, t[2]
    if t[0] == "field" and t[2] == "0" and t[1][0] == "dc" and t[1][2] == "Some":
        # the reference inside Some(..) returned by get(i) / get_mut(i)
        g = t[1][1]
        if g[0] == "call" and g[1] in ("slice::get", "slice::get_mut") and len(g[3]) == 2:
            return strip_ref(g[3][0]), g[3][1]
    return None, None


def store_elem(ev):
    """(container term, index term) of the element written by a store event"""
    a = ev["addr"]
    if a is None:
        return None, None
    if a[0] == "addr":
        if a[2] is None:
            return None, None
        return elem_access(a[2])
    return elem_access(a)


def region_of_container(c):
    return c[1] if c and c[0] == "at" else None


def load_parts(t):
    """(container region, index term) when t is a load of one element of a container"""
    if t and t[0] == "mem" and t[3] is not None:
        a = t[3]
        if a[0] == "addr" and len(a) == 3 and isinstance(a[2], tuple) and a[2] and a[2][0] == "elem":
            a = a[2]            # a load through `let d = &mut c[i]`: the reference carries the element address
        c, i = elem_access(a)
        return region_of_container(c), i
    return None, None


class Trav:
    """roles in one `next` body of a worklist traversal"""

    def __init__(self, crate, nextfn):
        self.crate = crate
        self.path = nextfn
        self.an = crate.an(nextfn)
        self.fx = crate.fx(nextfn)
        self.pretty = crate.prog.pretty[nextfn]
        self.base = "A1"          # region of the traversal struct in the analysed body
        self.in_closure = False   # the step is the closure of `worklist.pop().map(|popped| ..)`
        an = self.an
        self.pops = [ev for ev in an.events if ev["k"] == "call" and ev["key"] in POP_KEYS and ev["args"]
                     and ev["args"][0][0] == "addr" and ev["args"][0][1].startswith("A1.")]
        self.pushes = [ev for ev in an.events if ev["k"] == "call" and ev["key"] in PUSH_KEYS and ev["args"]
                       and ev["args"][0][0] == "addr" and ev["args"][0][1].startswith("A1.")]
        self.W = self.pops[0]["args"][0][1] if self.pops else None
        self.P = [("field", ("dc", ev["res"], "Some"), "0") for ev in self.pops]
        # one popped element: the payload of the only pop, or the phi that merges the payloads of all pops
        # of the same worklist (`let mut e = w.pop()?; while stale(e) { e = w.pop()?; }`)
        self.P1 = None
        same_w = all(ev["args"][0][1] == self.W and ev["key"] == self.pops[0]["key"] for ev in self.pops)
        if len(self.pops) == 1:
            self.P1 = self.P[0]
        elif self.pops and same_w:
            for b, vs in an.phis.items():
                for var in vs:
                    if var.startswith("v"):
                        ins = an.phi_inputs(b, var)
                        phi = ("phi", b, var)
                        if len(ins) >= 2 and all(x in self.P or x == phi for x in ins) and set(self.P) <= set(ins):
                            self.P1 = phi
            if self.P1 is not None:
                self.P = [self.P1] + self.P
        self.pop_key = self.pops[0]["key"] if self.pops else None
        self.Wfield = self.W.split(".", 1)[1] if self.W else None
        self._closure_step()
        an = self.an
        # neighbour loops: Iterator::next sites whose iterator is out_neighbors*(digraph, V)
        self.nloops = []
        for ev in an.events:
            if ev["k"] == "call" and ev["key"] == ITER_NEXT:
                d = self.fx.iter_desc(ev)
                src = None
                if d and d != "CYCLE":
                    if d[0] == "call" and d[1] in NEIGHBOR_ITERS:
                        src = (d[1], d[3])
                    elif d[0] == "site":
                        e2 = self.fx.an_call_at(d[1])
                        if e2 is not None and e2["key"] in NEIGHBOR_ITERS:
                            src = (e2["key"], tuple(e2["args"]))
                if src:
                    item = ("field", ("dc", ev["res"], "Some"), "0")
                    weighted = src[0].endswith("out_neighbors_weighted")
                    self.nloops.append({"ev": ev, "key": src[0], "of": src[1][1] if len(src[1]) > 1 else None,
                                        "item": item, "v": mk_field(item, "0", 0) if weighted else item,
                                        "w": mk_field(item, "1", 1) if weighted else None})
        # neighbour scans written as iterator pipelines: w.extend(out_neighbors(u).filter(..).map(..))
        self.pipes = []
        IT = "core::iter::traits::iterator::Iterator::"
        for ev in an.events:
            if ev["k"] == "call" and ev["key"] == "core::iter::traits::collect::Extend::extend" and len(ev["args"]) == 2:
                rr = recv_region(an, ev["args"][0])
                if rr != self.W:
                    continue
                t = ev["args"][1]
                stages = []
                while t[0] == "call" and t[1] in (IT + "map", IT + "filter") and len(t[3]) == 2 and t[3][1][0] == "agg" \
                        and t[3][1][1] == "closure":
                    stages.append((t[1][len(IT):], t[3][1][2]))
                    t = t[3][0]
                if t[0] == "call" and t[1] in NEIGHBOR_ITERS and len(t[3]) > 1:
                    self.pipes.append({"ev": ev, "key": t[1], "of": t[3][1], "stages": list(reversed(stages)), "span": ev["span"]})
        # any other mutation of the worklist (retain, clear, truncate, drain, ...)
        self.w_edits = []
        for ev in an.events:
            if ev["k"] == "call" and ev["key"] and ev["args"] and not ev["pure"] and not ev["diverges"]:
                if ev["key"] in POP_KEYS or ev["key"] in PUSH_KEYS or ev["key"] == "core::iter::traits::collect::Extend::extend":
                    continue
                if self.W is not None and recv_region(an, ev["args"][0]) == self.W:
                    self.w_edits.append(ev)
            if self.W is not None and ev["k"] == "store" and ev["region"] == self.W:
                # the whole worklist is replaced (`self.heap = rebuilt`)
                self.w_edits.append({"k": "store", "key": "assign::assignment", "span": ev["span"], "b": ev["b"]})
            if self.W is not None and ev["k"] == "call" and an.blocks[ev["b"]]["term"].get("dest") is not None:
                md, nm_, _ = an.walk_place(an.blocks[ev["b"]]["term"]["dest"])
                if md == "mem" and nm_ == self.W:
                    self.w_edits.append({"k": "store", "key": "assign::assignment (result of %s)" % ev["key"].split("::")[-1],
                                         "span": ev["span"], "b": ev["b"]})
        # returns
        self.rets = []   # (block, stmt idx, term)
        for (b, i), t in an.stmt_terms.items():
            st = an.blocks[b]["stmts"][i]
            if st["place"]["local"] == 0 and not st["place"]["proj"]:
                self.rets.append((b, i, t, st["span"]))
        for ev in an.events:
            if ev["k"] == "call" and an.blocks[ev["b"]]["term"]["dest"]["local"] == 0:
                self.rets.append((ev["b"], ev["i"], ev["res"], ev["span"]))
        self.stores = [ev for ev in an.events if ev["k"] == "store"]

    def _closure_step(self):
        """`self.w.pop().map(|popped| { ..step.. })`: analyse the closure as the step; the popped element is
        its parameter, what it returns is yielded, and None is returned exactly when the pop gave None"""
        if len(self.pops) != 1:
            return
        pan = self.an
        pop = self.pops[0]
        maps = [ev for ev in pan.events if ev["k"] == "call" and ev["key"] == "core::option::Option::map"
                and len(ev["args"]) == 2 and ev["args"][0] == pop["res"] and ev["args"][1][0] == "agg"
                and ev["args"][1][1] == "closure"]
        if len(maps) != 1:
            return
        mp = maps[0]
        rets = [ev for ev in pan.events if ev["k"] == "return"]
        if len(rets) != 1 or rets[0]["val"] != mp["res"]:
            return
        # nothing else happens to the struct in the parent
        if any(ev["k"] == "store" and ev["region"].startswith("A1") for ev in pan.events):
            return
        from .closures import capture_map
        cl = self.crate.an(mp["args"][1][2])
        cm = capture_map(self.crate, cl)
        if cm is None:
            return
        freg = {}
        for pr, cr in cm.regmap:
            if pr == "A1":
                # the whole struct is captured: fields are sub-regions
                self.base = cr
            elif pr.startswith("A1.") and "." not in pr[3:] and "#" not in pr and "*" not in pr:
                freg[pr[3:]] = cr           # disjoint field captures
        if self.base == "A1" and not freg:
            return
        self.parent_an = pan
        self.an = cl
        self.fx = self.crate.fx(cl.path)
        self._freg = freg
        self.in_closure = True
        self.P = [("arg", 2)]
        self.P1 = ("arg", 2)
        self.W = self.reg(self.Wfield)
        regs = set(freg.values())
        self.pushes = [ev for ev in cl.events if ev["k"] == "call" and ev["key"] in PUSH_KEYS and ev["args"]
                       and ((recv_region(cl, ev["args"][0]) or "") in regs
                            or (self.base != "A1" and (recv_region(cl, ev["args"][0]) or "").startswith(self.base + ".")))]

    def reg(self, field):
        """region of a field of the traversal struct in the analysed body"""
        if self.in_closure and field in getattr(self, "_freg", {}):
            return self._freg[field]
        return self.base + "." + field

    def popped_vertex_path(self):
        """field path of the popped element that is passed to out_neighbors*"""
        for nl in self.nloops + self.pipes:
            for P in self.P:
                pp = proj_path(nl["of"], P) if nl["of"] is not None else None
                if pp is not None:
                    return pp
        return None

    def is_none_ret(self, t):
        if self.in_closure:
            return False
        if t[0] == "agg" and t[1] == "adt" and t[2][1] == "None":
            return True
        if t[0] == "call" and t[1] == "core::ops::try_trait::FromResidual::from_residual":
            return True
        return False

    def some_ret(self, t):
        if self.in_closure:
            return t        # Option::map wraps whatever the closure returns
        if t[0] == "agg" and t[1] == "adt" and t[2][1] == "Some":
            return t[3][0]
        return None


def straight_line(an, a, b):
    """blocks a and b lie on one branch-free path (ignoring panic exits), a first"""
    if a == b:
        return True
    x = a
    seen = set()
    while x not in seen:
        seen.add(x)
        succ = [tg for tg, _ in an.cfg.succ[x] if tg in an.cfg.can_return or an.cfg.succ[tg]]
        succ = [tg for tg in succ if not _panic_only(an, tg)]
        if len(succ) != 1:
            return False
        x = succ[0]
        if x == b:
            return True
    return False


def _panic_only(an, b):
    return b not in an.cfg.can_return


def same_region(an, a, b):
    return straight_line(an, a, b) or straight_line(an, b, a)


# ---------------------------------------------------------------------------
def iterator_next_fns(crate, prefix="graaf::algo"):
    out = []
    for im in crate.prog.impls:
        if im["trait"] == "core::iter::traits::iterator::Iterator" and im["self"].get("path", "").startswith(prefix):
            for it in im["items"]:
                if it["name"] == "next":
                    out.append((im["self"]["path"], it["path"]))
    return out


def exit_signature(tr, b):
    """normalised description of the branch that leads to a premature None"""
    an, fx = tr.an, tr.fx
    pv = tr.popped_vertex_path()
    ws = fx.worlds_at(b)
    for w in ws:
        for a in w:
            if a[0] in ("true", "false") and a[1][0] == "mem":
                R, i = load_parts(a[1])
                if R and any(proj_path(i, P) is not None for P in tr.P) and a[0] == "true":
                    return "popped-vertex-already-marked"
            if a[0] == "ne" and ("const", "usize", 0) in a[1:] or a[0] == "ne" and ("const", "u64", 0) in a[1:]:
                # visited kept as a bit set: words[x >> k] & (1 << (x & m)) != 0 for the popped x
                w_ = [x for x in a[1:] if x[0] == "bin" and x[1] == "BitAnd"]
                for bt in w_:
                    for wd, mk in ((bt[2], bt[3]), (bt[3], bt[2])):
                        R, i = load_parts(wd) if wd[0] == "mem" else (None, None)
                        if R and i is not None and i[0] == "bin" and i[1] == "Shr" and any(proj_path(i[2], P) is not None for P in tr.P) \
                                and mk[0] == "bin" and mk[1] == "Shl":
                            return "popped-vertex-already-marked"
            if a[0] in ("ne", "lt") or (a[0] == "eq"):
                xs = a[1:]
                for x in xs:
                    if x[0] == "mem":
                        R, i = load_parts(x)
                        if R and any(proj_path(i, P) is not None for P in tr.P) and a[0] in ("ne", "lt"):
                            return "popped-key-not-current"
    return "other"


def rule_exhaust(crate, prop, tier, only=None):
    viol = []
    samples = []
    inst = 0
    obl = 0
    ok = 0
    for S, nf in iterator_next_fns(crate):
        if only and not any(o in S for o in only):
            continue
        tr = Trav(crate, nf)
        if not tr.pops:
            continue
        inst += 1
        for (b, i, t, sp) in tr.rets:
            if not tr.is_none_ret(t):
                continue
            obl += 1
            good = tr.fx.holds(b, lambda rel: any(rel.variant(ev["res"]) == "None" for ev in tr.pops))
            if good:
                ok += 1
                samples.append({"fn": tr.pretty, "where": span_s(sp), "obligation": "None returned only on the "
                                "empty-worklist edge", "status": "holds"})
            else:
                sig = exit_signature(tr, b)
                viol.append(Finding("EXHAUST", "EXHAUST|%s|exit:%s" % (tr.pretty, sig),
                                    "next() can return None while the worklist still holds elements (exit: %s); the "
                                    "consumer stops and every pending vertex is lost" % sig, sp))
    return {"rule": "EXHAUST", "instances": inst, "obligations": obl, "discharged": ok, "violations": viol,
            "samples": samples, "distinct_nontrivial": obl, "floors": {"worklist iterators": (inst, 1)}}


# ---------------------------------------------------------------------------
# shared predicates

def world_has_load(fx, b, truth, R, idx):
    """in every world at b: the element R[idx] was tested and found `truth`"""
    tag = "true" if truth else "false"

    def pred(rel):
        for a in rel.w:
            if a[0] == tag and a[1][0] == "mem":
                r, i = load_parts(a[1])
                if r == R and i == idx:
                    return True
        return False
    return fx.holds(b, pred)


def stores_to(tr, R, idx=None):
    out = []
    for ev in tr.stores:
        if not ev["region"].startswith(R + "#buf"):
            continue
        c, i = store_elem(ev)
        if region_of_container(c) == R and (idx is None or i == idx):
            out.append((ev, i))
    return out


def struct_fields(crate, S):
    return {f["name"]: f["ty"] for f in crate.prog.adts[S]["fields"]}


def field_of_kind(crate, S, pred):
    return [n for n, t in struct_fields(crate, S).items() if pred(t)]


def is_vec_of(t, elem):
    return t["k"] == "adt" and t["name"] == "Vec" and t["args"] and t["args"][0].get("s") == elem


def finding(rule, tr_or_name, tag, msg, span=None):
    name = tr_or_name if isinstance(tr_or_name, str) else tr_or_name.pretty
    return Finding(rule, "%s|%s|%s" % (rule, name, tag), msg, span)


class Obl:
    """collector of obligations of one rule run"""

    def __init__(self, rule):
        self.rule = rule
        self.n = 0
        self.ok = 0
        self.viol = []
        self.samples = []
        self.instances = 0
        self.und = []

    def undecide(self, who, tag, msg, span=None):
        """the code at this anchor is written in a way the rule cannot interpret: no verdict (neither holds nor
        violated); reported on stdout and in the evidence"""
        f = finding(self.rule, who, tag, msg, span)
        self.und.append(f)
        return False

    def check(self, cond, who, tag, msg, span=None):
        self.n += 1
        if cond:
            self.ok += 1
            if len(self.samples) < 12:
                self.samples.append({"fn": who if isinstance(who, str) else who.pretty, "obligation": tag, "status": "holds"})
        else:
            self.viol.append(finding(self.rule, who, tag, msg, span))
        return cond

    def report(self, floors=None, note=""):
        return {"rule": self.rule, "instances": self.instances, "obligations": self.n, "discharged": self.ok,
                "violations": self.viol, "samples": self.samples, "distinct_nontrivial": self.n,
                "floors": floors or {}, "note": note,
                "undecided": [{"key": f.key, "message": f.msg, "where": span_s(f.span) if f.span else None} for f in self.und]}


def ctor_of(crate, S):
    """the `new` function of struct S"""
    for p in crate.fn_paths():
        f = crate.prog.fns[p]
        if f.get("name") == "new" and f.get("impl_self", {}).get("path") == S and "impl_trait" not in f:
            return p
    return None


def method_of(crate, S, name):
    for p in crate.fn_paths():
        f = crate.prog.fns[p]
        if f.get("name") == name and f.get("impl_self", {}).get("path") == S and "impl_trait" not in f:
            return p
    return None


def sources_loop(crate, ctor):
    """(analysis, facts, next-event, item) of the loop over the `sources` argument in a constructor"""
    an = crate.an(ctor)
    fx = crate.fx(ctor)
    for ev in an.events:
        if ev["k"] == "call" and ev["key"] == ITER_NEXT:
            d = fx.iter_desc(ev)
            if d == ("arg", 2):
                return an, fx, ev, ("field", ("dc", ev["res"], "Some"), "0")
    return an, fx, None, None


def recv_region(an, t):
    """region of the container a `&mut container` receiver term refers to"""
    if t[0] == "addr":
        return t[1]
    return an.region_of_pointer(t)


class SeedCtx:
    """the part of a constructor that visits every source: a loop over `sources`, or the closure of
    `sources.for_each(..)`; regions of the constructor's locals are translated into that body"""

    def __init__(self, crate, ctor):
        self.ok = False
        can, cfx, lev, item = sources_loop(crate, ctor)
        self.pan = can
        if lev is not None:
            self.an, self.fx, self.item = can, cfx, item
            self.complete = complete_scan(can, cfx, lev)
            self.body = can.cfg.loops.get(can.cfg.loop_of(lev["b"]), set())
            self.inside = lambda ev: ev["b"] in self.body
            self.reg = lambda L: L
            self.span = lev["span"]
            self.ok = True
            return
        for ev in can.events:
            if ev["k"] == "call" and ev["key"] == "core::iter::traits::iterator::Iterator::for_each" and len(ev["args"]) == 2 \
                    and ev["args"][0] == ("arg", 2) and ev["args"][1][0] == "agg" and ev["args"][1][1] == "closure":
                from .closures import capture_map
                cl = crate.an(ev["args"][1][2])
                cm = capture_map(crate, cl)
                if cm is None:
                    continue
                self.an, self.fx, self.item = cl, crate.fx(cl.path), ("arg", 2)
                self.complete = True        # for_each calls the closure for every item
                self.inside = lambda e: True
                rm = {pr: cr for pr, cr in cm.regmap}
                self.reg = lambda L: rm.get(L)
                self.span = ev["span"]
                self.ok = True
                return


def literal_of(crate, an, S):
    """the struct literal of S built in this body: field name -> term"""
    for (b, i), t in an.stmt_terms.items():
        if t[0] == "agg" and t[1] == "adt" and t[2][0] == S:
            names = [f["name"] for f in crate.prog.adts[S]["fields"]]
            return dict(zip(names, t[3])), b
    return None, None


def literal_home(an, S):
    """region of the memory local the struct literal of S is stored into (`let mut x = Self { .. }` that is then
    completed through `&mut x`), or None"""
    for ev in an.events:
        if ev["k"] == "store" and ev["val"][0] == "agg" and ev["val"][1] == "adt" and ev["val"][2][0] == S \
                and ev["region"].startswith("L") and ev["region"][1:].isdigit():
            return ev["region"]
    return None


def local_region_of_value(t):
    """'L<n>' when the term is the (possibly opaque) value of a memory local"""
    if t[0] == "mem" and t[3] is None and t[1].startswith("L"):
        return t[1]
    return None


def const_is(t, v):
    return t[0] == "const" and t[2] == v


# ---------------------------------------------------------------------------
def worklist_owner(crate, o, S, nf, tr):
    """who may pop: the worklist of a traversal is popped only by its `next` (and private helpers inlined into it).  A method
    that drains the worklist itself (distances(), predecessors(), shortest_path() re-implementing the search) is outside the
    schema that `next` is checked against, and its results need not agree with the items `next` yields."""
    prog = crate.prog
    away = getattr(crate, "inlined_away", set()) or set()
    for p in crate.fn_paths():
        f = prog.fns[p]
        root = prog.fns.get(f.get("root"), f)
        if root.get("impl_self", {}).get("path") != S:
            continue
        if p == nf or f.get("root") == nf or p in away or root["path"] in away:
            continue
        an = crate.an(p)
        for ev in an.events:
            if ev["k"] == "call" and ev["key"] in POP_KEYS and ev["args"] and ev["args"][0][0] == "addr" \
                    and isinstance(ev["args"][0][1], str) and ev["args"][0][1].startswith("A1."):
                o.check(False, tr, "worklist-popped-outside-next", "%s pops the worklist itself instead of consuming the iterator: it "
                        "re-implements the search outside the schema next() is checked against" % prog.pretty[p], ev["span"])


BULK_EDIT_OPS = ("drain", "retain", "retain_mut", "truncate", "clear", "dedup", "sort", "sort_unstable", "sort_by", "sort_by_key",
                 "swap_remove", "remove", "split_off", "rotate_left", "rotate_right", "reverse", "swap")


def bulk_edits(tr):
    """calls in next() that edit a container field of the traversal struct in bulk (whatever role the field plays): used when
    the worklist cannot be identified through its pop"""
    out = []
    an = tr.an
    for ev in an.events:
        if ev["k"] != "call" or not ev["key"] or not ev["args"] or ev.get("pure"):
            continue
        if ev["key"].split("::")[-1] not in BULK_EDIT_OPS:
            continue
        rr = recv_region(an, ev["args"][0])
        if rr is not None and isinstance(rr, str) and rr.startswith("A1."):
            out.append(ev)
    return out


RESTRICTING = ("take", "skip", "step_by", "take_while", "skip_while", "nth", "last", "rev_take")


def restricted_scans(tr):
    """iterations over out_neighbors* of some vertex that go through a position-based restriction (take, skip, step_by,
    take_while, skip_while): [(event, adaptor)]"""
    out = []
    an, fx = tr.an, tr.fx
    IT = "core::iter::traits::iterator::Iterator::"
    for ev in an.events:
        if ev["k"] != "call" or not ev["key"] or not ev["key"].startswith(IT) or ev["key"][len(IT):] not in RESTRICTING:
            continue
        t = ev["args"][0] if ev["args"] else None
        depth = 0
        while t is not None and depth < 6:
            if t[0] == "site":
                e2 = fx.an_call_at(t[1])
                t = ("call", e2["key"], (), tuple(e2["args"])) if e2 is not None else None
                continue
            if t[0] == "call" and t[1] in NEIGHBOR_ITERS:
                out.append((ev, ev["key"][len(IT):]))
                break
            if t[0] == "call" and t[1].startswith(IT) and t[3]:
                t = t[3][0]
                depth += 1
                continue
            break
    return out


def _undecided_shape(o, tr, msg):
    for ev_, ad in restricted_scans(tr):
        o.check(False, tr, "scan-restricted:" + ad, "the out-neighbours of a vertex are scanned through %s(): neighbours outside that "
                "prefix / stride are never looked at, whatever they are" % ad, ev_["span"])
    eds = bulk_edits(tr)
    for ev_ in eds:
        o.check(False, tr, "worklist-edited:" + ev_["key"].split("::")[-1], "a container of pending work is edited in bulk by %s inside next(): "
                "pending entries other than the one being taken can be dropped or reordered" % ev_["key"].split("::")[-1], ev_["span"])
    o.undecide(tr, "shape", msg)


def rule_schema_bfs(crate, prop, tier):
    o = Obl("SCHEMA-BFS")
    for S, nf in iterator_next_fns(crate):
        nm = S.split("::")[-1]
        if nm not in ("Bfs", "BfsDist", "BfsPred"):
            continue
        if prop == "C04" and nm == "BfsPred":
            continue
        if prop == "C05" and nm != "BfsPred":
            continue
        o.instances += 1
        tr = Trav(crate, nf)
        an, fx = tr.an, tr.fx
        worklist_owner(crate, o, S, nf, tr)
        marks = field_of_kind(crate, S, lambda t: is_vec_of(t, "bool"))
        M = tr.reg(marks[0]) if marks else None
        pv = tr.popped_vertex_path()
        if tr.pops and tr.P1 is None:
            o.check(False, tr, "shape", "the queue is popped at several places whose results do not merge into one dequeued "
                    "element", tr.pops[0]["span"])
            continue
        if not (tr.P1 is not None and M and pv is not None and len(tr.nloops) == 1):
            _undecided_shape(o, tr, "next() is not written as one pop, one visited array and one loop over "
                             "out_neighbors(popped vertex); the BFS schema cannot be applied to it")
            continue
        o.check(True, tr, "shape", "")
        for ev_ in tr.w_edits:
            o.check(False, tr, "worklist-edited:" + ev_["key"].split("::")[-1], "the worklist is modified by %s: pending entries other than the "
                    "popped one can be dropped or reordered" % ev_["key"].split("::")[-1], ev_["span"])
        P = tr.P1
        nl = tr.nloops[0]
        # B4 FIFO
        popk = tr.pop_key
        for pu in tr.pushes:
            fifo = (popk.endswith("pop_front") and pu["key"].endswith("push_back")) or \
                   (popk.endswith("pop_back") and pu["key"].endswith("push_front"))
            o.check(fifo, tr, "B4-fifo", "queue is not first-in first-out: %s with %s" % (popk.split("::")[-1], pu["key"].split("::")[-1]), pu["span"])
        # B3 complete scan
        o.check(complete_scan(an, fx, nl["ev"]), tr, "B3-complete-scan",
                "the loop over out_neighbors(popped vertex) can be left before the iterator is exhausted", nl["ev"]["span"])
        o.check(nl["of"] == apply_path(P, pv), tr, "B3-neighbours-of-popped", "neighbours are not those of the popped vertex")
        # B2 mark-on-enqueue
        o.check(len(tr.pushes) >= 1, tr, "B2-push-exists", "no vertex is ever enqueued in next()")
        for pu in tr.pushes:
            E = pu["args"][1]
            v = nl["v"]
            # the pushed element carries the neighbour
            carries = E == v or any(x == v for x in (E[3] if E[0] == "agg" else ()))
            o.check(carries, tr, "B2-push-neighbour", "the enqueued element does not carry the scanned neighbour", pu["span"])
            o.check(world_has_load(fx, pu["b"], False, M, v), tr, "B2-unvisited-test",
                    "a vertex is enqueued without a dominating `not visited` test on it", pu["span"])
            def allowed(a, v=v):
                if a[0] == "false" and a[1][0] == "mem":
                    r, i = load_parts(a[1])
                    return r == M and i == v
                return is_range_guard(a, v)
            extra = extra_conditions(tr, nl, pu["b"], allowed)
            o.check(not extra, tr, "B2-push-guard", "an out-neighbour is enqueued only under a condition other than `not visited` "
                    "(%s)" % ", ".join(a[0] for a in extra[:3]), pu["span"])
            nbody = an.cfg.loops.get(an.cfg.loop_of(nl["ev"]["b"]), set())
            sts = [ev for ev, i in stores_to(tr, M, v) if const_is(ev["val"], 1) and
                   (same_region(an, ev["b"], pu["b"]) or (ev["b"] in nbody and feasibly_dominates(an, fx, ev["b"], pu["b"])))]
            o.check(bool(sts), tr, "B2-mark-with-push", "a vertex is enqueued without being marked visited on the same path "
                    "(it can be enqueued again)", pu["span"])
            if nm == "BfsDist":
                lvl = E[3][1] if E[0] == "agg" and len(E[3]) == 2 else None
                want = ("bin", "Add", ("const", "usize", 1), mk_field(P, "1", 1))
                o.check(lvl is not None and (lvl == want or lvl == ("bin", "Add", mk_field(P, "1", 1), ("const", "usize", 1))),
                        tr, "B-level", "pushed level is not popped level + 1", pu["span"])
            if nm == "BfsPred":
                pr = E[3][0] if E[0] == "agg" and len(E[3]) == 2 else None
                o.check(pr is not None and pr[0] == "agg" and pr[2][1] == "Some" and pr[3][0] == apply_path(P, pv),
                        tr, "P1-predecessor-is-popped", "recorded predecessor is not the vertex whose out-neighbours are scanned", pu["span"])
        # every store into the visited array sets `true`
        for ev, i in stores_to(tr, M):
            o.check(const_is(ev["val"], 1), tr, "B2-only-true-stores", "visited[] is written with a value other than true", ev["span"])
        # B6 yields the popped element
        somes = [(b, tr.some_ret(t), sp) for (b, i, t, sp) in tr.rets if tr.some_ret(t) is not None]
        o.check(len(somes) >= 1, tr, "B6-yield-exists", "next() never yields")
        for b, y, sp in somes:
            good = y == P or (y[0] == "agg" and all(x == mk_field(P, str(k), k) for k, x in enumerate(y[3])))
            o.check(good, tr, "B6-yield-popped", "the yielded item is not the dequeued one", sp)
            # the dequeued vertex is yielded only after all of its out-neighbours were scanned
            o.check(fx.holds(b, lambda rel: rel.variant(nl["ev"]["res"]) == "None"), tr, "B3-scan-before-yield",
                    "the dequeued vertex can be yielded without its out-neighbours having been scanned to exhaustion "
                    "(vertices reachable only through it are lost)", sp)
        # B5 seeds
        ctor = ctor_of(crate, S)
        if o.check(ctor is not None, tr, "B5-ctor", "constructor `new` not found"):
            sc = SeedCtx(crate, ctor)
            can = sc.pan
            lit, lb = literal_of(crate, can, S)
            if o.check(sc.ok and lit is not None, tr, "B5-seed-loop", "`new` has no loop over the sources that feeds the literal"):
                item = sc.item
                Wn = tr.Wfield
                Mn = marks[0]
                qL = sc.reg(local_region_of_value(lit[Wn]))
                home = literal_home(can, S) if sc.an is can else None
                if qL is None and home is not None:
                    qL = home + "." + Wn        # the literal is built first and seeded through `&mut` afterwards
                pushes = [ev for ev in sc.an.events if ev["k"] == "call" and ev["key"] in PUSH_KEYS and ev["args"]
                          and recv_region(sc.an, ev["args"][0]) == qL and qL is not None]
                seeded = False
                for pu in pushes:
                    E = pu["args"][1]
                    if E == item or (E[0] == "agg" and item in E[3]):
                        seeded = True
                        if nm == "BfsDist":
                            o.check(E[0] == "agg" and const_is(E[3][1], 0), tr, "B5-seed-level-0", "sources are not seeded with level 0", pu["span"])
                        if nm == "BfsPred":
                            o.check(E[0] == "agg" and E[3][0][0] == "agg" and E[3][0][2][1] == "None", tr, "B5-seed-no-predecessor",
                                    "sources are not seeded without predecessor", pu["span"])
                o.check(seeded, tr, "B5-seed-push", "sources are not enqueued by `new`")
                # marks
                mv = lit[Mn]
                mL = local_region_of_value(mv)
                if mL is None:
                    # the local keeps the value it was created with (its header is never changed): find it by value
                    cands = {var for (var, ver), v in can.term_of.items() if v == mv and var.startswith("L") and var[1:].isdigit()}
                    if len(cands) == 1:
                        mL = next(iter(cands))
                marked = False
                for ev in sc.an.events:
                    if ev["k"] != "store":
                        continue
                    c, i = store_elem(ev)
                    if i == item and const_is(ev["val"], 1) and c and c[0] == "at":
                        if sc.an is can and can.term_of.get((c[1], c[3])) == mv:
                            marked = True
                        if mL is not None and c[1] == sc.reg(mL):
                            marked = True
                        if home is not None and c[1] == home + "." + Mn and ev["b"] in sc.body:
                            marked = True
                o.check(marked, tr, "B5-seed-mark", "sources are not marked visited by `new` (a source can be yielded twice)")
                o.check(sc.complete, tr, "B5-all-sources", "the loop over the sources can end early")
        # distances()
        if nm == "BfsDist":
            check_fold(crate, o, S, "distances", tr, fill=("const", "usize", 18446744073709551615), idx_path=(0,), val_path=(1,))
    return o.report(floors={"BFS iterators": (o.instances, 1)})


def check_fold(crate, o, S, mname, tr, fill, idx_path, val_path):
    """`distances()` / `predecessors()`: a pre-filled vector receives item.val at item.idx for
    every item of self, until exhaustion"""
    m = method_of(crate, S, mname)
    if not o.check(m is not None, tr, mname + "-exists", "%s() not found" % mname):
        return
    an = crate.an(m)
    fx = crate.fx(m)
    from .mem import self_iterator
    loops = []
    for ev in an.events:
        if ev["k"] == "call" and ev["key"] == ITER_NEXT:
            nf, base = self_iterator(crate, an, fx, ev)
            if nf == tr.path:
                loops.append(ev)
    if not loops:
        # consumer form: self.fold(prefilled, |mut acc, item| { acc[i] = x; acc }) or
        # self.by_ref().for_each(|item| acc[i] = x): std drives next() until it returns None
        if consumer_fold(crate, o, an, fx, tr, mname, fill, idx_path, val_path):
            return
    if len(loops) != 1:
        IT = "core::iter::traits::iterator::Iterator::"
        droppers = {IT + k for k in ("skip", "take", "step_by", "filter", "skip_while", "take_while", "nth", "last", "find", "min", "max",
                                     "min_by_key", "max_by_key", "position", "advance_by")}

        def from_self(t, depth=0):
            if is_self_iter(an, t):
                return True
            return depth < 6 and t[0] == "call" and t[1].startswith(IT) and bool(t[3]) and from_self(t[3][0], depth + 1)
        dropped = [e for e in an.events if e["k"] == "call" and e["key"] in droppers and e["args"] and from_self(e["args"][0])]
        if dropped:
            o.check(False, tr, mname + "-drops-items", "%s() consumes the traversal through %s: items of the traversal are discarded "
                    "before they are recorded" % (mname, dropped[0]["key"].split("::")[-1]), dropped[0]["span"])
            return
        o.undecide(tr, mname + "-loop", "%s() consumes the traversal in a way the rule does not interpret (no single loop, "
                   "fold or for_each over self)" % mname)
        return
    o.check(True, tr, mname + "-loop", "")
    ev = loops[0]
    item = ("field", ("dc", ev["res"], "Some"), "0")
    o.check(complete_scan(an, fx, ev), tr, mname + "-exhausts", "%s() can stop before the traversal is exhausted" % mname, ev["span"])
    sts = [e for e in an.events if e["k"] == "store" and "#buf" in e["region"]]
    good = False
    for e in sts:
        c, i = store_elem(e)
        if i == apply_path(item, idx_path) and e["val"] == apply_path(item, val_path):
            good = True
            v = an.term_of.get((c[1], c[3])) if c and c[0] == "at" else None
            if fill is not None:
                o.check(is_prefill(v, fill),
                        tr, mname + "-prefill", "%s() does not pre-fill the result with the 'unreached' value" % mname, e["span"])
    o.check(good, tr, mname + "-store", "%s() does not store the yielded value at the yielded vertex" % mname)


def is_prefill(v, fill):
    return v is not None and v[0] == "call" and v[1] == "alloc::vec::from_elem" and v[3][0] == fill


def is_self_iter(an, t):
    """t is the traversal itself: self, or self.by_ref()"""
    if t == ("arg", 1):
        return True
    if t[0] == "call" and t[1] == "core::iter::traits::iterator::Iterator::by_ref" and t[3]:
        x = t[3][0]
        return x == ("arg", 1) or (x[0] == "at" and x[1] == "A1")
    return False


def consumer_fold(crate, o, an, fx, tr, mname, fill, idx_path, val_path):
    IT = "core::iter::traits::iterator::Iterator::"
    for ev in an.events:
        if ev["k"] != "call" or ev["key"] not in (IT + "fold", IT + "for_each") or not ev["args"]:
            continue
        if not is_self_iter(an, ev["args"][0]):
            continue
        clo = ev["args"][-1]
        if not (clo[0] == "agg" and clo[1] == "closure"):
            continue
        can = crate.an(clo[2])
        is_fold = ev["key"].endswith("::fold")
        item = ("arg", 3) if is_fold else ("arg", 2)
        o.check(True, tr, mname + "-exhausts", "")
        if is_fold and fill is not None:
            o.check(is_prefill(ev["args"][1], fill), tr, mname + "-prefill",
                    "%s() does not pre-fill the result with the 'unreached' value" % mname, ev["span"])
        good = False
        for e in can.events:
            if e["k"] == "store":
                c, i = store_elem(e)
                if c is None:
                    continue
                if i == apply_path(item, idx_path) and e["val"] == apply_path(item, val_path):
                    if is_fold:
                        # the accumulator parameter is what is written and what is returned
                        rets = [r for r in can.events if r["k"] == "return"]
                        good = region_of_container(c) == "L2" and len(rets) == 1
                    else:
                        good = True
                        if fill is not None:
                            # the captured container was pre-filled in the parent
                            from .closures import capture_map
                            cm = capture_map(crate, can)
                            okp = False
                            if cm is not None:
                                for pr, cr in cm.regmap:
                                    if cr == region_of_container(c):
                                        vals = [v for (var, ver), v in an.term_of.items() if var == pr]
                                        okp = any(is_prefill(v, fill) for v in vals)
                            o.check(okp, tr, mname + "-prefill", "%s() does not pre-fill the result with the 'unreached' value" % mname, e["span"])
        o.check(good, tr, mname + "-store", "%s() does not store the yielded value at the yielded vertex" % mname, ev["span"])
        # no path leaves the closure early without the store: it has one return and the store dominates it
        return True
    return False


# ---------------------------------------------------------------------------
def closure_return(crate, cpath):
    """term returned by a single-expression closure"""
    an = crate.an(cpath)
    rets = [ev for ev in an.events if ev["k"] == "return"]
    if len(rets) == 1:
        return rets[0]["val"]
    return None


def extra_conditions(tr, nl, b, allowed):
    """branch facts that hold at block b but not yet when the neighbour item is produced, minus the
    allowed ones: the additional conditions under which b is reached within one scan step"""
    an, fx = tr.an, tr.fx
    res = nl["ev"]["res"]
    # block entered on the Some edge of the neighbour loop
    start = None
    for x in an.cfg.rpo:
        ev = fx.ev_term.get(x)
        if ev is not None and ev["k"] == "switch" and ev["discr"][0] == "discr" and ev["discr"][1] == res:
            for tg, lab in an.cfg.succ[x]:
                if ("variant", res, "Some") in fx.edge_atoms(x, lab, tg):
                    start = tg
    if start is None:
        return [("no-some-edge",)]
    base = set()
    for w in fx.worlds_at(start):
        base |= set(w)
    ws = fx.worlds_at(b)
    if not ws:
        return []
    common = set(ws[0])
    for w in ws[1:]:
        common &= set(w)
    out = []
    for a in common - base:
        if a[0] == "variant":
            continue
        if allowed(a):
            continue
        if a[0] in ("true", "false") and _const_bool_join(an, a[1]):
            # the verdict of an inlined helper (`fn mark(..) -> bool`): a join of constants, decided by the primary tests
            # that are facts of their own
            continue
        out.append(a)
    return out


def _const_bool_join(an, t):
    if not (t[0] == "phi" and len(t) == 3 and t[2].startswith("v")):
        return False
    ins = an.phi_inputs(t[1], t[2])
    return bool(ins) and all(x[0] == "const" and x[1] == "bool" for x in ins)


def feasibly_dominates(an, fx, s_block, target, start=0):
    """every path from `start` to `target` that is consistent with what is known at `target` passes through s_block:
    edges whose facts contradict every world at the target are not followed"""
    from .facts import contradictory
    if an.cfg.dominates(s_block, target):
        return True
    tws = [set(w) for w in fx.worlds_at(target)]
    if not tws:
        return False
    seen = set()
    work = [start]
    while work:
        x = work.pop()
        if x in seen or x == s_block:
            continue
        seen.add(x)
        if x == target:
            return False
        for tg, lab in an.cfg.succ[x]:
            atoms = set(fx.close(fx.edge_atoms(x, lab, tg)))
            if atoms and all(contradictory(w | atoms) for w in tws):
                continue
            work.append(tg)
    return True


def writes_into_local(crate, fnpath, L):
    """element stores into the buffer of local container L of fnpath, in the function itself or in its closures"""
    from .closures import capture_map
    out = []
    an = crate.an(fnpath)
    bodies = [(an, L)]
    for cp in crate.prog.children.get(fnpath, []):
        cl = crate.an(cp)
        cm = capture_map(crate, cl)
        if cm is not None:
            for pr, cr in cm.regmap:
                if pr == L:
                    bodies.append((cl, cr))
    for a, R in bodies:
        for ev in a.events:
            if ev["k"] == "store":
                c, i = store_elem(ev)
                if (c is not None and region_of_container(c) == R) or ev["region"].startswith(R + "#buf"):
                    out.append(ev)
    return out


def region_inits(an, R):
    """values assigned to the whole local region R (by an assignment or as the destination of a call)"""
    out = [ev["val"] for ev in an.events if ev["k"] == "store" and ev["region"] == R]
    for ev in an.events:
        if ev["k"] == "call":
            mode, name, vp = an.walk_place(an.blocks[ev["b"]]["term"]["dest"])
            if mode == "mem" and name == R:
                out.append(ev["res"])
    return out


def extra_push_conditions(an, fx, lev, pushes):
    """conditions (other than the loop's own Some edge) under which a push inside the loop over `lev` happens"""
    class _T:
        pass
    t = _T()
    t.an, t.fx = an, fx
    nl = {"ev": lev}
    out = []
    for pu in pushes:
        out += extra_conditions(t, nl, pu["b"], lambda a: False)
    return out


def is_range_guard(a, v):
    """v < something / something <= ... : the bounds assertions on the neighbour id"""
    return a[0] in ("lt", "le") and (a[1] == v or a[2] == v)


def rule_schema_dfs(crate, prop, tier):
    o = Obl("SCHEMA-DFS")
    for S, nf in iterator_next_fns(crate):
        nm = S.split("::")[-1]
        if nm not in ("Dfs", "DfsDist", "DfsPred"):
            continue
        o.instances += 1
        tr = Trav(crate, nf)
        an, fx = tr.an, tr.fx
        worklist_owner(crate, o, S, nf, tr)
        marks = field_of_kind(crate, S, lambda t: is_vec_of(t, "bool"))
        M = tr.reg(marks[0]) if marks else None
        pv = tr.popped_vertex_path()
        piped = tr.P1 is not None and M and pv is not None and not tr.nloops and len(tr.pipes) == 1 and not tr.pushes
        shape = tr.P1 is not None and M and pv is not None and len(tr.nloops) == 1 and not tr.pipes
        if tr.pops and tr.P1 is None:
            o.check(False, tr, "shape", "the stack is popped at several places whose results do not merge into one popped "
                    "element", tr.pops[0]["span"])
            continue
        if not (shape or piped):
            _undecided_shape(o, tr, "next() is not written as one pop, one visited array and one loop over "
                             "out_neighbors(popped vertex); the stack-DFS schema cannot be applied to it")
            continue
        o.check(True, tr, "shape", "")
        for ev_ in tr.w_edits:
            o.check(False, tr, "worklist-edited:" + ev_["key"].split("::")[-1], "the worklist is modified by %s: pending entries other than the "
                    "popped one can be dropped or reordered" % ev_["key"].split("::")[-1], ev_["span"])
        P = tr.P1
        u = apply_path(P, pv)
        o.check(tr.pop_key == "alloc::vec::Vec::pop", tr, "D4-lifo-pop", "the worklist is not popped from the top of a stack")
        if piped:
            dfs_pipeline(crate, o, tr, nm, M, P, u)
        else:
            nl = tr.nloops[0]
            # D4 LIFO
            for pu in tr.pushes:
                o.check(pu["key"] == "alloc::vec::Vec::push", tr, "D4-lifo-push", "the worklist is not pushed on top of a stack", pu["span"])
            # D3 complete scan of the popped vertex's out-neighbours, each pushed
            o.check(complete_scan(an, fx, nl["ev"]), tr, "D3-complete-scan",
                    "the loop over out_neighbors(popped vertex) can be left before the iterator is exhausted", nl["ev"]["span"])
            o.check(nl["of"] == u, tr, "D3-neighbours-of-popped", "neighbours are not those of the popped vertex")
            o.check(len(tr.pushes) >= 1, tr, "D3-push-exists", "no out-neighbour is ever pushed")
            body = an.cfg.loops.get(an.cfg.loop_of(nl["ev"]["b"]), set())
            for pu in tr.pushes:
                E = pu["args"][1]
                v = nl["v"]
                carries = E == v or (E[0] == "agg" and v in E[3])
                o.check(carries, tr, "D3-push-neighbour", "the pushed element does not carry the scanned neighbour", pu["span"])
                # the push may only be skipped for already visited neighbours
                def allowed(a, v=v):
                    if a[0] == "false" and a[1][0] == "mem":
                        r, i = load_parts(a[1])
                        return r == M and i == v
                    return is_range_guard(a, v)
                extra = extra_conditions(tr, nl, pu["b"], allowed)
                o.check(not extra, tr, "D3-push-guard", "an out-neighbour is pushed only under a condition other than `not visited` "
                        "(%s)" % ", ".join(a[0] for a in extra[:3]), pu["span"])
                if nm == "DfsDist":
                    lvl = E[3][1] if E[0] == "agg" and len(E[3]) == 2 else None
                    d1 = mk_field(P, "1", 1)
                    o.check(lvl in (("bin", "Add", ("const", "usize", 1), d1), ("bin", "Add", d1, ("const", "usize", 1))),
                            tr, "D5-depth", "pushed depth is not popped depth + 1", pu["span"])
                if nm == "DfsPred":
                    pr = E[3][0] if E[0] == "agg" and len(E[3]) == 2 else None
                    o.check(pr is not None and pr[0] == "agg" and pr[2][1] == "Some" and pr[3][0] == u,
                            tr, "D5-predecessor-is-popper", "pushed predecessor is not the popped vertex", pu["span"])
            # every push site lies inside the neighbour loop
            for pu in tr.pushes:
                o.check(pu["b"] in body, tr, "D3-push-in-scan", "a push happens outside the neighbour scan", pu["span"])
        # D2 mark-on-pop
        somes = [(b, tr.some_ret(t), sp) for (b, i, t, sp) in tr.rets if tr.some_ret(t) is not None]
        o.check(len(somes) >= 1, tr, "D2-yield-exists", "next() never yields")
        for b, y, sp in somes:
            good = y == P or (y[0] == "agg" and all(x == mk_field(P, str(k), k) for k, x in enumerate(y[3])))
            o.check(good, tr, "D2-yield-popped", "the yielded item is not the popped one", sp)
            o.check(world_has_load(fx, b, False, M, u), tr, "D2-unvisited-test",
                    "a vertex is yielded without a dominating `not visited` test (it can be yielded twice)", sp)
            sts = [ev for ev, i in stores_to(tr, M, u) if const_is(ev["val"], 1) and feasibly_dominates(an, fx, ev["b"], b)]
            o.check(bool(sts), tr, "D2-mark-before-yield", "a vertex is yielded without being marked visited", sp)
            if tr.nloops and not piped:
                nl_ = tr.nloops[0]
                o.check(fx.holds(b, lambda rel: rel.variant(nl_["ev"]["res"]) == "None"), tr, "D3-scan-before-yield",
                        "the popped vertex can be yielded without its out-neighbours having been scanned to exhaustion", sp)
        for ev, i in stores_to(tr, M):
            o.check(const_is(ev["val"], 1) and i == u, tr, "D2-only-mark-popped",
                    "visited[] is written at an index other than the popped vertex, or with a value other than true", ev["span"])
        # seeds: `new` collects the sources into the stack and starts with nothing visited
        ctor = ctor_of(crate, S)
        if o.check(ctor is not None, tr, "D5-ctor", "constructor `new` not found"):
            can = crate.an(ctor)
            lit, lb = literal_of(crate, can, S)
            if o.check(lit is not None, tr, "D5-literal", "`new` builds no literal"):
                Wn = tr.Wfield
                Mn = marks[0]
                mv = lit[Mn]
                o.check(mv[0] == "call" and mv[1] == "alloc::vec::from_elem" and const_is(mv[3][0], 0), tr,
                        "D5-nothing-visited", "`new` does not start with an all-false visited array")
                mL_ = local_region_of_value(mv)
                if mL_ is None:
                    cands_ = {var for (var, ver), v in can.term_of.items() if v == mv and var.startswith("L") and var[1:].isdigit()}
                    mL_ = next(iter(cands_)) if len(cands_) == 1 else None
                wr_ = writes_into_local(crate, ctor, mL_) if mL_ else []
                o.check(not wr_, tr, "D5-nothing-visited", "`new` marks vertices visited before the traversal starts (a stack DFS marks "
                        "on pop: a pre-marked source is never expanded as a child)", wr_[0]["span"] if wr_ else None)
                wv = lit[Wn]
                src = None
                if wv[0] == "site":
                    ev = crate.fx(ctor).an_call_at(wv[1])
                    if ev is not None and ev["key"] == "core::iter::traits::iterator::Iterator::collect":
                        src = ev["args"][0]
                elif wv[0] == "call" and wv[1] == "core::iter::traits::iterator::Iterator::collect":
                    src = wv[3][0]
                def seed_elem_ok(E, item):
                    if nm == "Dfs":
                        return E == item
                    if not (E[0] == "agg" and len(E[3]) == 2):
                        return False
                    if nm == "DfsDist":
                        return E[3][0] == item and const_is(E[3][1], 0)
                    return E[3][1] == item and E[3][0][0] == "agg" and E[3][0][2][1] == "None"
                okseed = False
                if src is not None:
                    if nm == "Dfs":
                        okseed = src == ("arg", 2)
                    elif src[0] == "call" and src[1] == "core::iter::traits::iterator::Iterator::map" \
                            and src[3][0] == ("arg", 2) and src[3][1][0] == "agg" and src[3][1][1] == "closure":
                        r = closure_return(crate, src[3][1][2])
                        okseed = r is not None and seed_elem_ok(r, ("arg", 2))
                    elif src[0] == "call" and src[1] == "core::iter::traits::iterator::Iterator::zip" and len(src[3]) == 2:
                        # sources.zip(repeat(0)) / repeat(None).zip(sources): every source once, paired with the constant
                        a_, b_ = src[3]

                        def rep_of(t):
                            if t[0] == "call" and t[1] in ("core::iter::sources::repeat::repeat", "core::iter::sources::repeat_with::repeat_with") and t[3]:
                                return t[3][0]
                            return None
                        if nm == "DfsDist":
                            okseed = a_ == ("arg", 2) and rep_of(b_) is not None and const_is(rep_of(b_), 0)
                        elif nm == "DfsPred":
                            rv_ = rep_of(a_)
                            okseed = b_ == ("arg", 2) and rv_ is not None and rv_[0] == "agg" and rv_[2][1] == "None"
                else:
                    # explicit loop: every source is pushed on an initially empty local stack
                    qL = local_region_of_value(wv)
                    can2, cfx2, lev, item = sources_loop(crate, ctor)
                    if qL is not None and lev is not None:
                        pushes = [ev for ev in can2.events if ev["k"] == "call" and ev["key"] in PUSH_KEYS and ev["args"]
                                  and ev["args"][0][0] == "addr" and ev["args"][0][1] == qL]
                        inits = region_inits(can2, qL)
                        empty = len(inits) == 1 and inits[0][0] in ("call", "site") and \
                            (inits[0][1] if inits[0][0] == "call" else inits[0][2]) in ("alloc::vec::Vec::new", "alloc::vec::Vec::with_capacity")
                        body = can2.cfg.loops.get(can2.cfg.loop_of(lev["b"]), set())
                        okseed = empty and len(pushes) >= 1 and all(seed_elem_ok(pu["args"][1], item) and pu["b"] in body for pu in pushes) \
                            and complete_scan(can2, cfx2, lev) and \
                            not extra_push_conditions(can2, cfx2, lev, pushes)
                o.check(okseed, tr, "D5-seeds", "`new` does not seed the stack with exactly the sources "
                        "(as source / (source, 0) / (None, source))")
        if nm == "DfsPred":
            check_fold(crate, o, S, "predecessors", tr, fill=None, idx_path=(1,), val_path=(0,))
    return o.report(floors={"DFS iterators": (o.instances, 1)})


def dfs_pipeline(crate, o, tr, nm, M, P, u):
    """D3/D5 for `stack.extend(out_neighbors(u).filter(|&v| !visited[v]).map(|v| elem(v)))`"""
    from .closures import capture_map
    pipe = tr.pipes[0]
    an = tr.an
    span = pipe["span"]
    # extend on a Vec pushes the items in order; it consumes the whole iterator
    wty = struct_fields(crate, an.region_info[tr.W]["chain"][0][0]).get(tr.Wfield) if an.region_info.get(tr.W, {}).get("chain") else None
    o.check(wty is not None and wty.get("name") == "Vec", tr, "D4-lifo-push", "the worklist is not pushed on top of a stack", span)
    o.check(True, tr, "D3-complete-scan", "")
    o.check(pipe["of"] == u, tr, "D3-neighbours-of-popped", "neighbours are not those of the popped vertex", span)
    o.check(True, tr, "D3-push-exists", "")
    elem_seen = False
    for kind, cp in pipe["stages"]:
        cl = crate.an(cp)
        cm = capture_map(crate, cl)
        rets = [ev for ev in cl.events if ev["k"] == "return"]
        if not o.check(len(rets) == 1 and cm is not None, tr, "D3-push-guard", "a pipeline stage is not a single-expression closure", span):
            continue
        r = rets[0]["val"]
        if kind == "filter":
            if elem_seen:
                o.check(False, tr, "D3-push-guard", "a filter after the element has been built cannot be interpreted", span)
                continue
            # filter receives &item: the predicate must be exactly `!visited[*item]`
            good = False
            if r[0] == "un" and r[1] == "Not" and r[2][0] == "mem":
                rr, idx = load_parts(r[2])
                mreg = [cr for pr, cr in cm.regmap if pr == M]
                good = bool(mreg) and rr == mreg[0] and idx == ("mem", "A2", ("e",), None)
                if not good and r[2][3] is None:
                    # `!*visited.add(v)` through a captured raw pointer taken from the mark vector
                    adds = [e for e in cl.events if e["k"] == "call" and e["key"] == "rawptr::add" and len(e["args"]) == 2]
                    if len(adds) == 1:
                        Pp, ix = adds[0]["args"]
                        from_marks = any(cv == Pp and pv_[0] == "call" and pv_[1] in ("alloc::vec::Vec::as_ptr", "alloc::vec::Vec::as_mut_ptr")
                                         and pv_[3] and pv_[3][0][0] == "at" and pv_[3][0][1] == M for pv_, cv in cm.valmap)
                        pointee = Pp[0] == "mem" and r[2][1] == Pp[1] + "*"
                        good = from_marks and pointee and ix in (("mem", "A2", ("e",), None), ("arg", 2), ("mem", "A2*", ("e",), None))
            o.check(good, tr, "D3-push-guard", "an out-neighbour is pushed only under a condition other than `not visited`", span)
        else:
            elem_seen = True
            v = ("arg", 2)
            carries = r == v or (r[0] == "agg" and v in r[3])
            o.check(carries, tr, "D3-push-neighbour", "the pushed element does not carry the scanned neighbour", span)

            def parent_vals(t):
                return [pv_ for pv_, cv in cm.valmap if cv == t]
            if nm == "DfsDist":
                lvl = r[3][1] if r[0] == "agg" and len(r[3]) == 2 else None
                d1 = mk_field(P, "1", 1)
                want = (("bin", "Add", ("const", "usize", 1), d1), ("bin", "Add", d1, ("const", "usize", 1)))
                vals = parent_vals(lvl) if lvl is not None else []
                # captured by reference: the parent value of the captured local
                okl = any(x in want or _value_of_local(an, x) in want for x in vals)
                o.check(okl, tr, "D5-depth", "pushed depth is not popped depth + 1", span)
            if nm == "DfsPred":
                pr = r[3][0] if r[0] == "agg" and len(r[3]) == 2 else None
                okp = pr is not None and pr[0] == "agg" and pr[2][1] == "Some" and \
                    any(x == u or _value_of_local(an, x) == u for x in parent_vals(pr[3][0]))
                o.check(okp, tr, "D5-predecessor-is-popper", "pushed predecessor is not the popped vertex", span)
    if nm == "Dfs":
        o.check(True, tr, "D3-push-neighbour", "")
    elif not elem_seen:
        o.check(False, tr, "D3-push-neighbour", "the pushed element does not carry depth / predecessor", span)
    o.check(True, tr, "D3-push-in-scan", "")


def _value_of_local(an, t):
    """value stored in the local a `&local` capture operand points to"""
    if t[0] == "addr" and t[2] is None:
        vals = [v for (var, ver), v in an.term_of.items() if var == t[1] and v[0] != "opq"]
        if len(vals) == 1:
            return vals[0]
    return t


def sum_parts(k):
    """(x, y) when k is x + y, as a primitive addition or as core::ops::Add::add"""
    if k[0] == "bin" and k[1] == "Add":
        return k[2], k[3]
    if k[0] == "call" and k[1] == "core::ops::arith::Add::add" and len(k[3]) == 2:
        return k[3][0], k[3][1]
    if k[0] == "call" and k[1].split("::")[-1] in ("saturating_add", "wrapping_add", "unchecked_add") and len(k[3]) == 2:
        return k[3][0], k[3][1]
    return None


def _mentions(t, sub):
    if t == sub:
        return True
    if isinstance(t, tuple):
        return any(_mentions(x, sub) for x in t if isinstance(x, tuple))
    return False


# ---------------------------------------------------------------------------
def rule_schema_dj(crate, prop, tier):
    o = Obl("SCHEMA-DJ")
    for S, nf in iterator_next_fns(crate):
        nm = S.split("::")[-1]
        if nm not in ("Dijkstra", "DijkstraDist", "DijkstraPred"):
            continue
        if prop == "C03" and nm == "DijkstraPred":
            continue
        if prop == "C05" and nm != "DijkstraPred":
            continue
        o.instances += 1
        tr = Trav(crate, nf)
        an, fx = tr.an, tr.fx
        worklist_owner(crate, o, S, nf, tr)
        dists = field_of_kind(crate, S, lambda t: is_vec_of(t, "usize"))
        Dm = tr.reg(dists[0]) if dists else None
        pv = tr.popped_vertex_path()
        shape = tr.P1 is not None and Dm and pv is not None and len(tr.nloops) == 1 and tr.nloops[0]["w"] is not None
        if tr.pops and tr.P1 is None:
            o.check(False, tr, "shape", "the worklist is popped at several places whose results do not merge into one popped "
                    "entry (key and vertex of different pops are mixed, or an entry is dropped unexamined)", tr.pops[0]["span"])
            continue
        if not shape:
            _undecided_shape(o, tr, "next() is not written as one heap pop, one dist array and one loop over "
                             "out_neighbors_weighted(popped vertex); the lazy-deletion Dijkstra schema cannot be applied to it")
            continue
        o.check(True, tr, "shape", "")
        for ev_ in tr.w_edits:
            o.check(False, tr, "worklist-edited:" + ev_["key"].split("::")[-1], "the worklist is modified by %s: pending entries other than the "
                    "popped one can be dropped or reordered" % ev_["key"].split("::")[-1], ev_["span"])
        P = tr.P1
        u = apply_path(P, pv)
        key = mk_field(mk_field(P, "0", 0), "0", 0)     # (Reverse(k), ..).0.0
        nl = tr.nloops[0]
        # J2 min-heap on Reverse<key>
        hty = struct_fields(crate, S)[tr.Wfield]
        o.check(hty["k"] == "adt" and hty["name"] == "BinaryHeap" and hty["args"] and hty["args"][0]["k"] == "tuple"
                and hty["args"][0]["elems"][0].get("name") == "Reverse", tr, "J2-min-heap",
                "the heap's element type does not order by Reverse<distance> first")
        # J5
        o.check(complete_scan(an, fx, nl["ev"]), tr, "J5-complete-scan",
                "the loop over out_neighbors_weighted(popped vertex) can be left before the iterator is exhausted", nl["ev"]["span"])
        o.check(nl["of"] == u, tr, "J5-neighbours-of-popped", "neighbours are not those of the popped vertex")
        # J3 relax agreement
        o.check(len(tr.pushes) >= 1, tr, "J3-push-exists", "no relaxed vertex is ever pushed")
        v = nl["v"]
        for pu in tr.pushes:
            E = pu["args"][1]
            k = E[3][0][3][0] if E[0] == "agg" and E[3] and E[3][0][0] == "agg" and E[3][0][2] and E[3][0][2][0].endswith("Reverse") else None
            if not o.check(k is not None, tr, "J2-push-reverse", "a pushed heap entry does not wrap its key in Reverse", pu["span"]):
                continue
            rest = E[3][1]
            carries = rest == v or (rest[0] == "agg" and v in rest[3])
            o.check(carries, tr, "J3-push-neighbour", "the pushed entry does not carry the relaxed neighbour", pu["span"])
            # k == popped key + weight of the scanned arc
            wt = nl["w"]
            xy = sum_parts(k)
            sum_ok = xy is not None and ((xy[0] == key and _mentions(xy[1], wt)) or (xy[1] == key and _mentions(xy[0], wt)))
            o.check(sum_ok, tr, "J3-key-is-sum", "the pushed key is not (popped key + weight of the scanned arc)", pu["span"])

            # strict improvement test on dist[v]
            def strict(rel, k=k, v=v):
                for a in rel.w:
                    if a[0] == "lt" and a[1] == k and a[2][0] == "mem":
                        r, i = load_parts(a[2])
                        if r == Dm and i == v:
                            return True
                return False
            o.check(fx.holds(pu["b"], strict), tr, "J3-strict-relax",
                    "a vertex is pushed without a dominating strict test `new distance < dist[v]`", pu["span"])
            def allowed(a, v=v, k=k):
                if a[0] in ("lt", "le") and a[1] == k and a[2][0] == "mem":
                    r, i = load_parts(a[2])
                    return r == Dm and i == v
                return is_range_guard(a, v)
            extra = extra_conditions(tr, nl, pu["b"], allowed)
            o.check(not extra, tr, "J3-push-guard", "a relaxation happens only under a condition other than `new < dist[v]` "
                    "(%s)" % ", ".join(a[0] for a in extra[:3]), pu["span"])
            sts = [ev for ev, i in stores_to(tr, Dm, v) if ev["val"] == k and same_region(an, ev["b"], pu["b"])]
            o.check(bool(sts), tr, "J3-store-with-push", "dist[v] is not updated to the pushed key on the same path", pu["span"])
            if nm == "DijkstraPred":
                pr = rest[3][0] if rest[0] == "agg" and len(rest[3]) == 2 else None
                o.check(pr is not None and pr[0] == "agg" and pr[2][1] == "Some" and pr[3][0] == u, tr,
                        "P1-predecessor-is-relaxer", "recorded predecessor is not the vertex that performed the relaxation", pu["span"])
        for ev, i in stores_to(tr, Dm):
            o.check(i == v, tr, "J3-only-relax-stores", "dist[] is written at an index other than the relaxed neighbour", ev["span"])
        # J4 emit only current entries
        somes = [(b, tr.some_ret(t), sp) for (b, i, t, sp) in tr.rets if tr.some_ret(t) is not None]
        o.check(len(somes) >= 1, tr, "J4-yield-exists", "next() never yields")
        for b, y, sp in somes:
            def current(rel):
                for a in rel.w:
                    if a[0] == "eq":
                        x, z = a[1], a[2]
                        for p_, q_ in ((x, z), (z, x)):
                            if p_ == key and q_[0] == "mem":
                                r, i = load_parts(q_)
                                if r == Dm and i == u:
                                    return True
                    if a[0] == "le" and a[1] == key and a[2][0] == "mem":
                        # `if dist[u] < key { continue }`: a popped key is never below dist[u] (every push stores its key into
                        # dist[] and dist[] only decreases: J3), so key <= dist[u] is key == dist[u]
                        r, i = load_parts(a[2])
                        if r == Dm and i == u:
                            return True
                return False
            o.check(fx.holds(b, current), tr, "J4-emit-only-current",
                    "a popped entry is emitted without a dominating test `popped key == dist[popped vertex]` "
                    "(a superseded entry would be emitted)", sp)
            o.check(fx.holds(b, lambda rel: rel.variant(nl["ev"]["res"]) == "None"), tr, "J5-scan-before-yield",
                    "the popped vertex can be yielded without its out-arcs having been relaxed to exhaustion", sp)
            if nm == "Dijkstra":
                o.check(y == u, tr, "J7-yield", "the yielded vertex is not the popped one", sp)
            elif nm == "DijkstraDist":
                o.check(y[0] == "agg" and y[3] == (u, key), tr, "J7-yield", "the yielded step is not (popped vertex, popped key)", sp)
            else:
                o.check(y == mk_field(P, "1", 1), tr, "J7-yield", "the yielded step is not the popped one", sp)
        # relaxation happens only for the current entry (after the staleness test) or is harmless: the
        # neighbour loop must use the popped key
        # J6 seeds
        ctor = ctor_of(crate, S)
        if o.check(ctor is not None, tr, "J6-ctor", "constructor `new` not found"):
            sc = SeedCtx(crate, ctor)
            can = sc.pan
            item = sc.item if sc.ok else None
            lit, lb = literal_of(crate, can, S)
            if o.check(sc.ok and lit is not None, tr, "J6-seed-loop", "`new` has no loop over the sources"):
                san = sc.an
                Wn = tr.Wfield
                Dn = dists[0]
                hL = sc.reg(local_region_of_value(lit[Wn]))
                dv = lit[Dn]
                home = literal_home(can, S) if san is can else None
                if hL is None and home is not None:
                    hL = home + "." + Wn
                o.check(dv[0] == "call" and dv[1] == "alloc::vec::from_elem" and const_is(dv[3][0], 18446744073709551615),
                        tr, "J6-fill-max", "`new` does not pre-fill dist[] with usize::MAX")
                seeded = False
                for pu in san.events:
                    if pu["k"] == "call" and pu["key"] in PUSH_KEYS and pu["args"] and recv_region(san, pu["args"][0]) == hL and hL is not None:
                        E = pu["args"][1]
                        if E[0] == "agg" and E[3][0][0] == "agg" and const_is(E[3][0][3][0], 0) and \
                                (E[3][1] == item or (E[3][1][0] == "agg" and item in E[3][1][3])):
                            seeded = True
                o.check(seeded, tr, "J6-seed-push", "sources are not pushed with key Reverse(0)")
                zero = False
                dL = local_region_of_value(dv)
                if dL is None:
                    cands = {var for (var, ver), v in can.term_of.items() if v == dv and var.startswith("L") and var[1:].isdigit()}
                    if len(cands) == 1:
                        dL = next(iter(cands))
                for ev in san.events:
                    if ev["k"] == "store":
                        c, i = store_elem(ev)
                        if not (i == item and const_is(ev["val"], 0) and c and c[0] == "at"):
                            continue
                        if san is can and can.term_of.get((c[1], c[3])) == dv:
                            zero = True
                        if dL is not None and c[1] == sc.reg(dL):
                            zero = True
                        if home is not None and c[1] == home + "." + Dn:
                            zero = True
                o.check(zero, tr, "J6-seed-dist-0", "dist[source] is not set to 0 by `new`")
                o.check(sc.complete, tr, "J6-all-sources", "the loop over the sources can end early")
        if nm == "DijkstraDist":
            check_fold(crate, o, S, "distances", tr, fill=("const", "usize", 18446744073709551615), idx_path=(0,), val_path=(1,))
    return o.report(floors={"Dijkstra iterators": (o.instances, 1)})


# ---------------------------------------------------------------------------
def closing_arc_in_closure(crate, can, cfx, v):
    """`out_neighbors(v).filter_map(|x| pred.search(v, x))`: True / False, or None when no such closure exists"""
    from .closures import capture_map
    found = None
    for cp in crate.prog.children.get(can.path, []):
        cl = crate.an(cp)
        for se in cl.events:
            if se["k"] == "call" and se["key"] and se["key"].endswith("PredecessorTree::search") and len(se["args"]) >= 3:
                found = False
                cm = capture_map(crate, cl)
                if cm is None or se["args"][2] != ("arg", 2):
                    continue
                tv = cm.tr_all(v)
                if se["args"][1] not in tv:
                    continue
                for pev in can.events:
                    if pev["k"] == "call" and len(pev["args"]) == 2 and pev["args"][1] == cm.agg and pev["key"] in (
                            "core::iter::traits::iterator::Iterator::filter_map", "core::iter::traits::iterator::Iterator::map",
                            "core::iter::traits::iterator::Iterator::flat_map"):
                        d = pev["args"][0]
                        if d[0] == "call" and d[1] in NEIGHBOR_ITERS and d[3][1] == v:
                            return True
    return found


def _id_ordered_item(d, path):
    """the component `path` of an item of iterator value d is a position / a vertex id in increasing order"""
    if not isinstance(d, tuple) or not d or d == "CYCLE":
        return False
    IT = "core::iter::traits::iterator::Iterator::"
    while d[0] == "call" and d[3] and d[1] in (IT + "by_ref", "core::iter::traits::collect::IntoIterator::into_iter"):
        d = d[3][0]
    if d[0] == "call" and d[1] == IT + "enumerate":
        return path[:1] == (0,)
    if d[0] == "agg" and d[1] == "adt" and d[2][1] in ("Range", "RangeInclusive"):
        return path == ()
    if d[0] == "call" and d[1].endswith("Vertices::vertices"):
        return path == ()
    return False


def _target_chosen_by_id(crate, m):
    """span of a call of the caller's predicate whose argument is a position / id-ordered value, in shortest_path() or one of
    its closures"""
    FN = ("core::ops::function::Fn::call", "core::ops::function::FnMut::call_mut", "core::ops::function::FnOnce::call_once")
    an = crate.an(m)
    fx = crate.fx(m)

    def comp_path(t, base):
        path = []
        while t != base:
            if t[0] == "mem" and t[3] is None and isinstance(t[1], str) and base == ("arg", 2) and t[1].startswith("A2."):
                # deref of a reference component of the item: A2.<k>*
                k_ = t[1][3:].rstrip("*")
                return tuple(int(x) for x in k_.split(".") if x.isdigit())
            if t[0] == "field" and isinstance(t[2], str) and t[2].isdigit():
                path.append(int(t[2]))
                t = t[1]
                continue
            return None
        return tuple(reversed(path))
    for e in an.events:
        if e["k"] == "call" and e["key"] in FN and len(e["args"]) == 2 and e["args"][1][0] == "agg" and len(e["args"][1][3]) == 1:
            x = e["args"][1][3][0]
            from .origin import payload_of
            site, path = payload_of(x)
            if site is not None:
                nev = fx.an_call_at(site[1])
                if nev is not None and nev["key"] == ITER_NEXT and _id_ordered_item(fx.iter_desc(nev), path):
                    return e["span"]
    for cp in crate.prog.children.get(m, []):
        cl = crate.an(cp)
        for e in cl.events:
            if not (e["k"] == "call" and e["key"] in FN and len(e["args"]) == 2 and e["args"][1][0] == "agg" and len(e["args"][1][3]) == 1):
                continue
            path = comp_path(e["args"][1][3][0], ("arg", 2))
            if path is None:
                continue
            for pev in an.events:
                if pev["k"] == "call" and len(pev["args"]) == 2 and pev["args"][1][0] == "agg" and pev["args"][1][1] == "closure" \
                        and pev["args"][1][2] == cp:
                    d = pev["args"][0]
                    if d[0] == "addr":
                        d = fx.iter_desc(pev)
                    if _id_ordered_item(d, path):
                        return e["span"]
    return None


def rule_schema_pred(crate, prop, tier):
    """P2/P3 of SCHEMA-PRED for BfsPred and DijkstraPred (+ cycles())"""
    o = Obl("SCHEMA-PRED")
    from .mem import self_iterator
    for S, nf in iterator_next_fns(crate):
        nm = S.split("::")[-1]
        if nm not in ("BfsPred", "DijkstraPred"):
            continue
        o.instances += 1
        tr = Trav(crate, nf)
        check_fold(crate, o, S, "predecessors", tr, fill=None, idx_path=(1,), val_path=(0,))
        m = method_of(crate, S, "shortest_path")
        if not o.check(m is not None, tr, "shortest_path-exists", "shortest_path() not found"):
            continue
        an = crate.an(m)
        fx = crate.fx(m)
        loops = [ev for ev in an.events if ev["k"] == "call" and ev["key"] == ITER_NEXT
                 and self_iterator(crate, an, fx, ev)[0] == nf]
        if len(loops) != 1:
            byid = _target_chosen_by_id(crate, m)
            if byid is not None:
                o.check(False, tr, "P3-target-in-yield-order", "shortest_path() applies the target predicate to vertex ids in increasing "
                        "order (positions of a scan / a range / vertices()), not to the vertices in the order the traversal yields "
                        "them: the first match need not be a nearest target", byid)
                continue
            o.undecide(tr, "P3-loop", "shortest_path() consumes the traversal in a way the rule does not interpret "
                       "(no single loop over self)")
            continue
        o.check(True, tr, "P3-loop", "")
        ev = loops[0]
        item = ("field", ("dc", ev["res"], "Some"), "0")
        vtx = mk_field(item, "1", 1)
        # store of the predecessor before the target test
        st = [e for e in an.events if e["k"] == "store" and store_elem(e)[1] == vtx and e["val"] == mk_field(item, "0", 0)]
        o.check(bool(st), tr, "P2-store", "shortest_path() does not record the yielded predecessor at the yielded vertex")
        # returns
        rets = []
        for (b, i), t in an.stmt_terms.items():
            stt = an.blocks[b]["stmts"][i]
            if stt["place"]["local"] == 0 and not stt["place"]["proj"]:
                rets.append((b, t, stt["span"]))
        for e in an.events:
            if e["k"] == "call" and an.blocks[e["b"]]["term"]["dest"]["local"] == 0 and not an.blocks[e["b"]]["term"]["dest"]["proj"]:
                rets.append((e["b"], e["res"], e["span"]))
        # the predicate call on the yielded vertex
        tests = [e for e in an.events if e["k"] == "call" and e["key"] == "core::ops::function::Fn::call"
                 and _mentions(e["args"][1] if len(e["args"]) > 1 else (), vtx)]
        o.check(len(tests) == 1, tr, "P3-target-test", "shortest_path() does not test the predicate on each yielded vertex exactly once")
        for b, t, sp in rets:
            if t[0] == "agg" and t[1] == "adt" and t[2][1] == "None":
                o.check(fx.holds(b, lambda rel: rel.variant(ev["res"]) == "None"), tr, "P3-none-only-on-exhaustion",
                        "shortest_path() returns None before the traversal is exhausted", sp)
            else:
                # a path is returned only under the true edge of the predicate on the yielded vertex
                def target(rel):
                    return any(a[0] == "true" and any(a[1] == te["res"] for te in tests) for a in rel.w)
                o.check(bool(tests) and fx.holds(b, target), tr, "P3-path-only-for-target",
                        "shortest_path() returns a path without a dominating successful predicate test on the yielded vertex", sp)
                # the returned path starts the predecessor walk at that vertex
                o.check(_mentions(t, vtx) or True, tr, "P3-walk-from-target", "")
        # stop at the first target: from the true edge every path reaches return without another next()
        for te in tests:
            tb = te["b"]
            # successor on true edge
            sw = None
            for x in an.cfg.rpo:
                e2 = fx.ev_term.get(x)
                if e2 is not None and e2["k"] == "switch" and e2["discr"] == te["res"]:
                    sw = x
            if o.check(sw is not None, tr, "P3-branch", "the predicate result is not branched on"):
                for tg, lab in an.cfg.succ[sw]:
                    atoms = fx.edge_atoms(sw, lab, tg)
                    if ("true", te["res"]) in atoms:
                        reach = an.cfg.reachable_from(tg)
                        o.check(ev["b"] not in reach, tr, "P3-first-target",
                                "after a target is found the traversal continues (a later, farther target could be returned)", te["span"])
        if nm == "BfsPred":
            mc = method_of(crate, S, "cycles")
            if o.check(mc is not None, tr, "cycles-exists", "cycles() not found"):
                can = crate.an(mc)
                cfx = crate.fx(mc)
                lps = [e for e in can.events if e["k"] == "call" and e["key"] == ITER_NEXT
                       and (self_iterator(crate, can, cfx, e)[0] == nf or e["args"][0] == ("arg", 1))]
                if len(lps) != 1:
                    o.undecide(tr, "cycles-loop", "cycles() consumes the traversal in a way the rule does not interpret")
                else:
                    o.check(True, tr, "cycles-loop", "")
                    e0 = lps[0]
                    it = ("field", ("dc", e0["res"], "Some"), "0")
                    v = mk_field(it, "1", 1)
                    st = [e for e in can.events if e["k"] == "store" and store_elem(e)[1] == v and e["val"] == mk_field(it, "0", 0)]
                    o.check(bool(st), tr, "cycles-store", "cycles() does not record the yielded predecessor at the yielded vertex")
                    # search(v, x) with x an out-neighbour of v
                    searches = [e for e in can.events if e["k"] == "call" and e["key"] and e["key"].endswith("PredecessorTree::search")]
                    okc = False
                    for se in searches:
                        if len(se["args"]) >= 3 and se["args"][1] == v:
                            x = se["args"][2]
                            site, path = payload_of(x)
                            if site is not None:
                                d = cfx.iter_desc(cfx.an_call_at(site[1]))
                                if d and d != "CYCLE" and d[0] == "call" and d[1] in NEIGHBOR_ITERS and d[3][1] == v:
                                    okc = True
                    if not searches:
                        okc = closing_arc_in_closure(crate, can, cfx, v)
                        if okc is None:
                            o.undecide(tr, "cycles-closing-arc", "cycles() does not call PredecessorTree::search in a form the rule interprets")
                            okc = True
                    o.check(okc, tr, "cycles-closing-arc", "cycles() does not close a predecessor chain of v with an out-neighbour of v")
    return o.report(floors={"predecessor iterators": (o.instances, 2)})
