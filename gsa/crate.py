"""Whole-crate context: cached analyses, facts and summaries."""
from .load import Program
from .core import Analysis, compute_summaries
from .facts import Facts
from .frozen import Frozen


class Crate:
    def __init__(self, facts_path):
        self.prog = Program(facts_path)
        self.prog.frozen = Frozen(self.prog)
        compute_summaries(self.prog)
        from .inline import inline_helpers
        self.inlined = inline_helpers(self.prog.d["fns"], self.prog.summaries)
        self._an = {}
        self._fx = {}
        self.entry_facts_hook = None   # callable(crate, an) -> list of atoms
        self._inv = None

    def fn_paths(self):
        return [f["path"] for f in self.prog.d["fns"]]

    def an(self, path):
        a = self._an.get(path)
        if a is None:
            a = Analysis(self.prog, self.prog.fns[path])
            a.crate = self
            self._an[path] = a
        return a

    def fx(self, path):
        f = self._fx.get(path)
        if f is None:
            a = self.an(path)
            f = Facts(a)
            from .closures import closure_entry_facts
            f.entry_facts = list(closure_entry_facts(self, a))
            if self.entry_facts_hook:
                f.entry_facts += list(self.entry_facts_hook(self, a))
            f.solve()
            self._fx[path] = f
        return f

    @property
    def inv(self):
        if self._inv is None:
            from .inv import Invariants
            self._inv = Invariants(self)
        return self._inv
