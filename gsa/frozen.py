"""Crate-wide 'header-stable field' table (DESIGN §2.2 field invariants).

A field chain ((Adt, field), ...) is *frozen* when no body of the crate can
change the value stored in it after construction, other than through
header-preserving container operations (element access):
  * no assignment / call destination writes the field or an enclosing field,
  * no `&mut` to the field (or to an enclosing field / the whole struct) is
    handed to a callee that is neither crate-local nor header-preserving,
  * the first field of the chain is not `pub`.
The table is recomputed from the exported facts on every run.
"""
from .load import callee_key

HEADER_PRESERVING = {
    "alloc::vec::Vec::as_mut_ptr", "alloc::vec::Vec::as_ptr", "slice::as_mut_ptr",
    "slice::get_unchecked_mut", "slice::get_mut", "slice::iter_mut",
    "core::ops::deref::DerefMut::deref_mut", "core::ops::index::IndexMut::index_mut",
    "alloc::collections::btree::map::BTreeMap::get_mut",
    "alloc::collections::btree::map::BTreeMap::iter_mut",
    "core::iter::traits::iterator::Iterator::by_ref",
    "core::iter::traits::collect::IntoIterator::into_iter",
    "core::iter::traits::iterator::Iterator::next",
    "slice::reverse", "slice::sort_unstable_by_key", "slice::sort_by_key", "slice::sort_unstable",
}


def local_ty(f, place):
    return f["locals"][place["local"]]["ty"]


def walk_chain(f, place):
    """-> (chain, tail) where chain is the tuple of (adt, field) since the last
    deref and tail is 'field' (place denotes the field itself), 'elem'
    (something inside a buffer / behind a pointer stored in it) or 'whole'
    (no field: the dereferenced object itself); plus the type of the base
    object of the chain."""
    t = local_ty(f, place)
    chain = ()
    tail = "whole"
    base = t
    for e in place["proj"]:
        k = e["k"]
        if k == "deref":
            t = t.get("to") or {"k": "other", "s": "?"}
            if t.get("k") == "adt" and t.get("name") == "Box" and t.get("args"):
                t = t["args"][0]
            chain = ()
            tail = "whole"
            base = t
        elif k == "field":
            if t.get("k") == "adt":
                chain = chain + ((t["path"], e["name"]),)
            else:
                chain = chain + (("<%s>" % t.get("k"), e["name"]),)
            tail = "field"
            t = e["ty"]
        elif k == "downcast":
            pass
        else:
            tail = "elem"
            t = t.get("elem", {"k": "other", "s": "?"})
            break
    return chain, tail, base


class Frozen:
    def __init__(self, prog):
        self.prog = prog
        self.writes = set()       # chains written
        self.write_all = set()    # adt paths whose every field may be written
        self.events = []
        self.pub = {}
        for a in prog.d["adts"]:
            for fl in a["fields"]:
                self.pub[(a["path"], fl["name"])] = fl["public"]
        for f in prog.d["fns"]:
            self._scan(f)

    def _record(self, f, chain, base, why, span):
        if chain:
            self.writes.add(chain)
        elif base.get("k") == "adt":
            self.write_all.add(base["path"])
        self.events.append((f["path"], chain, base.get("path", base.get("k")), why, span["line"]))

    def _scan(self, f):
        refs = {}   # temp local -> (chain, base) for `&mut place`
        blocks = f["blocks"]
        for b in blocks:
            if b["cleanup"]:
                continue
            for s in b["stmts"]:
                if s["k"] == "assign":
                    p = s["place"]
                    if any(e["k"] == "deref" for e in p["proj"]):
                        chain, tail, base = walk_chain(f, p)
                        if tail in ("field", "whole"):
                            self._record(f, chain, base, "assign", s["span"])
                    rv = s["rv"]
                    if rv["k"] in ("ref", "rawptr") and rv["mut"]:
                        q = rv["place"]
                        if any(e["k"] == "deref" for e in q["proj"]):
                            chain, tail, base = walk_chain(f, q)
                            if tail in ("field", "whole") and not p["proj"]:
                                refs[p["local"]] = (chain, base, s["span"])
                            elif tail in ("field", "whole"):
                                self._record(f, chain, base, "mutref-stored", s["span"])
                elif s["k"] == "setdiscr":
                    p = s["place"]
                    chain, tail, base = walk_chain(f, p)
                    if tail in ("field", "whole") and any(e["k"] == "deref" for e in p["proj"]):
                        self._record(f, chain, base, "setdiscr", s["span"])
            t = b["term"]
            if t["k"] == "call":
                d = t["dest"]
                if any(e["k"] == "deref" for e in d["proj"]):
                    chain, tail, base = walk_chain(f, d)
                    if tail in ("field", "whole"):
                        self._record(f, chain, base, "calldest", b["tspan"])
        if not refs:
            return
        # uses of the &mut temporaries
        used_ok = {r: True for r in refs}
        seen_use = {r: 0 for r in refs}

        def use(op, ctx):
            if op["k"] in ("copy", "move") and not op["place"]["proj"]:
                r = op["place"]["local"]
                if r in refs:
                    seen_use[r] += 1
                    if ctx is None:
                        used_ok[r] = False
                    else:
                        fn = ctx
                        key = callee_key(fn)
                        local = fn.get("resolved_local", fn["local"]) if "resolved" in fn else fn["local"]
                        if not (local or key in HEADER_PRESERVING):
                            used_ok[r] = False
            elif op["k"] in ("copy", "move"):
                r = op["place"]["local"]
                # reborrow / projection through the temp: (*_r).x ...
                if r in refs:
                    pass

        for b in blocks:
            if b["cleanup"]:
                continue
            for s in b["stmts"]:
                if s["k"] != "assign":
                    continue
                rv = s["rv"]
                k = rv["k"]
                if k in ("use", "cast", "repeat"):
                    use(rv["op"], None)
                elif k == "binop":
                    use(rv["a"], None)
                    use(rv["b"], None)
                elif k == "unop":
                    use(rv["a"], None)
                elif k == "aggregate":
                    for o in rv["ops"]:
                        use(o, None)
                elif k in ("ref", "rawptr"):
                    q = rv["place"]
                    r = q["local"]
                    if r in refs and q["proj"] and q["proj"][0]["k"] == "deref":
                        # reborrow `&mut (*_r)...`: treat the new temp like the old one when it
                        # denotes the same field, a sub-place otherwise
                        if len(q["proj"]) == 1 and rv["mut"] and not s["place"]["proj"]:
                            refs[s["place"]["local"]] = refs[r]
                            used_ok.setdefault(s["place"]["local"], True)
                            seen_use.setdefault(s["place"]["local"], 0)
                        elif rv["mut"]:
                            chain0, base0, sp0 = refs[r]
                            sub = {"local": q["local"], "proj": q["proj"][1:]}
                            # type walk from the field's type is not available here; be conservative
                            # only when the sub-place is a plain field
                            if all(e["k"] == "field" for e in sub["proj"]):
                                used_ok[r] = False
                # assignment through the temp: (*_r) = v
                d = s["place"]
                if d["local"] in refs and d["proj"] and d["proj"][0]["k"] == "deref":
                    if len(d["proj"]) == 1 or all(e["k"] in ("field",) for e in d["proj"][1:]):
                        used_ok[d["local"]] = False
            t = b["term"]
            if t["k"] == "call":
                fo = t["func"]
                fn = fo.get("fn") if fo["k"] == "const" else None
                for a in t["args"]:
                    use(a, fn)
                d = t["dest"]
                if d["local"] in refs and d["proj"] and d["proj"][0]["k"] == "deref":
                    used_ok[d["local"]] = False
            elif t["k"] == "switch":
                use(t["discr"], None)
        for r, (chain, base, sp) in refs.items():
            if not used_ok.get(r, True):
                self._record(f, chain, base, "mutref-escapes", sp)

    def is_frozen(self, chain):
        if not chain:
            return False
        if self.pub.get(chain[0], False):
            return False
        if chain[0][0] in self.write_all:
            return False
        for i in range(1, len(chain) + 1):
            if chain[:i] in self.writes:
                return False
        # enclosing struct of a nested chain: its own write_all
        for adt, _ in chain:
            if adt in self.write_all:
                return False
        return True
