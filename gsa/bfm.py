"""RELAX-AGREE (C07): Bellman-Ford-Moore relaxation, written against *relaxation units* and *arc visits* so that the
rule does not depend on how the loop is spelled (raw pointers or indexing, any unrolling factor with or without a tail,
relaxation inline or in a local closure, index loop or iterator loop for the final pass).

R1  every store into dist[] is dist[head] = dist[tail] + w with tail, head, w read from one arc tuple, guarded by
    dist[tail] != isize::MAX and by (dist[tail] + w) < dist[head];
R2  in every relaxation round every arc index 0..arcs_len is visited (ARC-COVERAGE: the counter skeleton of the round is
    evaluated exhaustively for arcs_len = 0..12);
R3  a relaxation that stores raises the `changed` flag, the flag is reset every round and tested;
R4  the final pass looks at every arc, returns None only under the strict test with the unreached guard, and Some
    only after the whole pass;
R5  new() checks s < order, pre-fills isize::MAX, sets dist[s] = 0.
"""
from .core import mk_field
from .schema import (Obl, elem_access, store_elem, region_of_container, load_parts, sum_parts, _mentions,
                     method_of, ctor_of, literal_of, same_region, const_is)
from .mem import complete_scan

ITER_NEXT = "core::iter::traits::iterator::Iterator::next"
IMAX = 9223372036854775807
S = "graaf::algo::bellman_ford_moore::BellmanFordMoore"
WHO = "BellmanFordMoore::distances"


def arc_comp(t):
    """(arc object, k) when t is component k of an arc tuple that lives in memory: loaded through a pointer
    (`(*p).k`, p = &arcs[i] or arcs_ptr.add(i) or a closure parameter)"""
    if t and t[0] == "mem":
        if t[3] is not None and t[3][0] == "faddr" and str(t[3][2]).isdigit():
            return t[3][1], int(t[3][2])
        if t[3] is None and t[2] == ("e",) and t[1].startswith("A") and "." in t[1]:
            base, k = t[1].rsplit(".", 1)
            if k.isdigit() and base[1:].isdigit():
                return ("argptr", int(base[1:])), int(k)
    return None, None


def deep_arc_terms(t, out):
    """all (arc object, k) mentioned anywhere inside t"""
    if isinstance(t, tuple) and t:
        T, k = arc_comp(t)
        if T is not None:
            out.append((T, k))
        for x in t:
            if isinstance(x, tuple):
                deep_arc_terms(x, out)


class Unit:
    """one relaxation store"""

    def __init__(self, an, fx, ev, T, tail_load):
        self.an, self.fx, self.ev, self.T, self.tail_load = an, fx, ev, T, tail_load


def dist_container_ok(an, c, in_closure):
    """the written container is self.dist (method level) or a slice / Vec parameter of the closure"""
    r = region_of_container(c)
    if r is None:
        return None
    if not in_closure:
        return r if r == "A1.dist" else None
    if r.startswith("A") and r[1:].isdigit() and int(r[1:]) >= 2:
        return r
    return None


def find_units(crate, o, m):
    """relaxation stores in distances() and in its closures, each checked for R1"""
    units = []
    bodies = [(m, False)] + [(cp, True) for cp in crate.prog.children.get(m, [])]
    for path, in_cl in bodies:
        an = crate.an(path)
        fx = crate.fx(path)
        for ev in an.events:
            if ev["k"] != "store":
                continue
            c, v = store_elem(ev)
            if c is None:
                a = ev["addr"]
                if a and a[0] == "addr" and a[2] is not None and a[2][0] == "elem":
                    base = a[2][1]
                    if base[0] == "arg":
                        c, v = ("at", "A%d" % base[1], None, None, ()), a[2][2]
            D = dist_container_ok(an, c, in_cl) if c is not None else None
            if D is None:
                continue
            T, k = arc_comp(v)
            val = ev["val"]
            xy = sum_parts(val)
            if T is None and in_cl and v[0] == "arg" and len(v) == 2 and xy:
                # a closure over scalars: |dist, u, v, w| { .. dist[v] = dist[u] + w }; which components of which arc the
                # scalars are is decided at the call sites (R1-closure-args)
                got = None
                for x, y in (xy, xy[::-1]):
                    r, ui = dist_load(an, x, in_cl)
                    if r == D and ui is not None and ui[0] == "arg" and y[0] == "arg" and len({ui[1], v[1], y[1]}) == 3:
                        got = (ui[1], v[1], y[1], x)
                if got is not None:
                    tpar, hpar, wpar, u_load = got
                    b = ev["b"]
                    o.check(True, WHO, "R1-target-is-head", "")
                    o.check(True, WHO, "R1-stored-term", "")
                    o.check(fx.holds(b, lambda rel: any(a[0] == "ne" and u_load in a[1:] and ("const", "isize", IMAX) in a[1:] for a in rel.w)),
                            WHO, "R1-unreached-guard", "a relaxation is not guarded by dist[tail] != isize::MAX (an unreached tail would be relaxed from)", ev["span"])

                    def improves_s(rel, val=val, v=v, D=D):
                        for a in rel.w:
                            if a[0] in ("lt", "le") and a[1] == val and a[2][0] == "mem":
                                r, i = dist_load(an, a[2], in_cl)
                                if r == D and i == v:
                                    return True
                        return False
                    o.check(fx.holds(b, improves_s), WHO, "R1-improvement-guard", "a relaxation store is not guarded by dist[head] > dist[tail] + w", ev["span"])
                    units.append(Unit(an, fx, ev, ("argscalars", tpar, hpar, wpar), u_load))
                    continue
            if not o.check(T is not None and k == 1, WHO, "R1-target-is-head",
                           "dist[] is written at an index that is not the head of an arc tuple", ev["span"]):
                continue
            good = False
            u_load = None
            if xy:
                for x, y in (xy, xy[::-1]):
                    r, ui = dist_load(an, x, in_cl)
                    T2, k2 = arc_comp(ui) if ui else (None, None)
                    ws = []
                    deep_arc_terms(y, ws)
                    if r == D and T2 == T and k2 == 0 and (T, 2) in ws:
                        good = True
                        u_load = x
            if not o.check(good, WHO, "R1-stored-term", "the stored value is not dist[tail] + weight of the same arc", ev["span"]):
                continue
            b = ev["b"]
            o.check(fx.holds(b, lambda rel: any(a[0] == "ne" and u_load in a[1:] and ("const", "isize", IMAX) in a[1:] for a in rel.w)),
                    WHO, "R1-unreached-guard", "a relaxation is not guarded by dist[tail] != isize::MAX (an unreached tail would be relaxed from)", ev["span"])

            def improves(rel, val=val, v=v, D=D):
                for a in rel.w:
                    if a[0] in ("lt", "le") and a[1] == val and a[2][0] == "mem":
                        r, i = dist_load(an, a[2], in_cl)
                        if r == D and i == v:
                            return True
                return False
            o.check(fx.holds(b, improves), WHO, "R1-improvement-guard", "a relaxation store is not guarded by dist[head] > dist[tail] + w", ev["span"])
            units.append(Unit(an, fx, ev, T, u_load))
    return units


def dist_load(an, t, in_closure):
    """(container region, index) of a load of one element of a dist-like container"""
    r, i = load_parts(t)
    if r is not None:
        return r, i
    if t and t[0] == "mem" and t[3] is not None and t[3][0] == "elem" and t[3][1][0] == "arg":
        return "A%d" % t[3][1][1], t[3][2]
    return None, None


def arc_index(T):
    """(arcs container region, index term) when the arc object T is &arcs[I] / arcs_ptr.add(I)"""
    c, i = elem_access(T)
    if c is not None:
        return region_of_container(c), i
    return None, None


# ---------------------------------------------------------------------------------------------------------------
# ARC-COVERAGE: exhaustive evaluation of the counter skeleton of one round

class Skeleton:
    def __init__(self, an, fx, A, visits, entry, leave_ok):
        self.an, self.fx, self.A = an, fx, A
        self.visits = visits          # block -> [index terms]
        self.entry = entry            # first block of the round body
        self.leave_ok = leave_ok      # blocks outside the round body (reaching them ends the round)

    def ev(self, t, env, LEN):
        if t[0] == "const" and isinstance(t[2], int):
            return t[2]
        if t in env:
            return env[t]
        if t[0] == "len":
            x = t[1]
            if x[0] == "at" and x[1] == self.A:
                return LEN
            return None
        if t[0] == "bin" and t[1] in ("Add", "Sub", "Mul"):
            a, b = self.ev(t[2], env, LEN), self.ev(t[3], env, LEN)
            if a is None or b is None:
                return None
            return a + b if t[1] == "Add" else a - b if t[1] == "Sub" else a * b
        if t[0] == "mem" and t[3] is None:
            v = self.an.term_of.get((t[1], t[2]))
            if v is not None and v != t:
                return self.ev(v, env, LEN)
        return None

    def truth(self, d, env, LEN):
        if d[0] == "bin" and d[1] in ("Lt", "Le", "Eq", "Ne"):
            a, b = self.ev(d[2], env, LEN), self.ev(d[3], env, LEN)
            if a is None or b is None:
                return None
            return {"Lt": a < b, "Le": a <= b, "Eq": a == b, "Ne": a != b}[d[1]]
        if d[0] == "un" and d[1] == "Not":
            r = self.truth(d[2], env, LEN)
            return None if r is None else not r
        return None

    def run(self, LEN):
        """None when every way through the round visits every index < LEN, else a description"""
        an, cfg = self.an, self.an.cfg
        start = (self.entry, frozenset())
        best = {start: None}        # state -> must-visited set (None = not yet known = top)
        work = [(self.entry, {}, frozenset())]
        steps = 0
        while work:
            b, env, vis = work.pop()
            steps += 1
            if steps > 20000:
                return "the round does not finish within the step budget for arcs_len = %d" % LEN
            if any(isinstance(v, int) and v > LEN + 64 for v in env.values()):
                return "a counter runs away for arcs_len = %d" % LEN
            for I in self.visits.get(b, ()):
                x = self.ev(I, env, LEN)
                if x is None:
                    return "an arc index cannot be evaluated"
                vis = vis | {x}
            if b in self.leave_ok:
                missing = [j for j in range(LEN) if j not in vis]
                if missing:
                    return "arcs_len = %d: arc %d is not relaxed in a round" % (LEN, missing[0])
                continue
            succ = [(tg, lab) for tg, lab in cfg.succ[b] if tg in cfg.can_return]
            evt = self.fx.ev_term.get(b)
            if evt is not None and evt["k"] == "switch" and self.fx.is_bool_switch(b):
                r = self.truth(evt["discr"], env, LEN)
                if r is not None:
                    keep = []
                    for tg, lab in succ:
                        if lab[0] == "sw":
                            t = int(lab[1]) != 0
                        else:
                            t = 0 in [int(v) for v in lab[1]]
                        if t == r:
                            keep.append((tg, lab))
                    succ = keep
            for tg, lab in succ:
                nenv = dict(env)
                for var in an.phis.get(tg, ()):
                    if not var.startswith("v"):
                        continue
                    phi = ("phi", tg, var)
                    if phi not in self.relevant:
                        continue
                    val = self.ev(an.var_term(an.ver_out[b], var), env, LEN) if b in an.ver_out else None
                    if val is None:
                        nenv.pop(phi, None)
                    else:
                        nenv[phi] = val
                key = (tg, frozenset(nenv.items()))
                old = best.get(key, "none")
                if old == "none":
                    best[key] = vis
                    work.append((tg, nenv, vis))
                else:
                    new = vis if old is None else (old & vis)
                    if new != old:
                        best[key] = new
                        work.append((tg, nenv, new))
        return None


def relevant_phis(an, terms):
    out = set()

    def walk(t):
        if isinstance(t, tuple) and t:
            if t[0] == "phi" and len(t) == 3:
                out.add(t)
                return
            for x in t:
                if isinstance(x, tuple):
                    walk(x)
    for t in terms:
        walk(t)
    # phis feeding phis
    changed = True
    while changed:
        changed = False
        for phi in list(out):
            b, var = phi[1], phi[2]
            for p, _ in an.cfg.pred[b]:
                if p in an.ver_out:
                    before = len(out)
                    walk(an.var_term(an.ver_out[p], var))
                    changed = changed or len(out) != before
    return out


def arc_coverage(o, an, fx, A, visit_sites, rounds):
    """R2: visit_sites = [(block, index term)] inside the round loop driven by the Iterator::next event `rounds`"""
    cfg = an.cfg
    hb = cfg.loop_of(rounds["b"])
    body = cfg.loops.get(hb, set())
    res = rounds["res"]
    entry = None
    for x in body:
        evt = fx.ev_term.get(x)
        if evt is not None and evt["k"] == "switch" and evt["discr"][0] == "discr" and evt["discr"][1] == res:
            for tg, lab in cfg.succ[x]:
                if ("variant", res, "Some") in fx.edge_atoms(x, lab, tg):
                    entry = tg
    if not o.check(entry is not None, WHO, "R2-round-body", "the body of the round loop was not found"):
        return
    visits = {}
    conds = []
    for b, I in visit_sites:
        if b in body:
            visits.setdefault(b, []).append(I)
            conds.append(I)
    if not o.check(bool(visits), WHO, "R2-visits-in-round", "no arc is visited inside the round loop"):
        return
    for x in body:
        evt = fx.ev_term.get(x)
        if evt is not None and evt["k"] == "switch":
            conds.append(evt["discr"])
    sk = Skeleton(an, fx, A, visits, entry, leave_ok=set())
    sk.relevant = relevant_phis(an, conds)
    # the round ends when control returns to the header of the round loop or leaves it
    sk.leave_ok = {rounds["b"]} | {tg for x in body for tg, _ in cfg.succ[x] if tg not in body and tg in cfg.can_return}
    why = None
    for LEN in range(0, 13):
        why = sk.run(LEN)
        if why is not None:
            break
    o.check(why is None, WHO, "R2-every-arc-each-round", "a relaxation round does not visit every arc: %s" % why, rounds["span"])


# ---------------------------------------------------------------------------------------------------------------
def rule_relax_agree(crate, prop, tier):
    o = Obl("RELAX-AGREE")
    m = method_of(crate, S, "distances")
    if not o.check(m is not None, WHO, "exists", "BellmanFordMoore::distances not found"):
        return o.report(floors={"Bellman-Ford-Moore": (0, 1)})
    o.instances = 1
    an = crate.an(m)
    fx = crate.fx(m)
    units = find_units(crate, o, m)
    if not units:
        o.undecide(WHO, "R1-relax-sites", "no store of dist[tail] + w into dist[head] was found in distances() or its closures; "
                   "the relaxation is written in a way the rule does not interpret")
        return o.report(floors={"Bellman-Ford-Moore": (o.instances, 1)})
    o.check(True, WHO, "R1-relax-sites", "")
    # ---- arc visits in distances(): inline units and call sites of a relaxation closure
    visit_sites = []        # (block, index term) over the arcs container A
    A = None
    flag_sets = []          # per application: set of bool locals raised on the path
    closures = {u.an.path for u in units if u.an is not an}
    apps = []               # (block, T-in-parent, kind, payload)
    for u in units:
        if u.an is an:
            apps.append((u.ev["b"], u.T, "inline", u))
    for ev in an.events:
        if ev["k"] == "call" and ev["key"] in ("core::ops::function::Fn::call", "core::ops::function::FnMut::call_mut",
                                                 "core::ops::function::FnOnce::call_once") and len(ev["args"]) == 2:
            f0 = ev["args"][0]
            tgt = None
            if f0[0] == "addr":
                vals = [v for (var, ver), v in an.term_of.items() if var == f0[1] and v[0] == "agg" and v[1] == "closure"]
                if len(vals) == 1:
                    tgt = vals[0][2]
            elif f0[0] == "agg" and f0[1] == "closure":
                tgt = f0[2]
            if tgt in closures and ev["args"][1][0] == "agg":
                targs = ev["args"][1][3]
                cu = [u for u in units if u.an.path == tgt][0]
                if cu.T[0] == "argscalars":
                    _, tp_, hp_, wp_ = cu.T
                    comps = []
                    for par, want in ((tp_, 0), (hp_, 1), (wp_, 2)):
                        a_ = targs[par - 2] if 0 <= par - 2 < len(targs) else None
                        Tc, kc = arc_comp(a_) if a_ is not None else (None, None)
                        comps.append((Tc, kc == want))
                    same = len({c_[0] for c_ in comps}) == 1 and comps[0][0] is not None and all(c_[1] for c_ in comps)
                    if o.check(same, WHO, "R1-closure-args", "the relaxation closure is not applied to (tail, head, weight) of one arc", ev["span"]):
                        apps.append((ev["b"], comps[0][0], "call", ev))
                if (cu.T[0] == "argptr" and cu.T[1] - 2 < len(targs)) or cu.T[0] == "argscalars":
                    if cu.T[0] == "argptr":
                        apps.append((ev["b"], targs[cu.T[1] - 2], "call", ev))
                    # the dist parameter is self.dist
                    dreg = None
                    for u2 in units:
                        if u2.an.path == tgt:
                            c, _ = store_elem(u2.ev)
                            dreg = region_of_container(c) if c is not None else None
                            if dreg is None and u2.ev["addr"][2][1][0] == "arg":
                                dreg = "A%d" % u2.ev["addr"][2][1][1]
                    if dreg is not None and int(dreg[1:]) - 2 < len(targs):
                        from .core import strip_ref
                        dt = strip_ref(targs[int(dreg[1:]) - 2])
                        o.check(dt[0] == "at" and dt[1] == "A1.dist", WHO, "R1-closure-on-dist",
                                "the relaxation closure is not applied to self.dist", ev["span"])
    o.check(bool(apps), WHO, "R1-applied", "the relaxation is never applied in distances()")
    for b, T, kind, payload in apps:
        R, I = arc_index(T)
        if R is None:
            # item of `for arc in &arcs`
            continue
        A = R if A is None else A
        if not o.check(R == A, WHO, "R2-one-arc-list", "relaxations read arcs from different containers"):
            continue
        visit_sites.append((b, I))
    # the arc list the rounds run over is every arc of the digraph: collected from arcs_weighted() through adaptors that keep
    # every item (map, copied, cloned, inspect, enumerate), never through a restricting one
    IT_ = "core::iter::traits::iterator::Iterator::"
    KEEP = {IT_ + k for k in ("map", "copied", "cloned", "inspect", "enumerate", "by_ref", "peekable", "fuse")}
    for ev_c in an.events:
        if ev_c["k"] != "call" or ev_c["key"] != IT_ + "collect" or not ev_c["args"]:
            continue
        src = ev_c["args"][0]
        chain = []
        t_ = src
        while t_[0] == "call" and t_[1].startswith(IT_) and t_[3]:
            chain.append(t_[1])
            t_ = t_[3][0]
        if t_[0] == "call" and t_[1].endswith("ArcsWeighted::arcs_weighted"):
            bad = [k for k in chain if k not in KEEP]
            o.check(not bad, WHO, "R2-all-arcs-collected", "the arc list is collected from arcs_weighted() through %s: arcs are dropped "
                    "before the relaxation rounds and the detection pass ever see them" % ", ".join(k.split("::")[-1] for k in bad), ev_c["span"])
    # reads of arcs[I] anywhere in the body are visits too (the inline form reads before the data-dependent tests)
    if A is not None:
        def scan(t, b):
            if isinstance(t, tuple) and t:
                T, k = arc_comp(t)
                if T is not None:
                    R, I = arc_index(T)
                    if R == A:
                        visit_sites.append((b, I))
                for x in t:
                    if isinstance(x, tuple):
                        scan(x, b)
        for (b, i), t in an.stmt_terms.items():
            scan(t, b)
        for ev in an.events:
            for k in ("discr", "val"):
                if ev.get(k) is not None:
                    scan(ev[k], ev["b"])
    # ---- rounds: for _ in 1..order
    rounds = None
    detect = None
    for ev in an.events:
        if ev["k"] == "call" and ev["key"] == ITER_NEXT:
            d = fx.iter_desc(ev)
            if not d or d == "CYCLE":
                continue
            if d[0] == "agg" and d[2][0].endswith("ops::range::Range"):
                if d[3][0] == ("const", "usize", 1) and d[3][1][0] == "call" and d[3][1][1].endswith("Order::order"):
                    rounds = ev
                elif d[3][0] == ("const", "usize", 0) and d[3][1][0] == "len":
                    detect = (ev, "index")
            else:
                t = d
                while t[0] == "call" and t[1] in ("slice::iter", "core::ops::deref::Deref::deref") and t[3]:
                    t = t[3][0]
                if t[0] == "at" and A is not None and t[1] == A:
                    detect = (ev, "item")
    o.check(rounds is not None, WHO, "rounds", "the relaxation rounds are not `for _ in 1..order`")
    # ---- R2
    if rounds is not None and A is not None:
        arc_coverage(o, an, fx, A, visit_sites, rounds)
    elif rounds is not None:
        # relaxation over `for arc in &arcs` inside the round: a complete scan visits every arc
        inner = [ev for ev in an.events if ev["k"] == "call" and ev["key"] == ITER_NEXT and ev is not rounds
                 and ev["b"] in an.cfg.loops.get(an.cfg.loop_of(rounds["b"]), set())]
        okc = False
        for ev in inner:
            item = ("field", ("dc", ev["res"], "Some"), "0")
            if any(T == item for b, T, kind, payload in apps) and complete_scan(an, fx, ev):
                okc = True
        o.check(okc, WHO, "R2-every-arc-each-round", "a relaxation round does not visit every arc")
    # ---- R3 flag
    flagvars = None
    for b, T, kind, payload in apps:
        flags = set()
        if kind == "inline":
            sb = payload.ev["b"]
            for (bb, ii), t in an.stmt_terms.items():
                st = an.blocks[bb]["stmts"][ii]
                if not st["place"]["proj"] and const_is(t, 1) and an.locals[st["place"]["local"]]["ty"]["k"] == "bool" \
                        and same_region(an, sb, bb) and an.cfg.dominates(sb, bb):
                    flags.add(st["place"]["local"])
                elif not st["place"]["proj"] and an.locals[st["place"]["local"]]["ty"]["k"] == "bool" and t[0] == "bin" \
                        and t[1] in ("Lt", "Le") and \
                        fx.holds(sb, lambda rel, t=t: rel.lt(t[2], t[3]) if t[1] == "Lt" else rel.le(t[2], t[3])):
                    # `let improved = dist[v] > candidate; if improved { store }`: true whenever the store executes
                    flags.add(st["place"]["local"])
            o.check(bool(flags), WHO, "R3-sets-flag", "a relaxation store is not followed by setting the `changed` flag", payload.ev["span"])
        else:
            ev = payload
            # the closure returns true on the storing path ...
            cu = [u for u in units if u.an is not an and u.T[0] in ("argptr", "argscalars")]
            for u in cu:
                o.check(returns_true_after(u), WHO, "R3-sets-flag", "the relaxation closure does not report a store by returning true", u.ev["span"])
            # ... and the result is OR-ed into (or conditionally raises) a bool local
            for (bb, ii), t in an.stmt_terms.items():
                st = an.blocks[bb]["stmts"][ii]
                if st["place"]["proj"] or an.locals[st["place"]["local"]]["ty"]["k"] != "bool":
                    continue
                if t[0] == "bin" and t[1] == "BitOr" and ev["res"] in (t[2], t[3]):
                    flags.add(st["place"]["local"])
                if const_is(t, 1) and fx.holds(bb, lambda rel: rel.has(("true", ev["res"]))):
                    flags.add(st["place"]["local"])
            o.check(bool(flags), WHO, "R3-sets-flag", "the result of a relaxation is not recorded in the `changed` flag", ev["span"])
        # a flag raised in an (inlined) helper travels on: `updated |= result`, `result = updated`
        grew = True
        while grew:
            grew = False
            for (bb, ii), t in an.stmt_terms.items():
                st = an.blocks[bb]["stmts"][ii]
                L_ = st["place"]["local"]
                if st["place"]["proj"] or L_ in flags or an.locals[L_]["ty"]["k"] != "bool":
                    continue
                srcs = [t[2], t[3]] if (t[0] == "bin" and t[1] == "BitOr") else [t]
                for x in srcs:
                    ok_ = False
                    if x[0] == "phi" and len(x) == 3 and x[2].startswith("v"):
                        ok_ = int(x[2][1:]) in flags
                    if ok_:
                        flags.add(L_)
                        grew = True
                        break
        flagvars = flags if flagvars is None else (flagvars & flags)
    if flagvars:
        cands_ = sorted(flagvars)
        fl = cands_[0]
        for c_ in cands_:
            t_ = any(ev["k"] == "switch" and ((ev["discr"][0] == "phi" and ev["discr"][2] == "v%d" % c_) or
                                              (ev["discr"][0] == "un" and ev["discr"][2][0] == "phi" and ev["discr"][2][2] == "v%d" % c_))
                     for ev in an.events)
            if t_:
                fl = c_
        # the flag that is reset may be an earlier link of the chain (updated) than the one that is tested (the helper's result)
        tested = any(ev["k"] == "switch" and _mentions(ev["discr"], ("phi", ev["discr"][1], "v%d" % fl) if ev["discr"][0] == "phi" else ())
                     or (ev["k"] == "switch" and ev["discr"][0] == "phi" and ev["discr"][2] == "v%d" % fl)
                     or (ev["k"] == "switch" and ev["discr"][0] == "un" and ev["discr"][2][0] == "phi" and ev["discr"][2][2] == "v%d" % fl)
                     for ev in an.events)
        reset = any(const_is(t, 0) and an.blocks[bb]["stmts"][ii]["place"]["local"] in flagvars and not an.blocks[bb]["stmts"][ii]["place"]["proj"]
                    for (bb, ii), t in an.stmt_terms.items())
        o.check(tested, WHO, "R3-flag-tested", "the `changed` flag is never tested")
        o.check(reset, WHO, "R3-flag-reset", "the `changed` flag is not reset at the start of a round")
    elif apps:
        o.check(False, WHO, "R3-one-flag", "the relaxations do not raise one common `changed` flag")
    # ---- R4 detection pass
    if detect is None:
        # without a recognised final pass: a `None` that no strict comparison `dist[..] > sum` dominates is not evidence
        # of a negative circuit (e.g. "the last round still changed something")
        nones0 = []
        for (bb, ii), t in an.stmt_terms.items():
            st = an.blocks[bb]["stmts"][ii]
            if st["place"]["local"] == 0 and not st["place"]["proj"] and t[0] == "agg" and t[1] == "adt" and t[2][1] == "None":
                nones0.append((bb, st["span"]))
        weak = [(bb, sp) for bb, sp in nones0 if not fx.holds(bb, lambda rel: any(
            a[0] == "lt" and a[2][0] == "mem" and load_parts(a[2])[0] == "A1.dist" and sum_parts(a[1]) for a in rel.w))
            and not _none_under_any_pass(crate, an, fx, bb)]
        for bb, sp in weak:
            o.check(False, WHO, "R4-strict-detection", "None is returned without a dominating strict test dist[head] > dist[tail] + w "
                    "on an arc (there is no final pass over the arcs)", sp)
        if not weak:
            o.undecide(WHO, "R4-detection-loop", "no final pass over the arcs (0..arcs_len or `for arc in &arcs`) was recognised")
    else:
        dev, dkind = detect
        o.check(True, WHO, "R4-detection-loop", "")
        item = ("field", ("dc", dev["res"], "Some"), "0")
        nones, somes = [], []
        for (bb, ii), t in an.stmt_terms.items():
            st = an.blocks[bb]["stmts"][ii]
            if st["place"]["local"] == 0 and not st["place"]["proj"] and t[0] == "agg" and t[1] == "adt":
                (nones if t[2][1] == "None" else somes).append((bb, t, st["span"]))
        o.check(len(nones) >= 1, WHO, "R4-none-exists", "distances() never reports a negative circuit")
        for bb, t, sp in nones:
            def strict(rel):
                for a in rel.w:
                    if a[0] == "lt" and a[2][0] == "mem":
                        r, v = load_parts(a[2])
                        T, k = arc_comp(v) if v else (None, None)
                        xy = sum_parts(a[1])
                        if r != "A1.dist" or k != 1 or not xy:
                            continue
                        if dkind == "index":
                            R, I = arc_index(T)
                            if I != item:
                                continue
                        elif T != item:
                            continue
                        # the sum is dist[tail] + w of the same arc
                        for x, y in (xy, xy[::-1]):
                            r2, ui = load_parts(x)
                            T2, k2 = arc_comp(ui) if ui else (None, None)
                            ws = []
                            deep_arc_terms(y, ws)
                            if r2 == "A1.dist" and T2 == T and k2 == 0 and (T, 2) in ws:
                                return True
                return False
            o.check(fx.holds(bb, strict), WHO, "R4-strict-detection",
                    "None is returned without a dominating strict test dist[head] > dist[tail] + w on an arc of the final pass", sp)

            def reached(rel):
                return any(a[0] == "ne" and ("const", "isize", IMAX) in a[1:] for a in rel.w)
            o.check(fx.holds(bb, reached), WHO, "R4-unreached-guard", "the final pass does not skip unreached tails", sp)
            # nothing else may stand between an improvable arc and the report
            from .schema import extra_conditions

            class _T:
                pass
            t_ = _T()
            t_.an, t_.fx = an, fx

            def allowed(a):
                if a[0] == "ne" and ("const", "isize", IMAX) in a[1:]:
                    return True
                if a[0] in ("lt", "le") and sum_parts(a[1]) and a[2][0] == "mem":
                    return True
                if a[0] in ("lt", "le") and (a[1][0] == "len" or a[2][0] == "len"):
                    return True
                return False
            extra = extra_conditions(t_, {"ev": dev}, bb, allowed)
            o.check(not extra, WHO, "R4-detection-condition", "a negative circuit is reported only under a further condition (%s): an improvable "
                    "arc that does not meet it goes unreported" % ", ".join(str(a[0]) for a in extra[:3]), sp)
        for bb, t, sp in somes:
            o.check(fx.holds(bb, lambda rel: rel.variant(dev["res"]) == "None"), WHO, "R4-some-after-full-pass",
                    "Some(distances) is returned before the final pass has examined every arc", sp)
    # ---- R5 constructor
    c = ctor_of(crate, S)
    if o.check(c is not None, WHO, "R5-ctor", "BellmanFordMoore::new not found"):
        can = crate.an(c)
        cfx = crate.fx(c)
        lit, lb = literal_of(crate, can, S)
        from .relax import _dist_by_map
        if lit is not None and _dist_by_map(crate, can, lit["dist"]):
            # dist = (0..order).map(|u| if u == s { 0 } else { isize::MAX }).collect()
            o.check(True, WHO, "R5-literal", "")
            o.check(True, WHO, "R5-fill-max", "")
            o.check(True, WHO, "R5-source-zero", "")
        elif o.check(lit is not None, WHO, "R5-literal", "new builds no literal"):
            dv = lit["dist"]
            if dv[0] == "mem" and dv[3] is None:
                # the vector was written to after its creation: take the value it was created with
                vals = [v for (var, ver), v in can.term_of.items() if var == dv[1] and v[0] == "call"]
                if len(vals) == 1:
                    dv = vals[0]
            o.check(dv[0] == "call" and dv[1] == "alloc::vec::from_elem" and const_is(dv[3][0], IMAX), WHO, "R5-fill-max",
                    "dist[] is not pre-filled with isize::MAX")
            zero = False
            for ev in can.events:
                if ev["k"] == "store":
                    cc, i = store_elem(ev)
                    if i == ("arg", 2) and const_is(ev["val"], 0):
                        zero = True
                        n = dv[3][1] if dv[0] == "call" else None
                        o.check(n is not None and cfx.holds(ev["b"], lambda rel: rel.lt(("arg", 2), n)), WHO, "R5-source-in-range",
                                "dist[s] = 0 without a dominating s < order", ev["span"])
            o.check(zero, WHO, "R5-source-zero", "dist[s] is not set to 0")
    return o.report(floors={"Bellman-Ford-Moore": (o.instances, 1), "relaxation sites": (len(units), 1)})


def _none_under_any_pass(crate, an, fx, bb):
    """the None at block bb is returned exactly when `arcs.iter().any(|&(u, v, w)| dist[u] != MAX && dist[v] > dist[u] + w)`
    found an arc: the closure can return true only under the unreached guard and the strict test on one arc"""
    from .closures import capture_map
    IT = "core::iter::traits::iterator::Iterator::"
    for ev in an.events:
        if ev["k"] != "call" or ev["key"] != IT + "any" or len(ev["args"]) != 2:
            continue
        clo = ev["args"][1]
        if not (clo[0] == "agg" and clo[1] == "closure"):
            continue
        if not fx.holds(bb, lambda rel: rel.has(("true", ev["res"]))):
            continue
        cl = crate.an(clo[2])
        cfx = crate.fx(clo[2])
        rets = [e for e in cl.events if e["k"] == "return"]
        if len(rets) != 1:
            continue
        rv = rets[0]["val"]
        ok_all = True
        n = 0
        for w in cfx.worlds_at(rets[0]["b"]):
            w = set(w)
            if rv[0] == "phi" and (any(a[0] == "eq" and rv in a[1:] and ("const", "bool", 0) in a[1:] for a in w) or ("false", rv) in w):
                continue        # a path that returns false
            n += 1
            strict = guard = False
            cand = [a for a in w if a[0] == "lt"]
            if rv[0] == "bin" and rv[1] == "Lt":
                cand.append(("lt", rv[2], rv[3]))
            for a in w:
                if a[0] == "ne" and ("const", "isize", IMAX) in a[1:]:
                    guard = True
                if a[0] == "eq" and rv in a[1:]:
                    oth = a[2] if a[1] == rv else a[1]
                    if oth[0] == "bin" and oth[1] == "Lt":
                        cand.append(("lt", oth[2], oth[3]))
            for a in cand:
                xy = sum_parts(a[1])
                if xy and a[2][0] == "mem":
                    ws = []
                    deep_arc_terms(a[1], ws)
                    hT, hk = None, None
                    r_, hi = dist_load(cl, a[2], True)
                    if hi is None:
                        r_, hi = load_parts(a[2])
                    hT, hk = arc_comp(hi) if hi else (None, None)
                    if hT is not None and hk == 1 and (hT, 0) in [(t_, k_) for t_, k_ in _tail_arcs(cl, a[1])] and (hT, 2) in ws:
                        strict = True
            ok_all = ok_all and strict and guard
        if n and ok_all:
            return True
    return False


def _tail_arcs(cl, summ):
    """arc components used as index of a dist load inside the sum"""
    out = []

    def walk(t):
        if isinstance(t, tuple) and t:
            if t[0] == "mem" and t[3] is not None:
                r, i = dist_load(cl, t, True)
                if i is None:
                    r, i = load_parts(t)
                if i is not None:
                    T, k = arc_comp(i)
                    if T is not None:
                        out.append((T, k))
            for x in t:
                if isinstance(x, tuple):
                    walk(x)
    walk(summ)
    return out


def returns_true_after(u):
    """the closure's return value is `true` on every path from the storing block to the return"""
    an = u.an
    sb = u.ev["b"]
    rets = [ev for ev in an.events if ev["k"] == "return"]
    if len(rets) != 1:
        return False
    rb = rets[0]["b"]
    if 0 in an.mem_locals:
        return False
    seen = set()
    work = [(sb, None)]
    ok = False
    while work:
        b, came = work.pop()
        if (b, came) in seen:
            continue
        seen.add((b, came))
        if b == rb:
            # value of the return place when the return block is entered from `came`
            val = rets[0]["val"]
            if val[0] == "phi" and val[1] == rb and came is not None:
                val = an.var_term(an.ver_out[came], val[2])
            val = resolve_phi_along(an, val, seen_edges=[x for x in seen])
            if not const_is(val, 1):
                # `let improved = dist[v] > candidate; if improved { store } improved`: the returned value is the very
                # condition under which the store happens
                fx_ = u.fx
                known = fx_.holds(sb, lambda rel: rel.has(("true", val)) or
                                  (val[0] == "bin" and val[1] == "Lt" and rel.lt(val[2], val[3])) or
                                  (val[0] == "bin" and val[1] == "Le" and rel.le(val[2], val[3])))
                if not known:
                    return False
            ok = True
            continue
        for tg, lab in an.cfg.succ[b]:
            if tg in an.cfg.can_return:
                work.append((tg, b))
    return ok


def resolve_phi_along(an, val, seen_edges):
    """resolve a chain of phis using the (block, predecessor) pairs that were actually traversed"""
    came = {}
    for b, p in seen_edges:
        if p is not None:
            came.setdefault(b, set()).add(p)
    depth = 0
    while val[0] == "phi" and len(val) == 3 and depth < 8:
        b, var = val[1], val[2]
        ins = {an.var_term(an.ver_out[p], var) for p in came.get(b, ()) if p in an.ver_out}
        if len(ins) != 1:
            return val
        val = next(iter(ins))
        depth += 1
    return val
