"""DEFN: derived queries and predicates agree with their definition over the primitive queries
(C02, C12).  The value of a small boolean function is recovered as a truth table over its pure call
atoms (has_arc(..), is_sink(..), ...) by enumerating the fact worlds at every assignment of the
return place, so the check does not depend on how the expression is written (&&, if/else, match,
early return).  Numeric definitions are compared through their closed accessor summaries."""
import itertools
from .schema import Obl
from .report import span_s

HAS_ARC = "graaf::op::has_arc::HasArc::has_arc"
HAS_EDGE = "graaf::op::has_edge::HasEdge::has_edge"


def ret_defs(an):
    """[(block, value term, span)] for every definition of the return place"""
    out = []
    for (b, i), t in an.stmt_terms.items():
        st = an.blocks[b]["stmts"][i]
        if st["place"]["local"] == 0 and not st["place"]["proj"]:
            out.append((b, t, st["span"], False))
    for ev in an.events:
        if ev["k"] == "call":
            d = an.blocks[ev["b"]]["term"]["dest"]
            if d["local"] == 0 and not d["proj"] and not ev["diverges"]:
                # the value is available in the successor block; facts of the call block apply
                out.append((ev["b"], ev["res"], ev["span"], True))
    return out


def atoms_in(t, keys, out):
    if isinstance(t, tuple) and t:
        if (t[0] == "call" and t[1] in keys) or (t[0] == "site" and t[2] in keys):
            out.add(t)
            return
        for x in t:
            if isinstance(x, tuple):
                atoms_in(x, keys, out)


def eval_bool(t, asg):
    """value of boolean term t under the assignment atom -> bool; None when not evaluable"""
    if t in asg:
        return asg[t]
    if t[0] == "const" and t[1] == "bool":
        return bool(t[2])
    if t[0] == "un" and t[1] == "Not":
        v = eval_bool(t[2], asg)
        return None if v is None else not v
    if t[0] == "bin" and t[1] in ("BitXor", "BitAnd", "BitOr", "Eq", "Ne"):
        a, b = eval_bool(t[2], asg), eval_bool(t[3], asg)
        if a is None or b is None:
            return None
        return {"BitXor": a != b, "BitAnd": a and b, "BitOr": a or b, "Eq": a == b, "Ne": a != b}[t[1]]
    return None


def truth_table(crate, an, keys):
    """(atoms, table) where table maps each total assignment (tuple of bools, in atom order) to the
    returned bool; None when the body is not a boolean function of pure call atoms"""
    fx = crate.fx(an.path)
    defs = ret_defs(an)
    if not defs:
        return None, "no definition of the return value"
    atoms = set()
    for b, t, sp, _ in defs:
        atoms_in(t, keys, atoms)
        for w in fx.worlds_at(b):
            for a in w:
                if a[0] in ("true", "false"):
                    atoms_in(a[1], keys, atoms)
    atoms = sorted(atoms, key=repr)
    if not atoms or len(atoms) > 4:
        return None, "%d atoms" % len(atoms)
    table = {}
    for b, t, sp, _ in defs:
        for w in fx.worlds_at(b):
            fixed = {}
            for a in w:
                if a[0] in ("true", "false") and a[1] in atoms:
                    fixed[a[1]] = a[0] == "true"
            free = [x for x in atoms if x not in fixed]
            for vals in itertools.product([False, True], repeat=len(free)):
                asg = dict(fixed)
                asg.update(zip(free, vals))
                v = eval_bool(t, asg)
                if v is None:
                    return None, "return value is not a boolean function of the atoms"
                key = tuple(asg[x] for x in atoms)
                if key in table and table[key] != v:
                    # a later definition on the same path overrides; keep both out: ambiguous
                    return None, "ambiguous value for one assignment"
                table[key] = v
    if len(table) != 2 ** len(atoms):
        return None, "not every assignment of the atoms is covered"
    return atoms, table


def swapped_pair(atoms):
    """two atoms `f(self, p, q)` and `f(self, q, p)` with p != q"""
    if len(atoms) != 2:
        return False
    a, b = atoms
    return a[1] == b[1] and len(a[3]) == 3 and a[3][0] == b[3][0] and a[3][1] == b[3][2] and a[3][2] == b[3][1] \
        and a[3][1] != a[3][2]


FUNCS = {"and": lambda a, b: a and b, "or": lambda a, b: a or b, "xor": lambda a, b: a != b}


def impl_fns(crate, trait, name):
    return [p for p in crate.fn_paths() if crate.prog.fns[p].get("impl_trait") == trait
            and crate.prog.fns[p].get("name") == name and crate.prog.fns[p]["kind"] != "Closure"]


def family_bodies(crate, root):
    return [p for p in crate.fn_paths() if crate.prog.fns[p].get("root") == root or p == root]


def rule_defn(which):
    def f(crate, prop, tier):
        o = Obl("DEFN")
        o.undecided = []
        prog = crate.prog
        if which == "queries":
            # has_edge(u, v) <=> has_arc(u, v) and has_arc(v, u)
            for p in impl_fns(crate, "graaf::op::has_edge::HasEdge", "has_edge"):
                o.instances += 1
                an = crate.an(p)
                atoms, table = truth_table(crate, an, {HAS_ARC})
                who = prog.pretty[p]
                if atoms is None:
                    # not written as a function of has_arc alone (e.g. direct container lookups): not decided here
                    o.undecided.append((who, table))
                    continue
                ok = swapped_pair(atoms) and atoms[0][3][1:] in ((("arg", 2), ("arg", 3)), (("arg", 3), ("arg", 2))) and \
                    all(table[k] == (k[0] and k[1]) for k in table)
                o.check(ok, who, "has-edge-definition", "has_edge(u, v) is not has_arc(u, v) && has_arc(v, u)", prog.fns[p]["span"])
            # numeric / simple definitions through summaries
            specs = [
                ("graaf::op::degree::Degree", "degree", lambda t: t[0] == "bin" and t[1] == "Add" and
                 {t[2][1], t[3][1]} == {"graaf::op::indegree::Indegree::indegree", "graaf::op::outdegree::Outdegree::outdegree"}
                 and t[2][3][1:] == (("arg", 2),) and t[3][3][1:] == (("arg", 2),), "degree(u) is not indegree(u) + outdegree(u)"),
                ("graaf::op::is_pendant::IsPendant", "is_pendant", lambda t: t[0] == "bin" and t[1] == "Eq" and
                 any(x[0] == "call" and x[1] == "graaf::op::degree::Degree::degree" for x in (t[2], t[3])) and
                 any(x == ("const", "usize", 1) for x in (t[2], t[3])), "is_pendant(u) is not degree(u) == 1"),
            ]
            for trait, name, pred, msg in specs:
                for p in impl_fns(crate, trait, name):
                    summ = prog.summaries.get(p)
                    if summ is None or not simple_over(summ[0], DEF_KEYS[name]):
                        o.undecided.append((prog.pretty[p], "not one expression over " + "/".join(k.split("::")[-1] for k in DEF_KEYS[name])))
                        continue
                    o.instances += 1
                    o.check(pred(summ[0]), prog.pretty[p], name + "-definition", msg, prog.fns[p]["span"])
            # trait default bodies
            for path, name, key in (("graaf::op::outdegree::Outdegree::is_sink", "is_sink", "graaf::op::outdegree::Outdegree::outdegree"),
                                    ("graaf::op::indegree::Indegree::is_source", "is_source", "graaf::op::indegree::Indegree::indegree")):
                if path in prog.fns:
                    summ = prog.summaries.get(path)
                    if summ is None or not simple_over(summ[0], {key}):
                        o.undecided.append((prog.pretty[path], "not one expression over " + key.split("::")[-1]))
                        continue
                    o.instances += 1
                    t = summ[0]
                    ok = t is not None and t[0] == "bin" and t[1] == "Eq" and \
                        any(x[0] == "call" and x[1] == key and x[3][1:] == (("arg", 2),) for x in (t[2], t[3])) and \
                        any(x == ("const", "usize", 0) for x in (t[2], t[3]))
                    o.check(ok, prog.pretty[path], name + "-default", "default %s(u) is not %s(u) == 0" % (name, key.split("::")[-1]), prog.fns[path]["span"])
            # is_isolated(u) <=> is_sink(u) and is_source(u)
            for p in impl_fns(crate, "graaf::op::is_isolated::IsIsolated", "is_isolated"):
                o.instances += 1
                an = crate.an(p)
                keys = {"graaf::op::outdegree::Outdegree::is_sink", "graaf::op::indegree::Indegree::is_source"}
                atoms, table = truth_table(crate, an, keys)
                ok = atoms is not None and len(atoms) == 2 and {a[1] for a in atoms} == keys and \
                    all(a[3][1:] == (("arg", 2),) for a in atoms) and all(table[k] == (k[0] and k[1]) for k in table)
                o.check(ok, prog.pretty[p], "is-isolated-definition", "is_isolated(u) is not is_sink(u) && is_source(u)", prog.fns[p]["span"])
            closure_defs(crate, o, QUERY_CLOSURES)
            size_shortcuts(crate, o, SHORTCUT_QUERIES)
            for p in impl_fns(crate, "graaf::op::has_walk::HasWalk", "has_walk"):
                walk_clause(crate, o, p)
            return o.report(floors={"derived query definitions": (o.instances, 4)}, note=undecided_note(o))
        # predicates -----------------------------------------------------------------
        pairs = (("graaf::op::is_semicomplete::IsSemicomplete", "is_semicomplete", "or"),
                 ("graaf::op::is_tournament::IsTournament", "is_tournament", "xor"))
        for trait, name, fn in pairs:
            for p in impl_fns(crate, trait, name):
                before = o.instances
                for bp in family_bodies(crate, p):
                    if prog.fns[bp]["kind"] != "Closure":
                        continue
                    an = crate.an(bp)
                    atoms, table = truth_table(crate, an, {HAS_ARC})
                    if atoms is None or not swapped_pair(atoms):
                        if bp == family_bodies(crate, p)[-1] and o.instances == before:
                            o.undecided.append((prog.pretty[p], "no pair test written over has_arc(u, v) / has_arc(v, u)"))
                        continue
                    ckey = consumer_of(crate, prog.fns[bp].get("parent"), bp)[0]
                    if ckey != IT + "all":
                        o.undecided.append((prog.pretty[bp], "pair test consumed by %s, not all()" % (ckey or "?").split("::")[-1]))
                        continue
                    o.instances += 1
                    ok = all(table[k] == FUNCS[fn](k[0], k[1]) for k in table)
                    o.check(ok, prog.pretty[bp], name + "-pair-predicate",
                            "the pair test of %s is not has_arc(u, v) %s has_arc(v, u)" % (name, {"or": "||", "xor": "^"}[fn]), prog.fns[bp]["span"])
                    # the pair scan: inner closure over (u+1)..order consumed by all(), outer over 0..order
                    o.check(pair_scan(crate, bp), prog.pretty[bp], name + "-pair-scan",
                            "the pair test is not applied to every pair u < v < order through all()", prog.fns[bp]["span"])
        # is_symmetric / is_oriented closures
        for trait, name, neg in (("graaf::op::is_symmetric::IsSymmetric", "is_symmetric", False),
                                 ("graaf::op::is_oriented::IsOriented", "is_oriented", True)):
            for p in impl_fns(crate, trait, name):
                for bp in family_bodies(crate, p):
                    if prog.fns[bp]["kind"] != "Closure":
                        continue
                    an = crate.an(bp)
                    atoms, table = truth_table(crate, an, {HAS_ARC})
                    if atoms is None or len(atoms) != 1:
                        continue
                    a = atoms[0]
                    rev = a[3][1:] in ((("field", ("arg", 2), "1"), ("field", ("arg", 2), "0")),
                                       (("mem", "A2.1", ("e",), None), ("mem", "A2.0", ("e",), None)))
                    ckey, csrc, cb = consumer_of(crate, prog.fns[bp].get("parent"), bp)
                    pol = consumer_polarity(crate, prog.fns[bp].get("parent"), ckey, cb)
                    if pol is None:
                        o.undecided.append((prog.pretty[bp], "arc test consumed by %s in a form the rule does not interpret" % (ckey or "?").split("::")[-1]))
                        continue
                    o.instances += 1
                    want_true = (not neg) if pol else neg      # value the closure must have when has_arc(v, u) holds
                    val = table[(True,)] == want_true and table[(False,)] == (not want_true)
                    o.check(rev and val, prog.pretty[bp], name + "-definition",
                            "%s does not test %shas_arc(v, u) for every arc (u, v)" % (name, "!" if neg else ""), prog.fns[bp]["span"])
        # pairwise predicates cannot be decided from counts: two digraphs with the same order, size and degree sequences can
        # differ in them, so an implementation that reads nothing but counts is wrong for some input
        COUNTS = {"indegree", "outdegree", "degree", "size", "order", "contiguous_order", "degree_sequence", "indegree_sequence",
                  "outdegree_sequence", "semidegree_sequence", "max_degree", "max_indegree", "max_outdegree", "min_degree",
                  "min_indegree", "min_outdegree", "vertices", "is_sink", "is_source", "is_isolated", "is_pendant", "sinks", "sources"}
        OUT_COUNTS = {"outdegree", "size", "order", "contiguous_order", "outdegree_sequence", "max_outdegree", "min_outdegree",
                      "vertices", "is_sink", "sinks"}
        for trait, name in (("graaf::op::is_tournament::IsTournament", "is_tournament"),
                            ("graaf::op::is_semicomplete::IsSemicomplete", "is_semicomplete"),
                            ("graaf::op::is_symmetric::IsSymmetric", "is_symmetric"),
                            ("graaf::op::is_oriented::IsOriented", "is_oriented"),
                            ("graaf::op::is_regular::IsRegular", "is_regular"),
                            ("graaf::op::is_balanced::IsBalanced", "is_balanced")):
            for p in impl_fns(crate, trait, name):
                reads_adj = False
                counts = []
                allowed = OUT_COUNTS if name in ("is_regular", "is_balanced") else COUNTS
                for bp in family_bodies(crate, p):
                    an = crate.an(bp)
                    for ev in an.events:
                        if ev["k"] == "call" and ev["key"]:
                            k = ev["key"]
                            if k.startswith("graaf::op::") or k.startswith("graaf::repr::") or k.startswith("graaf::gen::"):
                                if k.split("::")[-1] in allowed:
                                    counts.append(ev)
                                else:
                                    reads_adj = True
                            elif _reads_adjacency_content(ev):
                                reads_adj = True
                    if _touches_fields(an, ("A1.arcs#", "A1.blocks#", "A1.arcs*", "A1.arcs.")):
                        reads_adj = True
                if counts and not reads_adj:
                    o.instances += 1
                    if name in ("is_regular", "is_balanced"):
                        o.check(False, prog.pretty[p], name + "-from-counts", "%s is decided from order / size / outdegrees (row lengths) alone: "
                                "no indegree and no head of any arc is ever read, but digraphs with equal outdegrees can differ in their "
                                "indegrees" % name, counts[0]["span"])
                    else:
                        o.check(False, prog.pretty[p], name + "-from-counts", "%s is decided from order / size / degree counts alone; digraphs with "
                                "equal counts can differ in it (the adjacency of no pair of vertices is ever read)" % name, counts[0]["span"])
        size_precheck_formulas(crate, o)
        size_shortcuts(crate, o, SHORTCUT_PREDS)
        closure_defs(crate, o, PRED_CLOSURES)
        # is_subdigraph: V(self) must be tested for membership in V(d)
        for p in impl_fns(crate, "graaf::op::is_subdigraph::IsSubdigraph", "is_subdigraph"):
            o.instances += 1
            o.check(vertex_subset_tested(crate, p), prog.pretty[p], "is-subdigraph-vertex-subset",
                    "is_subdigraph never tests a vertex of self for membership in the vertex set of d (V(self) must be a subset of V(d))",
                    prog.fns[p]["span"])
        # is_spanning_subdigraph: V(self) = V(d) must be decided length-sensitively
        for p in impl_fns(crate, "graaf::op::is_spanning_subdigraph::IsSpanningSubdigraph", "is_spanning_subdigraph"):
            an = crate.an(p)

            def is_vertices_of(t, n):
                while t[0] == "call" and t[3] and t[1] in (IT + "by_ref", "core::iter::traits::collect::IntoIterator::into_iter"):
                    t = t[3][0]
                return t[0] == "call" and t[1] == VERTICES and len(t[3]) == 1 and t[3][0][0] == "at" and t[3][0][1] == "A%d" % n
            zips = [ev for ev in an.events if ev["k"] == "call" and ev["key"] == IT + "zip" and len(ev["args"]) == 2
                    and ((is_vertices_of(ev["args"][0], 1) and is_vertices_of(ev["args"][1], 2))
                         or (is_vertices_of(ev["args"][0], 2) and is_vertices_of(ev["args"][1], 1)))]
            if zips:
                o.instances += 1
                o.check(False, prog.pretty[p], "spanning-vertex-sets-equal", "the two vertex sequences are compared through zip(), which stops "
                        "at the shorter one: a digraph whose vertex list is a proper prefix of the other's is accepted as spanning "
                        "(Iterator::eq compares the lengths as well)", zips[0]["span"])
        # is_superdigraph(d) = d.is_subdigraph(self)
        for p in impl_fns(crate, "graaf::op::is_superdigraph::IsSuperdigraph", "is_superdigraph"):
            summ = prog.summaries.get(p)
            if summ is None or not simple_over(summ[0], {"graaf::op::is_subdigraph::IsSubdigraph::is_subdigraph"}):
                o.undecided.append((prog.pretty[p], "not one call of is_subdigraph"))
                continue
            o.instances += 1
            t = summ[0]
            ok = t is not None and t[0] == "call" and t[1] == "graaf::op::is_subdigraph::IsSubdigraph::is_subdigraph" and \
                [x[1] for x in t[3] if x[0] == "at"] == ["A2", "A1"]
            o.check(ok, prog.pretty[p], "is-superdigraph-definition", "is_superdigraph(d) is not d.is_subdigraph(self)", prog.fns[p]["span"])
        return o.report(floors={"predicate definitions": (o.instances, 4)}, note=undecided_note(o))
    return f


DEF_KEYS = {"degree": {"graaf::op::indegree::Indegree::indegree", "graaf::op::outdegree::Outdegree::outdegree"},
            "is_pendant": {"graaf::op::degree::Degree::degree"}}


def simple_over(t, keys):
    """t is an operator tree whose leaves are constants and calls of `keys` only, with at least one such call"""
    n = [0]

    def rec(x):
        if x[0] == "call":
            if x[1] in keys:
                n[0] += 1
                return True
            return False
        if x[0] in ("const", "constx"):
            return True
        if x[0] == "bin":
            return rec(x[2]) and rec(x[3])
        if x[0] == "un":
            return rec(x[2])
        return False
    return rec(t) and n[0] > 0


def undecided_note(o):
    if not o.undecided:
        return "every anchored definition was written over the primitive queries and was decided"
    return "not decided (not written over the primitive queries): " + "; ".join("%s [%s]" % u for u in o.undecided)


def vertex_subset_tested(crate, p):
    """somewhere in the family of is_subdigraph a membership test (contains / is_subset / binary_search / an equality
    inside any / find / position) is applied to a value derived from d.vertices() (d = argument 2)"""
    from .closures import capture_map
    prog = crate.prog
    an = crate.an(p)
    fam = [p] + [q for q in crate.fn_paths() if prog.fns[q].get("root") == p and q != p]
    # locals of the root that hold something made from vertices(d)
    dv_locals = set()

    def from_dvertices(t):
        if isinstance(t, tuple) and t:
            if t[0] == "call" and t[1] == VERTICES and t[3] and t[3][0][0] == "at" and t[3][0][1] == "A2":
                return True
            return any(from_dvertices(x) for x in t if isinstance(x, tuple))
        return False
    for ev in an.events:
        if ev["k"] == "call" and ev["args"] and any(from_dvertices(a) for a in ev["args"]):
            mode, name, vp = an.walk_place(an.blocks[ev["b"]]["term"]["dest"])
            if mode == "mem":
                dv_locals.add(name)
    MEMBER = ("::contains", "::is_subset", "::is_superset", "::binary_search", "::contains_key")
    for q in fam:
        qa = crate.an(q)
        regs = set(dv_locals) if q == p else set()
        if q != p:
            cm = capture_map(crate, qa)
            if cm is not None:
                regs = {cr for pr, cr in cm.regmap if pr in dv_locals}
        for ev in qa.events:
            if ev["k"] != "call" or not ev["key"]:
                continue
            if ev["key"].endswith(MEMBER):
                for a in ev["args"]:
                    r = a[1] if a[0] in ("at", "addr") else qa.region_of_pointer(a)
                    if r in regs or from_dvertices(a):
                        return True
            if ev["key"].endswith(("Iterator::any", "Iterator::find", "Iterator::position", "Iterator::all")) and ev["args"] \
                    and from_dvertices(ev["args"][0]) and ev["key"].endswith(("any", "find", "position")):
                return True
    return False


IN = "graaf::op::indegree::Indegree::indegree"
OUT = "graaf::op::outdegree::Outdegree::outdegree"
IS_SINK = "graaf::op::outdegree::Outdegree::is_sink"
IS_SOURCE = "graaf::op::indegree::Indegree::is_source"
VERTICES = "graaf::op::vertices::Vertices::vertices"
ARCS = "graaf::op::arcs::Arcs::arcs"
IT = "core::iter::traits::iterator::Iterator::"


def is_param(t, comp=None):
    """t is the closure parameter (or component `comp` of a tuple parameter), taken by value or by pattern"""
    if comp is None:
        return t in (("arg", 2), ("mem", "A2", ("e",), None))
    return t in (("field", ("arg", 2), comp), ("mem", "A2." + comp, ("e",), None),
                 ("field", ("mem", "A2", ("e",), None), comp))


def recv_arg(crate, cpath, recv):
    """number of the parent argument the receiver `recv` of a call inside closure cpath was captured from"""
    from .closures import capture_map
    if not (isinstance(recv, tuple) and recv and recv[0] == "at"):
        return None
    cm = capture_map(crate, crate.an(cpath))
    if cm is None:
        return None
    for k, v in cm.val.items():
        reg = crate.an(cpath).region_of_pointer(v)
        if reg == recv[1] and k < len(cm.ops):
            op = cm.ops[k]
            if op[0] == "arg":
                return op[1]
            return None
    return None


def unary(key, comps=(None,)):
    def pred(crate, cpath, t, recv_no):
        return t[0] == "call" and t[1] == key and len(t[3]) == 1 + len(comps) and \
            recv_arg(crate, cpath, t[3][0]) == recv_no and all(is_param(a, c) for a, c in zip(t[3][1:], comps))
    return pred


def v_eq(a, b):
    def pred(crate, cpath, t, recv_no):
        return t[0] == "bin" and t[1] == "Eq" and ((a(crate, cpath, t[2], recv_no) and b(crate, cpath, t[3], recv_no)) or
                                                 (a(crate, cpath, t[3], recv_no) and b(crate, cpath, t[2], recv_no)))
    return pred


def v_tuple(*ps):
    def pred(crate, cpath, t, recv_no):
        return t[0] == "agg" and t[1] == "tuple" and len(t[3]) == len(ps) and all(p(crate, cpath, x, recv_no) for p, x in zip(ps, t[3]))
    return pred


# (trait, method, consumer, source, receiver argument, kind, expected)
QUERY_CLOSURES = [
    ("graaf::op::sinks::Sinks", "sinks", "filter", VERTICES, 1, "bool", unary(IS_SINK)),
    ("graaf::op::sources::Sources", "sources", "filter", VERTICES, 1, "bool", unary(IS_SOURCE)),
    ("graaf::op::semidegree_sequence::SemidegreeSequence", "semidegree_sequence", "map", VERTICES, 1, "value",
     v_tuple(unary(IN), unary(OUT))),
    ("graaf::op::outdegree_sequence::OutdegreeSequence", "outdegree_sequence", "map", VERTICES, 1, "value", unary(OUT)),
]
PRED_CLOSURES = [
    ("graaf::op::is_balanced::IsBalanced", "is_balanced", "all", VERTICES, 1, "value", v_eq(unary(IN), unary(OUT))),
    ("graaf::op::is_spanning_subdigraph::IsSpanningSubdigraph", "is_spanning_subdigraph", "all", ARCS, 2, "bool",
     unary(HAS_ARC, ("0", "1"))),
    ("graaf::op::is_subdigraph::IsSubdigraph", "is_subdigraph", "all", ARCS, 2, "conjunct", unary(HAS_ARC, ("0", "1"))),
]


SHORTCUT_PREDS = ("is_complete", "is_semicomplete", "is_tournament", "is_symmetric", "is_oriented", "is_balanced", "is_regular",
                  "is_isolated_free", "is_simple")
SHORTCUT_QUERIES = ("min_indegree", "max_indegree", "min_outdegree", "max_outdegree", "min_degree", "max_degree")
SIZE_FORMULAS = {
    # predicate -> (comparison the precheck may use, closed form of the compared quantity)
    "is_tournament": (("Eq", "Ne"), lambda n: n * (n - 1) // 2),
    "is_semicomplete": (("Lt", "Le", "Eq", "Ne"), lambda n: n * (n - 1) // 2),
    "is_complete": (("Eq", "Ne"), lambda n: n * (n - 1)),
}


def size_precheck_formulas(crate, o):
    """is_tournament / is_semicomplete / is_complete may compare size() with a closed form of the order before scanning the
    pairs; the closed form (extracted as a term over the order, evaluated with unsigned integer arithmetic for orders 1..64)
    must be n(n-1)/2 resp. n(n-1): `order * ((order - 1) / 2)` is smaller for every even order."""
    prog = crate.prog

    def is_order(t):
        if t[0] == "len" and t[1][0] == "at" and isinstance(t[1][1], str) and t[1][1] in ("A1.arcs",):
            return True
        if t[0] == "mem" and t[1] == "A1.order" and t[3] is None:
            return True
        return t[0] == "call" and t[1].endswith("Order::order") and t[3] and t[3][0][0] == "at" and t[3][0][1] == "A1"

    def is_size(t):
        if t[0] == "call" and t[1].endswith("Size::size") and t[3] and t[3][0][0] == "at" and t[3][0][1] == "A1":
            return True
        return False

    def ev_(t, n):
        if is_order(t):
            return n
        if t[0] == "const" and isinstance(t[2], int):
            return t[2]
        if t[0] == "bin":
            a, b = ev_(t[2], n), ev_(t[3], n)
            if a is None or b is None:
                return None
            op = t[1]
            if op == "Add":
                return a + b
            if op == "Sub":
                return a - b if a >= b else None
            if op == "Mul":
                return a * b
            if op == "Div":
                return a // b if b else None
            if op == "Shr":
                return a >> b
            if op == "Shl":
                return a << b
            if op == "BitAnd":
                return a & b
        return None
    for name, (cmps, closed) in SIZE_FORMULAS.items():
        trait = "graaf::op::%s::%s" % (name, "".join(w.capitalize() for w in name.split("_")))
        for p in impl_fns(crate, trait, name):
            if not prog.fns[p]["path"].startswith("graaf::repr::") or prog.fns[p]["path"].startswith("graaf::repr::adjacency_map"):
                continue        # AdjacencyMap: order is a count of keys, same formula, but its own terms; left to from-counts
            an = crate.an(p)
            for ev in an.events:
                if ev["k"] != "switch":
                    continue
                d = ev["discr"]
                if d[0] == "un" and d[1] == "Not":
                    d = d[2]
                if not (d[0] == "bin" and d[1] in ("Eq", "Ne", "Lt", "Le")):
                    continue
                for S, E in ((d[2], d[3]), (d[3], d[2])):
                    if not is_size(S) or ev_(E, 3) is None:
                        continue
                    bad = [n for n in range(1, 65) if ev_(E, n) is not None and ev_(E, n) != closed(n)]
                    o.instances += 1
                    o.check(not bad and d[1] in cmps, prog.pretty[p], name + "-size-formula", "%s compares size() with a closed form of the order "
                            "that is not %s (first difference at order %s): digraphs that satisfy the definition are rejected (or the "
                            "reverse) before any pair is looked at" % (name, "n(n-1)" if name == "is_complete" else "n(n-1)/2",
                                                                      bad[0] if bad else "-"), ev["span"])


_SHORTCUT_TABLE = None


def _shortcut_table():
    """name -> {(n, s): set of answers over ALL digraphs with n vertices and s arcs}, n = 1..4, by enumeration of the definitions
    (this is a table of the mathematical definitions, not an execution of the crate)"""
    global _SHORTCUT_TABLE
    if _SHORTCUT_TABLE is not None:
        return _SHORTCUT_TABLE
    T = {}

    def put(name, n, sz, val):
        T.setdefault(name, {}).setdefault((n, sz), set()).add(val)
    for n in range(1, 5):
        pairs = [(u, v) for u in range(n) for v in range(n) if u != v]
        for mask in range(1 << len(pairs)):
            A = {pairs[i] for i in range(len(pairs)) if mask >> i & 1}
            sz = len(A)
            ind = [sum(1 for (u, v) in A if v == x) for x in range(n)]
            outd = [sum(1 for (u, v) in A if u == x) for x in range(n)]
            und = [(u, v) for (u, v) in pairs if u < v]
            put("is_complete", n, sz, sz == len(pairs))
            put("is_semicomplete", n, sz, all((u, v) in A or (v, u) in A for (u, v) in und))
            put("is_tournament", n, sz, all(((u, v) in A) != ((v, u) in A) for (u, v) in und))
            put("is_symmetric", n, sz, all((v, u) in A for (u, v) in A))
            put("is_oriented", n, sz, all((v, u) not in A for (u, v) in A))
            put("is_balanced", n, sz, ind == outd)
            put("is_regular", n, sz, len(set(ind + outd)) == 1)
            put("is_isolated_free", n, sz, all(ind[x] + outd[x] > 0 for x in range(n)))
            put("is_simple", n, sz, True)
            put("min_indegree", n, sz, min(ind))
            put("max_indegree", n, sz, max(ind))
            put("min_outdegree", n, sz, min(outd))
            put("max_outdegree", n, sz, max(outd))
            put("min_degree", n, sz, min(a + b for a, b in zip(ind, outd)))
            put("max_degree", n, sz, max(a + b for a, b in zip(ind, outd)))
    _SHORTCUT_TABLE = T
    return T


def size_shortcuts(crate, o, names):
    """A query or predicate may answer from the counts alone -- `if size() < order() { return 0 }` -- only when every digraph
    with those counts has that answer.  For each function named in `names` (trait impls and provided methods): every branch
    whose condition is a term over size() and the order and one of whose sides reaches the return without any further call is
    evaluated, with unsigned integer arithmetic, for every (n, s) with 1 <= n <= 4, 0 <= s <= n(n-1) that the earlier such
    branches let through; the constant returned on that side must be the answer of all digraphs with n vertices and s arcs
    (table enumerated from the definitions)."""
    prog = crate.prog
    T = _shortcut_table()

    def is_order(t):
        if t[0] == "len" and t[1][0] == "at" and isinstance(t[1][1], str) and t[1][1] in ("A1.arcs",):
            return True
        if t[0] == "mem" and t[1] == "A1.order" and t[3] is None:
            return True
        return t[0] == "call" and t[1].endswith("Order::order") and t[3] and t[3][0][0] == "at" and t[3][0][1] == "A1"

    size_terms = set()      # per function: what the analysis resolved `self.size()` to (an inlined sum over the rows, ..)

    def is_size(t):
        if t in size_terms:
            return True
        return t[0] == "call" and t[1].endswith("Size::size") and bool(t[3]) and t[3][0][0] == "at" and t[3][0][1] == "A1"

    def has_size(t):
        return isinstance(t, tuple) and bool(t) and (is_size(t) or any(has_size(x) for x in t if isinstance(x, tuple)))

    def ev_(t, n, sz):
        if is_size(t):
            return sz
        if is_order(t):
            return n
        if t[0] == "const" and isinstance(t[2], int):
            return t[2]
        if t[0] == "un" and t[1] == "Not":
            a = ev_(t[2], n, sz)
            return None if a is None else (0 if a else 1)
        if t[0] == "bin":
            a, b = ev_(t[2], n, sz), ev_(t[3], n, sz)
            if a is None or b is None:
                return None
            op = t[1]
            if op in ("Add", "Mul"):
                return a + b if op == "Add" else a * b
            if op == "Sub":
                return a - b if a >= b else None
            if op in ("Div", "Rem"):
                return None if not b else (a // b if op == "Div" else a % b)
            if op == "Shr":
                return a >> b
            if op == "Shl":
                return a << b
            if op == "BitAnd":
                return a & b
            cmp_ = {"Eq": a == b, "Ne": a != b, "Lt": a < b, "Le": a <= b, "Gt": a > b, "Ge": a >= b}
            if op in cmp_:
                return 1 if cmp_[op] else 0
        return None

    def edge_holds(lab, val):
        if lab[0] == "sw":
            return val == int(lab[1])
        if lab[0] == "sw_other":
            return val not in [int(x) for x in lab[1]]
        return True
    cand = [p for p in crate.fn_paths() if prog.fns[p].get("name") in names and prog.fns[p]["kind"] != "Closure"
            and (prog.fns[p]["path"].startswith("graaf::repr::") or prog.fns[p]["path"].startswith("graaf::op::"))]
    for p in cand:
        name = prog.fns[p]["name"]
        an = crate.an(p)
        cfg = an.cfg
        size_terms.clear()
        size_terms.update(e["res"] for e in an.events if e["k"] == "call" and (e["key"] or "").endswith("Size::size")
                          and e["args"] and e["args"][0] == ("arg", 1) and isinstance(e.get("res"), tuple))
        rets = [e for e in an.events if e["k"] == "return"]
        sws = [e for e in an.events if e["k"] == "switch" and has_size(e["discr"]) and ev_(e["discr"], 3, 3) is not None]
        if not sws or len(rets) != 1:
            continue
        allsw = [e for e in an.events if e["k"] == "switch" and ev_(e["discr"], 3, 3) is not None]
        busy = {e["b"] for e in an.events if e["k"] == "call" and not (e["key"] or "").endswith(("Order::order", "Size::size"))}

        def reach(b0):
            seen, st = {b0}, [b0]
            while st:
                x = st.pop()
                for tg, _ in cfg.succ[x]:
                    if tg not in seen:
                        seen.add(tg)
                        st.append(tg)
            return seen
        rb = rets[0]["b"]
        rv = rets[0]["val"]
        for e in sws:
            b = e["b"]
            # earlier count-only branches that every path to b went through on one side
            pre = []
            for e2 in allsw:
                if e2["b"] == b or not cfg.dominates(e2["b"], b):
                    continue
                sides = [(tg, lab) for tg, lab in cfg.succ[e2["b"]] if tg == b or cfg.dominates(tg, b)]
                sides = [(tg, lab) for tg, lab in sides if len(cfg.pred[tg]) == 1]     # the edge itself dominates b
                if len(sides) == 1:
                    pre.append((e2["discr"], sides[0][1]))
            for tg, lab in cfg.succ[b]:
                R = reach(tg)
                if R & busy or rb not in R:
                    continue
                # constants that reach the return from this side
                def phi_ins(t, seen=()):
                    if not (t[0] == "phi" and len(t) == 3) or t in seen:
                        return [t]
                    out_ = []
                    for q, _ in cfg.pred[t[1]]:
                        if q in an.ver_out and (q in R or (q == b and tg == t[1])):
                            out_ += phi_ins(an.var_term(an.ver_out[q], t[2]), seen + (t,))
                    return out_
                ins = phi_ins(rv)
                consts = {t[2] for t in ins if t[0] == "const" and isinstance(t[2], int)}
                if len(consts) != 1 or len(consts) != len({t for t in ins}):
                    continue
                c = consts.pop()
                o.instances += 1
                bad = None
                for n in range(1, 5):
                    for sz in range(0, n * (n - 1) + 1):
                        v = ev_(e["discr"], n, sz)
                        if v is None or not edge_holds(lab, v):
                            continue
                        vs = [(ev_(d2, n, sz), l2) for d2, l2 in pre]
                        if any(v2 is None or not edge_holds(l2, v2) for v2, l2 in vs):
                            continue
                        ans = T[name][(n, sz)]
                        if ans != {bool(c) if name.startswith("is_") else c}:
                            bad = (n, sz, sorted(ans))
                            break
                    if bad:
                        break
                o.check(bad is None, prog.pretty[p], name + "-size-shortcut", "%s answers %s from size() and the order alone on a branch "
                        "that is taken for order %s, size %s, where digraphs with those counts have the answers %s: the counts do not "
                        "decide the answer there" % ((name, c) + (bad if bad else ("-", "-", "-"))), e["span"])


def consumer_of(crate, parent, cpath):
    """(consumer key, source term, block) of the closure cpath created in parent"""
    pan = crate.an(parent)
    for ev in pan.events:
        if ev["k"] == "call" and len(ev["args"]) == 2 and ev["args"][1][0] == "agg" and ev["args"][1][1] == "closure" \
                and ev["args"][1][2] == cpath:
            src = ev["args"][0]
            if src[0] == "addr":
                src = crate.fx(parent).iter_desc(ev)
            return ev["key"], src, ev["b"]
    return None, None, None


def consumer_polarity(crate, parent, ckey, cb):
    """True when the parent is true exactly if the closure holds for every item (all(p)); False when it is true exactly
    if the closure holds for no item (!any(p), find(p).is_none(), position(p).is_none()); None otherwise"""
    if parent is None or ckey is None:
        return None
    pan = crate.an(parent)
    rets = [ev for ev in pan.events if ev["k"] == "return"]
    if len(rets) != 1:
        return None
    r = rets[0]["val"]
    site = None
    for ev in pan.events:
        if ev["k"] == "call" and ev["b"] == cb:
            site = ev["res"]
    if ckey == IT + "all":
        return True if r == site else None
    if ckey == IT + "any":
        return False if r == ("un", "Not", site) else None
    if ckey in (IT + "find", IT + "position"):
        if r[0] == "call" and r[1] == "core::option::Option::is_none" and r[3][0] == site:
            return False
        return None
    return None


def all_is_conjunct(crate, parent, b):
    """the result of the all() call in block b is a necessary conjunct of the parent's boolean result"""
    atoms, table = truth_table(crate, crate.an(parent), {IT + "all", IT + "eq"})
    if atoms is None:
        return False
    idx = [i for i, a in enumerate(atoms) if (a[0] == "site" and a[1] == b) or (a[0] == "call" and a[1] == IT + "all")]
    if len(idx) != 1:
        return False
    return all(not v for k, v in table.items() if not k[idx[0]]) and any(v for k, v in table.items() if k[idx[0]])


def is_last_stage(crate, parent, cb):
    """the adaptor call in block cb of parent is what the parent returns"""
    pan = crate.an(parent)
    rets = [ev for ev in pan.events if ev["k"] == "return"]
    site = [ev["res"] for ev in pan.events if ev["k"] == "call" and ev["b"] == cb]
    return len(rets) == 1 and bool(site) and rets[0]["val"] == site[0]


def closure_defs(crate, o, table):
    prog = crate.prog
    for trait, name, consumer, source, recv_no, kind, expected in table:
        for p in impl_fns(crate, trait, name):
            if prog.fns[p].get("impl_derived"):
                continue
            found = 0
            for cp in prog.children.get(p, ()):
                key, src, cb = consumer_of(crate, p, cp)
                if key != IT + consumer or not src or src[0] != "call" or src[1] != source:
                    continue
                if not (len(src[3]) == 1 and src[3][0][0] == "at" and src[3][0][1] == "A1"):
                    continue
                found += 1
                o.instances += 1
                who = prog.pretty[cp]
                an = crate.an(cp)
                if consumer == "all":
                    o.check(all_is_conjunct(crate, p, cb), prog.pretty[p], name + "-uses-all",
                            "%s: the result is not false whenever the scan over %s(self) is" % (name, source.split("::")[-1]), prog.fns[p]["span"])
                msg = "%s: the closure applied to every item of %s(self) does not compute the defining expression" % (name, source.split("::")[-1])
                if kind == "value":
                    defs = ret_defs(an)
                    ok = len(defs) == 1 and expected(crate, cp, defs[0][1], recv_no)
                    if not ok and consumer == "map" and not is_last_stage(crate, p, cb):
                        o.undecided.append((who, "one stage of a longer map pipeline"))
                        o.instances -= 1
                        continue
                    o.check(ok, who, name + "-definition", msg, prog.fns[cp]["span"])
                    continue
                keys = {HAS_ARC, IS_SINK, IS_SOURCE, "alloc::collections::btree::set::BTreeSet::contains"}
                atoms, table_ = truth_table(crate, an, keys)
                if atoms is None:
                    o.undecided.append((who, table_))
                    continue
                idx = [i for i, a in enumerate(atoms) if expected(crate, cp, a, recv_no)]
                if kind == "bool":
                    ok = len(atoms) == 1 and idx == [0] and table_[(True,)] is True and table_[(False,)] is False
                else:
                    # the defining atom is a necessary conjunct: the closure is false whenever the atom is
                    ok = len(idx) == 1 and all(not v for k, v in table_.items() if not k[idx[0]]) and any(table_.values())
                o.check(ok, who, name + "-definition", msg, prog.fns[cp]["span"])
            if not found and recv_no == 2:
                # the same scan with the roles of the operands exchanged: all() over the items of the OTHER digraph, testing
                # them against self, decides the converse relation
                swapped = False
                for cp in prog.children.get(p, ()):
                    key, src, cb = consumer_of(crate, p, cp)
                    if key == IT + consumer and src and src[0] == "call" and src[1] == source and len(src[3]) == 1 \
                            and src[3][0][0] == "at" and src[3][0][1] == "A2":
                        atoms, table_ = truth_table(crate, crate.an(cp), {HAS_ARC})
                        if atoms and any(a[0] == "call" and a[1] == HAS_ARC and recv_arg(crate, cp, a[3][0]) == 1 for a in atoms):
                            swapped = True
                            o.instances += 1
                            o.check(False, prog.pretty[p], name + "-direction", "%s scans the %s of the other digraph and tests them against "
                                    "self: that decides the converse relation (A(d) within A(self))" % (name, source.split("::")[-1]),
                                    prog.fns[cp]["span"])
                if swapped:
                    continue
            if not found:
                o.undecided.append((prog.pretty[p], "no closure consumed by %s() over %s(self)" % (consumer, source.split("::")[-1])))


def pair_scan(crate, inner_closure):
    """inner closure is consumed by all() over (u + 1)..N where u is the parameter of its parent closure,
    which is consumed by all() over 0..N"""
    from .closures import capture_map
    from .schema import sum_parts
    prog = crate.prog
    f = prog.fns[inner_closure]
    parent = f.get("parent")
    if parent is None:
        return False
    pan = crate.an(parent)
    # form 3: all() over the pair stream (0..N).flat_map(|u| (u + 1..N).map(move |v| (u, v)))
    for ev in pan.events:
        if ev["k"] == "call" and ev["key"] == "core::iter::traits::iterator::Iterator::all" and len(ev["args"]) == 2 \
                and ev["args"][1][0] == "agg" and ev["args"][1][2] == inner_closure:
            d = ev["args"][0]
            if d[0] == "addr":
                d = crate.fx(parent).iter_desc(ev)
            if d and d != "CYCLE" and _pair_stream_over_all(crate, pan, d):
                return True
    if prog.fns[parent]["kind"] != "Closure":
        return False
    inner_ok = False
    lower = False
    N1 = None
    for ev in pan.events:
        if ev["k"] == "call" and ev["key"] == "core::iter::traits::iterator::Iterator::all" and len(ev["args"]) == 2 \
                and ev["args"][1][0] == "agg" and ev["args"][1][2] == inner_closure:
            d = crate.fx(parent).iter_desc(ev)
            if d and d[0] == "agg" and d[1] == "adt" and d[2][0].endswith("ops::range::Range"):
                xy = sum_parts(d[3][0])
                if xy and ("arg", 2) in xy and ("const", "usize", 1) in xy:
                    inner_ok = True
                    N1 = d[3][1]
                elif d[3][0] == ("const", "usize", 0) and d[3][1] == ("arg", 2):
                    # lower triangle: v in 0..u
                    inner_ok = True
                    lower = True
    if not inner_ok:
        return False
    if lower:
        gp = prog.fns[parent].get("parent")
        if gp is None:
            return False
        for ev in crate.an(gp).events:
            if ev["k"] == "call" and ev["key"] == "core::iter::traits::iterator::Iterator::all" and len(ev["args"]) == 2 \
                    and ev["args"][1][0] == "agg" and ev["args"][1][2] == parent:
                d = crate.fx(gp).iter_desc(ev)
                if d and d[0] == "agg" and d[1] == "adt" and d[2][0].endswith("ops::range::Range") and \
                        d[3][0] in (("const", "usize", 0), ("const", "usize", 1)) and _is_order_term(d[3][1]):
                    return True
        return False
    gp = prog.fns[parent].get("parent")
    if gp is None:
        return False
    gan = crate.an(gp)
    for ev in gan.events:
        if ev["k"] == "call" and ev["key"] == "core::iter::traits::iterator::Iterator::all" and len(ev["args"]) == 2 \
                and ev["args"][1][0] == "agg" and ev["args"][1][2] == parent:
            d = crate.fx(gp).iter_desc(ev)
            if d and d[0] == "agg" and d[1] == "adt" and d[2][0].endswith("ops::range::Range") and d[3][0] == ("const", "usize", 0):
                # N of the inner range is the outer N seen through the capture
                cm = capture_map(crate, pan)
                if cm is None:
                    return False
                outs = cm.tr_all(d[3][1])
                if N1 in outs:
                    return True
                pfx = crate.fx(parent)
                return any(pfx.holds(0, lambda rel, x=x: rel.eq(N1, x)) for x in outs)
    return False


# ---------------------------------------------------------------------------
def walk_clause(crate, o, p):
    """has_walk(walk) = walk.len() > 1 and has_arc(walk[i], walk[i + 1]) for every i in 0..len-1.  Decided for the two
    spellings in use: all() over walk.iter().zip(walk.iter().skip(1)) / walk.windows(2), and the pointer loop
    `p = as_ptr; end = as_ptr + (len - 1); while p < end { has_arc(*p, *(p + 1)); p += 1 }`"""
    from .rules2 import subst_phis
    prog = crate.prog
    an = crate.an(p)
    fx = crate.fx(p)
    who = prog.pretty[p]
    W = ("at", "A2", None, ("e",), ())
    LEN = ("len", W)
    ASP = ("call", "slice::as_ptr", ("usize",), (W,))
    one = ("const", "usize", 1)
    F, T = ("const", "bool", 0), ("const", "bool", 1)
    rets = [ev for ev in an.events if ev["k"] == "return"]
    # -- pointer loop ---------------------------------------------------------------------------------
    ploops = []
    for h in an.cfg.loops:
        for var in an.phis.get(h, ()):
            if not var.startswith("v"):
                continue
            ins = list(zip([pb for pb, _ in an.cfg.pred[h]], an.phi_inputs(h, var)))
            init = [t for pb, t in ins if not an.cfg.dominates(h, pb)]
            step = [t for pb, t in ins if an.cfg.dominates(h, pb)]
            if init == [ASP] and step and all(t[0] == "call" and t[1] == "rawptr::add" and t[3][0] == ("phi", h, var) for t in step):
                ploops.append((h, var, step))
    if ploops:
        o.instances += 1
        h, var, step = ploops[0]
        P = ("phi", h, var)
        body = an.cfg.loops[h]
        END = ("call", "rawptr::add", ("usize",), (ASP, ("bin", "Sub", LEN, one)))
        hsw = [ev for ev in an.events if ev["k"] == "switch" and ev["b"] == h]
        calls = [ev for ev in an.events if ev["k"] == "call" and ev["key"] == HAS_ARC and ev["b"] in body]
        nxt = ("call", "rawptr::add", ("usize",), (P, one))
        oke = len(hsw) == 1 and hsw[0]["discr"] == ("bin", "Lt", P, END)
        okp = len(calls) == 1 and calls[0]["args"][0] == ("arg", 1) and calls[0]["args"][1][0] == "mem" and calls[0]["args"][1][3] == P \
            and calls[0]["args"][2][0] == "mem" and calls[0]["args"][2][3] == nxt and all(an.cfg.dominates(calls[0]["b"], lb)
                                                                                        for lb, _ in an.cfg.pred[h] if an.cfg.dominates(h, lb))
        if not (oke and okp):
            # another cursor idiom (different end sentinel, pair read differently): not interpreted
            o.instances -= 1
            o.undecided.append((who, "has_walk walks a cursor over the slice in a form the rule does not interpret"))
            return
        o.check(True, who, "walk-end", "")
        o.check(True, who, "walk-pair", "")
        o.check(all(t[3][1] == one for t in step), who, "walk-step", "the cursor over the walk does not advance by exactly one vertex per "
                "iteration: consecutive pairs are skipped", prog.fns[p]["span"])
        if okp and len(rets) == 1:
            res = calls[0]["res"]
            exits = [(x, tg, lab) for x in body for tg, lab in an.cfg.succ[x] if tg not in body and tg in an.cfg.can_return]
            good = True
            for x, tg, lab in exits:
                reach = an.cfg.reachable_from(tg) | {tg}
                val = subst_phis(an, fx, rets[0]["val"], lambda pb, reach=reach, x=x: pb in reach or pb == x)
                if x == h:
                    good = good and val == T
                else:
                    atoms = fx.close(fx.edge_atoms(x, lab, tg))
                    good = good and ("false", res) in atoms and val == F
            o.check(good and len(exits) == 2, who, "walk-verdict", "the loop is not left with `false` exactly when a pair is no arc and with "
                    "`true` when the cursor reaches the end", prog.fns[p]["span"])
        short = fx_short = None
        return
    # -- all() over consecutive pairs -------------------------------------------------------------------
    alls = [ev for ev in an.events if ev["k"] == "call" and ev["key"] == IT + "all" and len(ev["args"]) == 2]
    for ev in alls:
        src = ev["args"][0]
        if src[0] == "addr":
            src = fx.iter_desc(ev)
        clo = ev["args"][1]
        if not (src and src != "CYCLE" and clo[0] == "agg" and clo[1] == "closure"):
            continue
        it = ("call", "slice::iter", ("usize",), (W,))
        zipf = src[0] == "call" and src[1] == IT + "zip" and len(src[3]) == 2 and src[3][0] == it and \
            src[3][1][0] == "call" and src[3][1][1] == IT + "skip" and src[3][1][3][0] == it
        winf = src[0] == "call" and src[1] == "slice::windows" and src[3][0] == W
        if not (zipf or winf):
            continue
        o.instances += 1
        if zipf:
            o.check(src[3][1][3][1] == one, who, "walk-step", "the second cursor is not one vertex ahead of the first", ev["span"])
        else:
            o.check(src[3][1] == ("const", "usize", 2), who, "walk-step", "the windows over the walk are not pairs", ev["span"])
        can = crate.an(clo[2])
        crets = [e for e in can.events if e["k"] == "return"]
        okc = False
        if len(crets) == 1:
            r = crets[0]["val"]
            if r[0] == "call" and r[1] == HAS_ARC and len(r[3]) == 3:
                a1, a2 = r[3][1], r[3][2]
                if zipf:
                    okc = a1 == ("mem", "A2.0*", ("e",), None) and a2 == ("mem", "A2.1*", ("e",), None)
                else:
                    from .schema import elem_access
                    def widx(t):
                        if t[0] == "mem" and t[3] is not None and t[3][0] == "elem" and t[3][1] == ("arg", 2):
                            return t[3][2]
                        if t[0] == "mem" and t[3] is not None:
                            c, i = elem_access(t[3])
                            if c is not None and (c == ("arg", 2) or (c[0] == "at" and c[1] == "A2")):
                                return i
                        return None
                    okc = widx(a1) == ("const", "usize", 0) and widx(a2) == one
            elif r[0] == "call" and r[1] == "alloc::collections::btree::set::BTreeSet::contains" and len(r[3]) == 2 and winf \
                    and r[3][0][0] == "at" and r[3][0][1].endswith(".arcs") and r[3][1][0] == "at" and r[3][1][2] is None:
                # EdgeList: has_arc(u, v) written out as self.arcs.contains(&(u, v))
                vals = [t for (var, ver), t in can.term_of.items() if var == r[3][1][1] and t[0] == "agg"]
                if len(vals) == 1 and vals[0][1] == "tuple" and len(vals[0][3]) == 2:
                    from .schema import elem_access

                    def widx2(t):
                        if t[0] == "mem" and t[3] is not None:
                            if t[3][0] == "elem" and t[3][1] == ("arg", 2):
                                return t[3][2]
                            c_, i_ = elem_access(t[3])
                            if c_ is not None and (c_ == ("arg", 2) or (c_[0] == "at" and c_[1] == "A2")):
                                return i_
                        return None
                    okc = widx2(vals[0][3][0]) == ("const", "usize", 0) and widx2(vals[0][3][1]) == one
        o.check(okc, who, "walk-pair", "the pair test is not has_arc(u, v) on the two consecutive vertices", ev["span"])
        if len(rets) == 1:
            rv = rets[0]["val"]
            ins = set()
            if rv[0] == "phi" and len(rv) == 3:
                ins = set(an.phi_inputs(rv[1], rv[2]))
            else:
                ins = {rv}
            o.check(ins <= {F, ev["res"]} and ev["res"] in ins, who, "walk-verdict", "the result is not `len > 1 && all pairs are arcs`", ev["span"])
        # all() over no pairs is true: the pair test must only be reached for walks of at least two vertices
        two, zero = ("const", "usize", 2), ("const", "usize", 0)

        def long_enough(rel):
            from .facts import mk_ne
            return rel.lt(one, LEN) or rel.le(two, LEN) or (rel.has(mk_ne(LEN, zero)) and rel.has(mk_ne(LEN, one))) \
                or (rel.lt(zero, LEN) and rel.has(mk_ne(LEN, one)))
        o.check(fx.holds(ev["b"], long_enough), who, "walk-min-length", "the pairwise test is reached without `walk.len() > 1`: "
                "all() over no pairs is true, so an empty or one-vertex sequence is reported as a walk", ev["span"])
        return
    o.undecided.append((who, "has_walk is written neither over consecutive pairs with all() nor as the cursor loop"))


def _touches_fields(an, prefixes):
    """some event of the body reads or writes memory inside the receiver's containers"""
    def walk(t):
        if isinstance(t, tuple) and t:
            if t[0] in ("mem", "at", "addr") and isinstance(t[1], str) and any(t[1].startswith(p_) for p_ in prefixes):
                return True
            return any(walk(x) for x in t if isinstance(x, tuple))
        return False
    for ev in an.events:
        if ev["k"] == "store" and any(ev["region"].startswith(p_) for p_ in prefixes):
            return True
        for k in ("args", "val", "discr", "res"):
            v = ev.get(k)
            if isinstance(v, list):
                if any(walk(x) for x in v):
                    return True
            elif isinstance(v, tuple) and walk(v):
                return True
    return False


def _is_order_term(t):
    """order() of the receiver, its `order` field, or the length of its row vector"""
    if t[0] == "call" and t[1] in ("graaf::op::order::Order::order", "graaf::op::contiguous_order::ContiguousOrder::contiguous_order"):
        return True
    if t[0] == "mem" and isinstance(t[1], str) and (t[1].endswith(".order") or t[1].endswith(".order*")):
        return True
    if t[0] == "len" and t[1][0] == "at" and ".arcs" in t[1][1]:
        return True
    return False


def _pair_stream_over_all(crate, pan, d):
    """d is (0..N).flat_map(|u| (u + 1..N).map(move |v| (u, v))) with N the order, seen from the body pan"""
    from .rules2 import _flat_pair_stream
    from .closures import capture_map
    if not _flat_pair_stream(crate, d):
        return False
    src, cl = d[3]
    if src[3][0] != ("const", "usize", 0):
        return False
    N = src[3][1]
    if not _is_order_term(N):
        # a local `let order = self.order()`
        if not (N[0] == "mem" and N[3] is None):
            return False
        vals = [v for (var, ver), v in pan.term_of.items() if var == N[1] and v[0] != "opq"]
        if not (len(vals) == 1 and _is_order_term(vals[0])):
            return False
    an1 = crate.an(cl[2])
    r1 = [e for e in an1.events if e["k"] == "return"][0]["val"]
    hi = r1[3][0][3][1]
    cm = capture_map(crate, an1)
    if cm is None:
        return False
    return hi in cm.tr_all(N) or any(cv == hi and (pv == N) for pv, cv in cm.valmap)


def _reads_adjacency_content(ev):
    """a std call that looks at *which* heads a vertex has (not merely how many, and not merely at the table of rows)"""
    k = ev["key"]
    last = k.split("::")[-1]
    if last in ("len", "is_empty", "new", "with_capacity", "capacity"):
        return False
    targs = (ev["fn"] or {}).get("targs", []) if ev.get("fn") else []

    def is_row(t):
        return t.get("k") == "adt" and t.get("name") in ("BTreeSet", "BTreeMap")
    if k.startswith("alloc::collections::btree::set::BTreeSet::"):
        return True
    if k.startswith("alloc::collections::btree::map::BTreeMap::"):
        # the map of rows of an AdjacencyMap is a table of rows; a weight map of a row is adjacency content
        return not (len(targs) >= 2 and is_row(targs[1]))
    if k.startswith("slice::") or k.startswith("alloc::vec::Vec::") or k.startswith("core::ops::index::Index"):
        # the vector of rows is a table; the words of a bit matrix / an arc list are content
        elem = targs[0] if targs else {}
        if elem.get("k") == "adt" and elem.get("name") == "Vec" and elem.get("args"):
            elem = elem["args"][0]
        if elem.get("k") == "slice":
            elem = elem.get("elem", {})
        return not is_row(elem)
    if k.startswith("core::cmp::PartialEq") or k.startswith("rawptr::") or k.startswith("core::ptr::"):
        return True
    return False
