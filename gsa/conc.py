"""CONC: worker-thread structure of the parallel operations (DESIGN §3.8)."""
from .panics import panic_sites, discharge_panic

SPAWN_KEYS = {"std::thread::functions::spawn": 0, "std::thread::scoped::Scope::spawn": 1}
JOIN_KEYS = {"std::thread::join_handle::JoinHandle::join", "std::thread::scoped::ScopedJoinHandle::join"}
AP_KEY = "std::thread::functions::available_parallelism"


def family(crate, root):
    """the function `root` and all closures nested in it"""
    out = []
    for p in crate.fn_paths():
        f = crate.prog.fns[p]
        if f.get("root") == root or p == root:
            out.append(p)
    return out


def worker_closures(crate, root):
    """closure paths handed to thread::spawn / Scope::spawn inside the family of root:
    [(spawning fn path, block, spawn key, closure path)]"""
    out = []
    for p in family(crate, root):
        an = crate.an(p)
        for ev in an.events:
            if ev["k"] == "call" and ev["key"] in SPAWN_KEYS:
                a = ev["args"][SPAWN_KEYS[ev["key"]]]
                if a[0] == "agg" and a[1] == "closure":
                    out.append((p, ev["b"], ev["key"], a[2]))
                else:
                    out.append((p, ev["b"], ev["key"], None))
    return out


def fn_panic_free(crate, path, stack=()):
    """no panic can start in this body or in any crate function it calls"""
    _pf = crate.__dict__.setdefault("_pf_cache", {})
    if path in _pf:
        return _pf[path]
    if path in stack:
        return True, "recursion"
    if path not in crate.prog.fns:
        return False, "unknown callee %s" % path
    an = crate.an(path)
    res = (True, "")
    for s in panic_sites(an):
        if s.kind.startswith("unwrap:") and _is_lock_result(crate.fx(path), s.ev["args"][0]):
            # unwrap/expect of Mutex::lock(): Err only after some thread panicked while holding the lock;
            # if nothing else can panic there is no first panic (induction over the execution)
            continue
        if not discharge_panic(crate, s):
            res = (False, "%s at %s:%d (%s)" % (s.kind, s.span["file"], s.span["line"], crate.prog.pretty.get(path, path)))
            break
    if res[0]:
        for ev in an.events:
            if ev["k"] != "call" or ev["fn"] is None:
                continue
            fn = ev["fn"]
            tgt = fn.get("resolved") if fn.get("resolved_local") else (fn["path"] if fn["local"] and "trait" not in fn else None)
            if fn["local"] and "trait" in fn and not fn.get("resolved"):
                res = (False, "unresolved trait call %s" % ev["key"])
                break
            if tgt is not None:
                ok, why = fn_panic_free(crate, tgt, stack + (path,))
                if not ok:
                    res = (False, why)
                    break
            # closures passed to std adaptors run inside them
            for a in ev["args"]:
                if a[0] == "agg" and a[1] == "closure":
                    ok, why = fn_panic_free(crate, a[2], stack + (path,))
                    if not ok:
                        res = (False, why)
                        break
            if not res[0]:
                break
    _pf[path] = res
    return res


def _is_lock_result(fx, X):
    if X[0] == "site":
        ev = fx.an_call_at(X[1])
        return ev is not None and ev["key"] in ("std::sync::poison::mutex::Mutex::lock",)
    return False


def workers_panic_free(crate, root):
    ws = worker_closures(crate, root)
    if not ws:
        return False, "no worker closure found"
    for (p, b, key, c) in ws:
        if c is None:
            return False, "spawned value is not a closure literal"
        ok, why = fn_panic_free(crate, c)
        if not ok:
            return False, why
    return True, "%d workers" % len(ws)


# ---------------------------------------------------------------------------
# CONC-JOIN / CONC-WRITES / TILE / GATHER rule

from .schema import Obl, elem_access, store_elem, region_of_container, sum_parts, _mentions, const_is   # noqa: E402
from .origin import payload_of   # noqa: E402

ITER_NEXT = "core::iter::traits::iterator::Iterator::next"
SCOPE_KEY = "std::thread::scoped::scope"


def ap_families(crate):
    out = set()
    away = getattr(crate, "inlined_away", set())
    for p in crate.fn_paths():
        if crate.prog.fns[p].get("root", p) in away:
            continue        # a private helper (`fn rows_per_worker(order)`) inlined into every caller: judged there
        an = crate.an(p)
        for ev in an.events:
            if ev["k"] == "call" and ev["key"] == AP_KEY:
                out.add(crate.prog.fns[p].get("root", p))
    return sorted(out)


def div_ceil_of(t):
    if t[0] == "call" and t[1] == "usize::div_ceil" and len(t[3]) == 2:
        return t[3][0], t[3][1]
    return None


def thread_count_ok(t):
    """t is available_parallelism().map_or(1, NonZero::get) or its min with something"""
    if t[0] == "min":
        return thread_count_ok(t[1]) or thread_count_ok(t[2])
    if t[0] == "call" and t[1] == "core::result::Result::map_or" and len(t[3]) == 3:
        return t[3][0][0] == "site" and t[3][0][2] == AP_KEY and t[3][1] == ("const", "usize", 1)
    return False


def rule_conc(filter_names=None):
    def f(crate, prop, tier):
        from .mem import complete_scan
        from .closures import capture_map
        o = Obl("CONC")
        prog = crate.prog
        fams = ap_families(crate)
        for root in fams:
            rf = prog.fns[root]
            if filter_names is not None and rf.get("name") not in filter_names:
                continue
            o.instances += 1
            who = prog.pretty[root]
            ws = worker_closures(crate, root)
            if not o.check(len(ws) >= 1 and all(c is not None for (_, _, _, c) in ws), who, "workers",
                           "no worker closure literal is spawned"):
                continue
            # thread count >= 1
            tc = False
            for p in family(crate, root):
                an = crate.an(p)
                for ev in an.events:
                    if ev["k"] == "call" and ev["key"] == "core::result::Result::map_or" and thread_count_ok(ev["res"]):
                        tc = True
            o.check(tc, who, "thread-count-at-least-1", "the thread count is not available_parallelism().map_or(1, NonZero::get)")
            for (sp, sb, skey, wc) in ws:
                span = crate.an(sp).blocks[sb]["tspan"]
                san = crate.an(sp)
                sfx = crate.fx(sp)
                # --- JOIN
                if skey.endswith("Scope::spawn"):
                    # scoped: the spawning body must be (nested in) the closure handed to thread::scope
                    scoped = False
                    cur = sp
                    while cur is not None and prog.fns[cur]["kind"] == "Closure" and not scoped:
                        par = prog.fns[cur].get("parent")
                        if par is None:
                            break
                        for ev in crate.an(par).events:
                            if ev["k"] == "call" and ev["key"] == SCOPE_KEY and any(a[0] == "agg" and a[1] == "closure" and a[2] == cur for a in ev["args"]):
                                scoped = True
                        cur = par
                    o.check(scoped, who, "join-scoped", "a scoped spawn outside thread::scope", span)
                else:
                    join_checks(crate, o, who, sp, sb, span)
                # --- WRITES inside the worker (and closures nested in it)
                for wp in [wc] + [c for c in crate.fn_paths() if prog.fns[c].get("parent") == wc]:
                    wan = crate.an(wp)
                    wfx = crate.fx(wp)
                    cm = capture_map(crate, wan)
                    for ev in wan.events:
                        if ev["k"] == "store":
                            reg = ev["region"]
                            if ev.get("via") == "core::ptr::write":
                                continue        # judged below as worker-ptr-write
                            if reg.startswith("L") and not _escapes_from_capture(wan, reg):
                                continue
                            o.check(_disjoint_store(crate, wan, wfx, ev), prog.pretty[wp], "worker-store",
                                    "a worker writes shared memory at a location that is not its own partition slot", ev["span"])
                        elif ev["k"] == "call" and ev["key"]:
                            k = ev["key"]
                            if k == "core::sync::atomic::Atomic::store":
                                o.check(const_is(ev["args"][1], 0), prog.pretty[wp], "flag-monotone",
                                        "a worker stores a value other than `false` into the shared flag (not monotone)", ev["span"])
                            elif k in ("std::sync::poison::mutex::Mutex::try_lock", "std::sync::poison::rwlock::RwLock::try_write",
                                       "std::sync::poison::rwlock::RwLock::try_read"):
                                o.check(False, prog.pretty[wp], "try-lock-in-worker",
                                        "a worker's control flow depends on whether another thread holds a lock (schedule-dependent result)", ev["span"])
                            elif through_lock(wan, wfx, ev["args"][0] if ev["args"] else None) and k not in COMMUTATIVE_UNDER_LOCK \
                                    and k not in LOCK_PLUMBING:
                                o.check(False, prog.pretty[wp], "non-commutative-under-lock",
                                        "a worker performs %s on state shared under a Mutex: the outcome depends on the order in which workers "
                                        "take the lock" % k.split("::")[-1], ev["span"])
                            elif k == "core::ptr::write":
                                c_, idx, kind = _root_of_ptr(crate, wan, ev["args"][0])
                                ok = idx is not None and _is_partition_var(wan, wfx, idx)
                                o.check(ok, prog.pretty[wp], "worker-ptr-write",
                                        "a worker writes through a shared raw pointer at an index that is not its loop variable over its own range", ev["span"])
            # --- a failing pair test is published before the next one is evaluated
            for (sp, sb, skey, wc) in ws:
                for wp in [wc] + [c for c in crate.fn_paths() if prog.fns[c].get("parent") == wc]:
                    r = failure_published(crate, wp)
                    if r is None:
                        continue
                    verdict, sp_, msg_ = r
                    if verdict == "undecided":
                        o.undecide(prog.pretty[wp], "flag-published-on-failure", msg_)
                    else:
                        o.check(verdict, prog.pretty[wp], "flag-published-on-failure", msg_, sp_)
            # --- scratch containers of a worker do not carry one row's contents into the next
            for (sp, sb, skey, wc) in ws:
                for wp in [wc] + [c for c in crate.fn_paths() if prog.fns[c].get("parent") == wc]:
                    for (ok_, sp_, msg_) in row_local_scratch(crate, wp):
                        o.check(ok_, prog.pretty[wp], "row-local-scratch", msg_, sp_)
            # --- no thread-count dependent shortcut around the parallel section
            for (x_, sp_) in ap_fast_paths(crate, root, ws):
                o.check(False, who, "thread-count-fast-path", "a branch on a value derived from available_parallelism() returns a result "
                        "without running the parallel section: the result is computed differently for some thread counts", sp_)
            # --- ROWS-COMPLETE: a worker may skip a row of an operand only when the row is outside it
            for (sp, sb, skey, wc) in ws:
                for (ok_, sp_, msg_) in rows_complete(crate, wc):
                    o.check(ok_, prog.pretty[wc], "rows-complete", msg_, sp_)
                for (ok_, sp_, msg_) in rows_merged(crate, wc):
                    o.check(ok_, prog.pretty[wc], "rows-merged", msg_, sp_)
            # --- TILE
            tiles = tile_templates(crate, root)
            tt = trusted_tiles().get(who)
            if tt is not None:
                o.check(True, who, "tile-trusted", "")
                for (ok_, sp_, msg_) in merge_partition_points(crate, root):
                    if ok_ == "undecided":
                        o.undecide(who, "merge-partition-points", msg_)
                    else:
                        o.check(ok_, who, "merge-partition-points", msg_, sp_)
                continue
            if not tiles and any(_range_partition_worker(crate, wc) for (_, _, _, wc) in ws if wc):
                o.check(False, who, "tile-template", "workers loop over a captured range start..end, but the way the ranges are "
                        "computed matches no proven tiling of 0..n (start = k*c, end = min(n, start+c), c = div_ceil(n, t); "
                        "or (0..n).step_by(c))")
            elif not tiles:
                o.undecide(who, "tile-template", "the partition of the rows over the workers matches no proven template "
                           "(start = k*c, end = min(n, start+c), c = div_ceil(n, t); or step_by(c) / chunks(c)); the tiling is not decided")
            else:
                o.check(True, who, "tile-template", "")
            for (tag, ok, sp_, msg) in tiles:
                if ok == "undecided":
                    o.undecide(who, "tile:" + tag, msg)
                else:
                    o.check(ok, who, "tile:" + tag, msg, sp_)
        # a sequential re-implementation of a parallel operation trivially satisfies the property, so the
        # floor only guards against the rule matching nothing at all
        fl = 1 if filter_names is None else 0
        return o.report(floors={"parallel operations (available_parallelism callers)": (o.instances, fl)})
    return f


def join_checks(crate, o, who, sp, sb, span):
    """every JoinHandle is kept in a Vec that a complete loop joins before any normal return: the handle is pushed
    in the spawning body, or the spawning body is a closure that returns it to a map(..).collect::<Vec<_>>()"""
    from .mem import complete_scan
    prog = crate.prog
    san = crate.an(sp)
    sfx = crate.fx(sp)
    spawn_ev = [ev for ev in san.events if ev["k"] == "call" and ev["b"] == sb][0]
    jan, jfx, hreg, start_b = None, None, None, None
    hval = None
    for ev in san.events:
        if ev["k"] == "call" and ev["key"] == "alloc::vec::Vec::push" and len(ev["args"]) == 2 and ev["args"][1] == spawn_ev["res"]:
            jan, jfx = san, sfx
            hreg = ev["args"][0][1] if ev["args"][0][0] == "addr" else None
            start_b = sb
    if jan is None and prog.fns[sp]["kind"] == "Closure":
        rets = [ev for ev in san.events if ev["k"] == "return"]
        par = prog.fns[sp].get("parent")
        if len(rets) == 1 and rets[0]["val"] == spawn_ev["res"] and par is not None:
            pan = crate.an(par)
            for ev in pan.events:
                if ev["k"] != "call" or ev["key"] != "core::iter::traits::iterator::Iterator::collect" or not ev["args"]:
                    continue
                if not any(isinstance(x.get("s"), str) and x["s"].startswith("std::vec::Vec<") for x in ev["fn"].get("targs", [])):
                    continue
                src = ev["args"][0]
                # the closure is the last map() of the collected pipeline: every item it produces is kept
                if src[0] == "call" and src[1] == "core::iter::traits::iterator::Iterator::map" and src[3][1][0] == "agg" \
                        and src[3][1][2] == sp:
                    mode, name, vp = pan.walk_place(pan.blocks[ev["b"]]["term"]["dest"])
                    jan, jfx, start_b = pan, crate.fx(par), ev["b"]
                    if mode == "mem":
                        hreg = name
                    else:
                        hval = ev["res"]
    if not o.check(jan is not None and (hreg is not None or hval is not None), who, "join-handle-kept", "a JoinHandle is dropped (detached thread)", span):
        return
    joined = None
    for ev in jan.events:
        if ev["k"] == "call" and ev["key"] == ITER_NEXT:
            d = jfx.iter_desc(ev)
            if d and d != "CYCLE" and ((hreg is not None and ((d[0] == "mem" and d[1] == hreg) or
                                                             (d[0] in ("site", "call") and jan.term_of.get((hreg, ev["vers"].get(hreg))) == d)))
                                       or (hval is not None and d == hval)):
                item = ("field", ("dc", ev["res"], "Some"), "0")
                body = jan.cfg.loops.get(jan.cfg.loop_of(ev["b"]), set())
                for e2 in jan.events:
                    if e2["k"] == "call" and e2["key"] in JOIN_KEYS and e2["b"] in body and e2["args"][0] == item:
                        joined = ev
    if o.check(joined is not None, who, "join-loop", "no loop joins every spawned handle", span):
        o.check(complete_scan(jan, jfx, joined), who, "join-all", "the join loop can end before every worker is joined", joined["span"])
        # no path from the spawn to a return that avoids the join loop's exhaustion edge
        exit_edges = set()
        for x in jan.cfg.rpo:
            e3 = jfx.ev_term.get(x)
            if e3 is not None and e3["k"] == "switch" and e3["discr"][0] == "discr" and e3["discr"][1] == joined["res"]:
                for tg, lab in jan.cfg.succ[x]:
                    if ("variant", joined["res"], "None") in jfx.edge_atoms(x, lab, tg):
                        exit_edges.add((x, tg))
        seen = set()
        work = [start_b]
        while work:
            x = work.pop()
            if x in seen:
                continue
            seen.add(x)
            for tg, lab in jan.cfg.succ[x]:
                if (x, tg) not in exit_edges:
                    work.append(tg)
        bad = [rb for rb in jan.cfg.returns if rb in seen]
        o.check(not bad and bool(exit_edges), who, "join-before-return",
                "a normal return is reachable from the spawn without the join loop having joined every worker", span)


def _after_loop(an, hb, rb):
    return True


def _escapes_from_capture(an, reg):
    return False


def _root_of_ptr(crate, an, P):
    from .mem import ptr_root
    C, idx, kind = ptr_root(P)
    return C, idx, kind


def _is_partition_var(an, fx, idx):
    """idx is the item of a `for u in start..end` loop whose bounds are captured scalars"""
    site, path = payload_of(idx)
    if site is None or path != ():
        return False
    ev = fx.an_call_at(site[1])
    if ev is None or ev["key"] != ITER_NEXT:
        return False
    d = fx.iter_desc(ev)
    return bool(d) and d != "CYCLE" and d[0] == "agg" and d[2][0].endswith("ops::range::Range")


def _disjoint_store(crate, an, fx, ev):
    c, idx = store_elem(ev)
    reg = ev["region"]
    ri = an.region_info.get(reg.split("#buf")[0])
    # stores through a captured `&mut` are exclusive by construction
    base = reg.split("#buf")[0]
    for r, info in an.region_info.items():
        if base.startswith(r) and info["ty"].get("k") == "ref" and info["ty"].get("mut"):
            return True
    bi = an.region_info.get(base)
    if bi is not None:
        # region reached through `&mut`-typed capture field
        pass
    if idx is not None and _is_partition_var(an, fx, idx):
        return True
    # an item of an iteration over a `&mut` slice the worker captured by value (a chunk handed out by chunks_mut): the
    # borrow checker gives the worker exclusive access to it
    from .origin import payload_of as _pl
    a_ = ev.get("addr")
    site_, path_ = _pl(a_) if a_ is not None else (None, None)
    if site_ is not None:
        nev = fx.an_call_at(site_[1])
        d_ = fx.iter_desc(nev) if nev is not None and nev["key"] == ITER_NEXT else None
        caps = an.f.get("captures", [])

        def excl(t, depth=0):
            if depth > 6 or not isinstance(t, tuple) or not t or t == "CYCLE":
                return False
            if t[0] in ("at", "addr") and isinstance(t[1], str):
                for k, cp in enumerate(caps):
                    if cp["ty"].get("k") == "ref" and cp["ty"].get("mut") and cp["mode"] == "ByValue" and \
                            t[1] in ("A1.%d*" % k, "L1.%d*" % k):
                        return True
                return False
            if t[0] == "call" and t[3]:
                return any(excl(x, depth + 1) for x in t[3])
            return False
        if d_ and excl(d_):
            return True
    # element of a captured &mut container (degree_sequence: local_indegrees)
    for k, cp in enumerate(an.f.get("captures", [])):
        if cp["ty"].get("k") == "ref" and cp["ty"].get("mut") and ("A1.%d" % k in reg or "L1.%d" % k in reg):
            return True
    return False


def tile_templates(crate, root):
    """[(tag, ok, span, message)] partition-shape obligations found in the family of root"""
    out = []
    prog = crate.prog
    for p in family(crate, root):
        an = crate.an(p)
        fx = crate.fx(p)
        for ev in an.events:
            if ev["k"] != "call":
                continue
            # template 1/2: end = min(n, start + c)
            if ev["key"] in ("core::cmp::Ord::min", "usize::min") and ev["res"][0] == "min":
                a, b = ev["res"][1], ev["res"][2]
                for s_, n in ((a, b), (b, a)):
                    xy = sum_parts(s_)
                    if not xy:
                        continue
                    for start, c in (xy, xy[::-1]):
                        dc = _chunk_def(crate, an, c)
                        if dc is None and not _is_chunk_like(crate, an, c):
                            continue
                        # `end = min(n, start + c)` with c derived from a division by the thread count: the row
                        # partition idiom; it tiles 0..n exactly when c = div_ceil(n, t) and start = k * c
                        if dc is None:
                            out.append(("chunk-is-div-ceil", False, ev["span"], "chunk size is not div_ceil(n, t): rows beyond t * chunk are never assigned"))
                        else:
                            nn, t = dc
                            okc = nn == n or _same_value(crate, an, nn, n)
                            out.append(("chunk-is-div-ceil", okc, ev["span"], "chunk size is not div_ceil(n, t) for the same n that bounds `end`"))
                        # start: k * c (k loop var) or item of step_by(0..n, c)
                        st_ok = False
                        if start[0] == "bin" and start[1] == "Mul" and c in (start[2], start[3]):
                            st_ok = True
                        # known to equal k * c (e.g. the tuple component a map() closure computed)
                        def is_mul(rel, start=start, c=c):
                            for a_ in rel.w:
                                if a_[0] == "eq" and start in a_[1:]:
                                    oth = a_[2] if a_[1] == start else a_[1]
                                    if oth[0] == "bin" and oth[1] == "Mul" and c in (oth[2], oth[3]):
                                        return True
                            return False
                        if not st_ok and fx.holds(ev["b"], is_mul):
                            st_ok = True
                        site, path = payload_of(start)
                        if site is not None:
                            e2 = fx.an_call_at(site[1])
                            d = fx.iter_desc(e2) if e2 else None
                            if d and d != "CYCLE" and d[0] == "call" and d[1].endswith("Iterator::enumerate") and path == (1,):
                                d = d[3][0]         # (k, start) of step_by(..).enumerate()
                            if d and d != "CYCLE" and d[0] == "call" and d[1].endswith("Iterator::step_by") and d[3][1] == c \
                                    and d[3][0][0] == "agg" and d[3][0][3][0] == ("const", "usize", 0) and \
                                    (d[3][0][3][1] == n or _same_value(crate, an, d[3][0][3][1], n)):
                                st_ok = True
                        if not st_ok and start == ("arg", 2) and an.f["kind"] == "Closure":
                            st_ok = _param_is_step_item(crate, an, c, n)
                        out.append(("start", st_ok, ev["span"], "range start is neither k * chunk nor an item of (0..n).step_by(chunk)"))
            # template 4: a strided worker `for u in (start..n).step_by(stride)` covers the rows start, start + stride, ..;
            # the workers tile 0..n exactly when they are started for start = 0, 1, .., stride - 1
            if ev["key"] == ITER_NEXT and an.f["kind"] == "Closure":
                d_ = fx.iter_desc(ev)
                if d_ and d_ != "CYCLE" and d_[0] == "call" and d_[1].endswith("Iterator::step_by") and len(d_[3]) == 2 \
                        and d_[3][0][0] == "agg" and d_[3][0][1] == "adt" and d_[3][0][2][0].endswith("ops::range::Range"):
                    lo_, st_ = d_[3][0][3][0], d_[3][1]

                    def cap_(t):
                        return (t[0] == "field" and t[1] == ("arg", 1)) or (t[0] == "mem" and t[1].startswith(("A1.", "L1.")) and t[3] is None)
                    if cap_(lo_) and cap_(st_):
                        from .closures import capture_map
                        cm_ = capture_map(crate, an)
                        ok_ = False
                        if cm_ is not None:
                            plo = [pv for pv, cv in cm_.valmap if cv == lo_]
                            pst = [pv for pv, cv in cm_.valmap if cv == st_]
                            pfx_ = crate.fx(cm_.pan.path)
                            for a_ in plo:
                                site_, path_ = payload_of(a_)
                                if site_ is None:
                                    continue
                                e2_ = pfx_.an_call_at(site_[1])
                                dd = pfx_.iter_desc(e2_) if e2_ else None
                                if dd and dd != "CYCLE" and dd[0] == "agg" and dd[1] == "adt" and dd[2][0].endswith("ops::range::Range") \
                                        and dd[3][0] == ("const", "usize", 0) and path_ == () and any(
                                            b_ == dd[3][1] or _same_value(crate, cm_.pan, b_, dd[3][1]) for b_ in pst):
                                    ok_ = True
                        out.append(("stride", ok_, ev["span"], "a worker strides over the rows (start..n).step_by(s), but the workers are not "
                                    "started for start = 0, 1, .., s - 1: rows whose index has another residue mod s are never visited"))
            # template 3: rows.chunks(c)
            if ev["key"] in ("slice::chunks", "slice::chunks_mut") and len(ev["args"]) == 2:
                dc = _chunk_def(crate, an, ev["args"][1])
                out.append(("chunks-div-ceil", dc is not None, ev["span"], "chunks() size is not div_ceil(n, t)"))
                # the chunks zipped with per-worker state: zip() stops at the shorter side, so the other side must have
                # one item per chunk (t items when the chunk size is div_ceil(n, t): ceil(n / ceil(n / t)) <= t)
                if dc is not None:
                    for zev in an.events:
                        if zev["k"] != "call" or zev["key"] != "core::iter::traits::iterator::Iterator::zip" or len(zev["args"]) != 2:
                            continue
                        sides = list(zev["args"])
                        if ev["res"] not in sides:
                            continue
                        Y = sides[1] if sides[0] == ev["res"] else sides[0]
                        if Y[0] == "call" and Y[1] in ("slice::chunks", "slice::chunks_mut", "slice::chunks_exact", "slice::chunks_exact_mut") \
                                and len(Y[3]) == 2 and Y[3][1] == ev["args"][1]:
                            continue        # two chunkings with the same chunk size
                        L, lvl = _partner_len(crate, an, Y)
                        if L is None:
                            out.append(("zip-covers-chunks", "undecided", zev["span"], "the length of what the chunks are zipped with is not known"))
                            continue
                        t_ = dc[1]
                        okz = L == t_ or (lvl is not None and _same_value(crate, lvl, L, t_))
                        out.append(("zip-covers-chunks", okz, zev["span"], "the row chunks are zipped with a sequence that is not known to have one item "
                                    "per chunk (t items for chunk size div_ceil(n, t)): zip() stops at the shorter side and the rows of the "
                                    "remaining chunks are silently dropped"))
    return out


def _partner_len(crate, an, Y):
    """(length term, analysis it is expressed in) of the container iterated by Y (iter / iter_mut / into_iter over a local or a
    container captured by reference)"""
    from .core import mk_len, strip_ref
    from .closures import capture_map
    t = Y
    while t[0] == "call" and t[3] and t[1] in ("slice::iter_mut", "slice::iter", "core::iter::traits::collect::IntoIterator::into_iter",
                                               "core::ops::deref::DerefMut::deref_mut", "core::ops::deref::Deref::deref",
                                               "alloc::vec::Vec::as_mut_slice", "alloc::vec::Vec::as_slice"):
        t = t[3][0]
    t = strip_ref(t)
    if t[0] != "at" or t[2] is not None:
        return None, None
    R = t[1]
    cm = capture_map(crate, an) if an.f["kind"] == "Closure" else None
    if cm is not None:
        for pr, cr in cm.regmap:
            if cr == R:
                pan = cm.pan
                b, i = cm.site
                from .closures import _vers_at
                L = mk_len(("at", pr, None, _vers_at(pan, b, i).get(pr, ("e",)), ()), pan)
                if not (L[0] == "len" and L[1][0] == "at" and L[1][1] == pr):
                    return L, pan
                vals = {mk_len(v, pan) for (var, ver), v in pan.term_of.items() if var == pr and v[0] == "call"}
                vals = {v for v in vals if v[0] != "len"}
                if len(vals) == 1:
                    return next(iter(vals)), pan
                return None, None
    L = mk_len(t, an)
    if L[0] == "len" and L[1] == t:
        return None, None
    return L, an


def _param_is_step_item(crate, can, c, n):
    """the closure is the argument of `(0..n).step_by(c).map(closure)`: its parameter is an item of that iterator"""
    from .closures import capture_map, MAP_LIKE
    cm = capture_map(crate, can)
    if cm is None:
        return False
    pan = cm.pan
    pfx = crate.fx(pan.path)
    for ev in pan.events:
        if ev["k"] != "call" or ev["key"] != "core::iter::traits::iterator::Iterator::map":
            continue
        if len(ev["args"]) < 2 or ev["args"][1] != cm.agg:
            continue
        d = ev["args"][0]
        if d[0] == "addr":
            d = pfx.iter_desc(ev)
        if not (d and d != "CYCLE" and d[0] == "call" and d[1].endswith("Iterator::step_by")):
            return False
        rng, step = d[3][0], d[3][1]
        if not (rng[0] == "agg" and rng[1] == "adt" and rng[2][0].endswith("ops::range::Range") and rng[3][0] == ("const", "usize", 0)):
            return False
        return c in cm.tr_all(step) and n in cm.tr_all(rng[3][1])
    return False


def ap_fast_paths(crate, root, ws):
    """[(block, span)]: two-way branches of the root function, outside every loop, whose condition depends on
    available_parallelism() and one side of which reaches a normal return without ever reaching a spawning block while
    the other side can reach one"""
    an = crate.an(root)
    fx = crate.fx(root)
    prog = crate.prog

    def mentions_ap(t):
        if isinstance(t, tuple) and t:
            if (t[0] == "site" and t[2] == AP_KEY) or (t[0] == "call" and t[1] == AP_KEY):
                return True
            if t[0] == "mem" and t[3] is None:
                v = an.term_of.get((t[1], t[2]))
                if v is not None and v != t and mentions_ap(v):
                    return True
            return any(mentions_ap(x) for x in t if isinstance(x, tuple))
        return False
    spawners = {sp for (sp, sb, skey, wc) in ws}
    spawn_blocks = set()
    for ev in an.events:
        if ev["k"] != "call":
            continue
        if ev["key"] in SPAWN_KEYS or ev["key"] == SCOPE_KEY:
            spawn_blocks.add(ev["b"])
        for a in ev["args"]:
            if a[0] == "agg" and a[1] == "closure":
                c = a[2]
                # the closure (or one nested in it) spawns
                if any(s == c or (prog.fns.get(s, {}).get("root") == root and s.startswith(c)) for s in spawners):
                    spawn_blocks.add(ev["b"])
    out = []
    if not spawn_blocks:
        return out
    for ev in an.events:
        if ev["k"] != "switch" or an.cfg.loop_of(ev["b"]) is not None or not mentions_ap(ev["discr"]):
            continue
        x = ev["b"]
        sides = []
        for tg, lab in an.cfg.succ[x]:
            if tg not in an.cfg.can_return:
                continue
            reach = an.cfg.reachable_from(tg)
            hits = bool(reach & spawn_blocks) or tg in spawn_blocks
            sides.append(hits)
        if len(sides) >= 2 and any(sides) and not all(sides):
            out.append((x, ev["span"]))
    return out


def _range_partition_worker(crate, wc):
    """the worker iterates `for u in start..end` with both bounds captured scalars"""
    an = crate.an(wc)
    fx = crate.fx(wc)

    def captured(t):
        return (t[0] == "field" and t[1] == ("arg", 1)) or (t[0] == "mem" and t[1].startswith("A1.") and t[3] is None)
    for ev in an.events:
        if ev["k"] == "call" and ev["key"] == ITER_NEXT:
            d = fx.iter_desc(ev)
            if d and d != "CYCLE" and d[0] == "agg" and d[1] == "adt" and d[2][0].endswith("ops::range::Range") \
                    and captured(d[3][0]) and captured(d[3][1]):
                return True
    return False


def _is_chunk_like(crate, an, c):
    """c is a captured or local scalar computed from a division by the thread count"""
    from .closures import capture_map

    def has_div(t):
        # the value itself is a quotient (possibly clamped), not merely something computed from one
        if isinstance(t, tuple) and t:
            if t[0] == "bin" and t[1] in ("Div", "Shr"):
                return True
            if t[0] == "call" and t[1] in ("usize::div_ceil", "usize::div_floor", "usize::checked_div"):
                return True
            if t[0] in ("max", "min"):
                return has_div(t[1]) or has_div(t[2])
        return False
    if has_div(c):
        return True
    cm = capture_map(crate, an)
    if cm is not None:
        for pv, cv in cm.valmap:
            if cv == c and (has_div(pv) or _is_chunk_like(crate, cm.pan, pv)):
                return True
    return False


def _chunk_def(crate, an, c):
    """(n, t) when c is div_ceil(n, t), looking through captured values"""
    from .closures import capture_map
    d = div_ceil_of(c)
    if d:
        return d
    if c[0] == "max" and any(x[0] == "const" for x in c[1:]):
        # div_ceil(n, t).max(1): the clamp only matters for n = 0
        oth = [x for x in c[1:] if x[0] != "const"]
        if len(oth) == 1:
            return _chunk_def(crate, an, oth[0])
    cm = capture_map(crate, an)
    if cm is not None:
        for pv, cv in cm.valmap:
            if cv == c:
                r = _chunk_def(crate, cm.pan, pv)
                if r:
                    n, t = r
                    for x in cm.tr_all(n):
                        return x, t
    if c[0] == "pval":
        return None
    return None


def _same_value(crate, an, a, b):
    fx = crate.fx(an.path)
    return a == b or fx.holds(0, lambda rel: rel.eq(a, b))


def merge_partition_points(crate, root):
    """[(ok, span, message)] for a trusted merge-path tiling (AdjacencyMap::union): the cut points handed to the partition search
    are pushed in a loop over k in 0..=t as a closed form f(k, n, t) of the loop item, the combined row count n and the thread
    count t = min(n, ..).  Whatever the search does with them, the workers cover all n rows only when f(0) = 0, f(t) = n and f
    is non-decreasing; the extracted term is evaluated with unsigned integer arithmetic for 1 <= t <= n <= 40."""
    an = crate.an(root)
    fx = crate.fx(root)
    out = []
    for ev in an.events:
        if not (ev["k"] == "call" and ev["key"] == "alloc::vec::Vec::push" and len(ev["args"]) == 2):
            continue
        val = ev["args"][1]
        if val[0] != "bin":
            continue
        # the loop item this value is computed from, and the range it runs over
        items = []

        def walk(t):
            if isinstance(t, tuple) and t:
                if t[0] == "field" and len(t) == 3 and t[2] == "0" and t[1][0] == "dc" and t[1][2] == "Some" and t[1][1][0] == "site" \
                        and t[1][1][2] == ITER_NEXT:
                    items.append(t)
                    return
                for x in t:
                    walk(x)
        walk(val)
        if len(set(items)) != 1:
            continue
        item = items[0]
        nev = [e for e in an.events if e["k"] == "call" and e.get("res") == item[1][1]]
        d = fx.iter_desc(nev[0]) if nev else None
        if not (d and d[0] == "call" and d[1] == "core::ops::range::RangeInclusive::new" and len(d[3]) == 2 and const_is(d[3][0], 0)):
            if d and d[0] == "call" and d[1].startswith("core::ops::range::Range") and _mentions_any(val, ("Div", "Mul")):
                out.append(("undecided", ev["span"], "cut points are computed in a loop that is not `for k in 0..=t`"))
            continue
        T = d[3][1]
        if not (T[0] == "min" and len(T) == 3):
            out.append(("undecided", ev["span"], "the number of cut points is not min(n, thread count)"))
            continue
        Ns = [x for x in T[1:] if not _mentions_call(x, "core::result::Result::map_or")]
        if len(Ns) != 1:
            out.append(("undecided", ev["span"], "the number of cut points is not min(n, thread count)"))
            continue
        N = Ns[0]

        def ev_(t, k, n, tc):
            if t == item:
                return k
            if t == N:
                return n
            if t == T:
                return tc
            if t[0] == "const" and isinstance(t[2], int):
                return t[2]
            if t[0] == "call" and t[1] in ("core::num::div_ceil",) and len(t[3]) == 2:
                a, b = ev_(t[3][0], k, n, tc), ev_(t[3][1], k, n, tc)
                return None if a is None or not b else -(-a // b)
            if t[0] == "min" and len(t) == 3:
                a, b = ev_(t[1], k, n, tc), ev_(t[2], k, n, tc)
                return None if a is None or b is None else min(a, b)
            if t[0] == "bin":
                a, b = ev_(t[2], k, n, tc), ev_(t[3], k, n, tc)
                if a is None or b is None:
                    return None
                op = t[1]
                if op == "Add":
                    return a + b
                if op == "Sub":
                    return a - b if a >= b else None
                if op == "Mul":
                    return a * b
                if op == "Div":
                    return a // b if b else None
                if op == "Rem":
                    return a % b if b else None
            return None
        if ev_(val, 1, 3, 2) is None:
            out.append(("undecided", ev["span"], "the cut points are not a closed form of the loop item, the row count and the thread count"))
            continue
        bad = None
        for n in range(1, 41):
            for tc in range(1, n + 1):
                f = [ev_(val, k, n, tc) for k in range(tc + 1)]
                if None in f or f[0] != 0 or f[-1] != n or any(a > b for a, b in zip(f, f[1:])):
                    bad = (n, tc, f)
                    break
            if bad:
                break
        out.append((bad is None, ev["span"], "the cut points of the merge do not run from 0 to the combined row count n in non-decreasing "
                    "steps (n = %s rows on t = %s workers gives %s): rows beyond the last cut point are merged by no worker and vanish "
                    "from the result for some thread counts" % (bad if bad else ("-", "-", "-"))))
    if not out:
        out.append(("undecided", None, "no cut points of the form f(k, n, t) pushed in a loop over 0..=t were found"))
    return out


def _mentions_any(t, ops):
    return isinstance(t, tuple) and bool(t) and ((t[0] == "bin" and t[1] in ops) or any(_mentions_any(x, ops) for x in t))


def _mentions_call(t, key):
    return isinstance(t, tuple) and bool(t) and ((t[0] == "call" and t[1] == key) or any(_mentions_call(x, key) for x in t))


def trusted_tiles():
    import json
    try:
        return {e["fn"]: e for e in json.load(open("/verif/tables/trusted_tiles.json"))}
    except FileNotFoundError:
        return {}


def rows_complete(crate, wc):
    """[(ok, span, message)]: for every conditional read of row u of an operand through a raw pointer
    (u the worker's partition variable), the branch that does not read must know u >= len(operand)"""
    from .mem import root_bounds
    out = []
    an = crate.an(wc)
    fx = crate.fx(wc)
    for ev in an.events:
        if ev["k"] != "call" or ev["key"] != "rawptr::add":
            continue
        P, u = ev["args"]
        if not _is_partition_var(an, fx, u):
            continue
        Bs = [B for B in root_bounds(crate, an, P) if B[0] == "len"]
        if not Bs:
            continue
        b = ev["b"]
        # nearest dominating switch that decides whether b executes
        x = an.cfg.idom.get(b)
        seen = set()
        ctl = None
        while x is not None and x not in seen:
            seen.add(x)
            e2 = fx.ev_term.get(x)
            if e2 is not None and e2["k"] == "switch" and len(an.cfg.succ[x]) >= 2:
                reach = [tg for tg, _ in an.cfg.succ[x] if b in an.cfg.reachable_from(tg, avoid={x})]
                other = [tg for tg, _ in an.cfg.succ[x] if b not in an.cfg.reachable_from(tg, avoid={x})]
                if reach and other:
                    # only switches inside the partition loop count
                    lp = an.cfg.loop_of(b)
                    if lp is not None and x in an.cfg.loops[lp] and _mentions(e2["discr"], u) or \
                            (lp is not None and x in an.cfg.loops[lp] and e2["discr"][0] == "bin"):
                        ctl = (x, other)
                        break
            if x == 0:
                break
            x = an.cfg.idom.get(x)
        if ctl is None:
            continue
        x, other = ctl
        for tg in other:
            if tg not in an.cfg.can_return:
                continue
            ok = any(fx.holds(tg, lambda rel, B=B: rel.le(B, u)) for B in Bs)
            out.append((ok, ev["span"], "a row of an operand can be skipped although it exists: the branch that does not read row u "
                        "does not establish u >= len(operand rows)"))
    return out


def rows_merged(crate, wc):
    """[(ok, span, message)]: store-centric complement of rows_complete.  Where a worker writes result row u through a raw
    pointer (u its partition variable) and reads rows of operands through raw pointers indexed by a partition variable,
    every write of row u is preceded, on every path from the definition of u, by a read of row u of each operand X or by
    a test that establishes u >= len(rows of X); or u >= len(rows of X) is known at the write.  A chunk-wide shortcut that
    copies one operand without that knowledge drops the other operand's rows for some tilings only."""
    from .mem import root_bounds
    from .facts import Rel
    out = []
    an = crate.an(wc)
    fx = crate.fx(wc)
    adds = [ev for ev in an.events if ev["k"] == "call" and ev["key"] == "rawptr::add" and len(ev["args"]) == 2
            and _is_partition_var(an, fx, ev["args"][1])]
    if not adds:
        return out
    writes = []
    for ev in an.events:
        tgt = None
        if ev["k"] == "call" and ev["key"] == "core::ptr::write" and ev["args"]:
            tgt = ev["args"][0]
        elif ev["k"] == "store" and ev.get("addr") is not None and ev.get("via") is None:
            tgt = ev["addr"]
        if tgt is not None and tgt[0] == "call" and tgt[1] == "rawptr::add" and len(tgt[3]) == 2 and _is_partition_var(an, fx, tgt[3][1]):
            writes.append((ev, tgt[3][0], tgt[3][1]))
    if not writes:
        return out
    result_ptrs = {P for _, P, _ in writes}
    operands = {}
    for ev in adds:
        P = ev["args"][0]
        if P in result_ptrs or P in operands:
            continue
        Bs = [B for B in root_bounds(crate, an, P) if B[0] == "len"]
        if Bs:
            operands[P] = Bs
    if not operands:
        return out
    for wev, Pr, u in writes:
        site, _ = payload_of(u)
        start = site[1]
        sb = wev["b"]
        for P, Bs in operands.items():
            if any(fx.holds(sb, lambda rel, B=B: rel.le(B, u)) for B in Bs):
                out.append((True, wev["span"], ""))
                continue
            reads = {ev["b"] for ev in adds if ev["args"][0] == P and ev["args"][1] == u}
            seen, work, bad = set(), [tg for tg, _ in an.cfg.succ[start]], False
            # edges out of `start` carry no operand test
            while work:
                x = work.pop()
                if x in seen or x == start:
                    continue
                seen.add(x)
                if x in reads:
                    continue
                if x == sb:
                    bad = True
                    break
                for tg, lab in an.cfg.succ[x]:
                    atoms = frozenset(fx.close(fx.edge_atoms(x, lab, tg)))
                    rel = Rel(atoms, an)
                    if any(rel.le(B, u) for B in Bs):
                        continue
                    work.append(tg)
            out.append((not bad, wev["span"], "result row u is written on a path that neither reads row u of an operand nor knows that the "
                        "operand has no row u (u >= its length): that operand's arcs are dropped for the rows of this path, and "
                        "which rows take it depends on the chunk boundaries"))
    return out


COMMUTATIVE_UNDER_LOCK = {"alloc::collections::btree::set::BTreeSet::insert"}
LOCK_PLUMBING = {"core::ops::deref::DerefMut::deref_mut", "core::ops::deref::Deref::deref", "core::result::Result::unwrap_unchecked",
                 "core::result::Result::unwrap", "core::result::Result::expect", "std::sync::poison::mutex::Mutex::lock",
                 "core::mem::drop"}


def through_lock(an, fx, t, depth=0):
    """the receiver term reaches its object through a Mutex::lock() guard"""
    if t is None or depth > 10 or not isinstance(t, tuple) or not t:
        return False
    if t[0] == "site":
        ev = fx.an_call_at(t[1])
        if ev is None:
            return False
        if ev["key"] == "std::sync::poison::mutex::Mutex::lock":
            return True
        return bool(ev["args"]) and through_lock(an, fx, ev["args"][0], depth + 1)
    if t[0] == "call" and t[3]:
        return through_lock(an, fx, t[3][0], depth + 1)
    if t[0] in ("field", "dc"):
        return through_lock(an, fx, t[1], depth + 1)
    if t[0] in ("addr", "at") and t[2] is None:
        vals = [v for (var, ver), v in an.term_of.items() if var == t[1] and v[0] != "opq"]
        return len(vals) == 1 and through_lock(an, fx, vals[0], depth + 1)
    if t[0] == "addr" and t[2] is not None:
        return through_lock(an, fx, t[2], depth + 1)
    return False


TEST_KEYS = ("alloc::collections::btree::set::BTreeSet::contains", "alloc::collections::btree::map::BTreeMap::contains_key",
             "graaf::op::has_arc::HasArc::has_arc")


def failure_published(crate, wp):
    """A worker that shares an `AtomicBool` verdict and tests pairs with two membership tests (the pair fails when both are
    false): on every path that starts where both tests have just failed, `false` is stored into the flag before the next
    membership test is evaluated or the worker returns.  Paths are followed with constant propagation of the two test
    results through phis and negations; iterator results and loads of the flag are free.
    Returns None (not such a worker), ("undecided", None, why), or (bool, span, message)."""
    an = crate.an(wp)
    fx = crate.fx(wp)
    stores = [ev for ev in an.events if ev["k"] == "call" and ev["key"] == "core::sync::atomic::Atomic::store"]
    tests = [ev for ev in an.events if ev["k"] == "call" and ev["key"] in TEST_KEYS]
    if not stores or not tests:
        return None
    if len(tests) != 2:
        return ("undecided", None, "the worker does not test a pair with exactly two membership tests")
    c1, c2 = tests
    if an.cfg.dominates(c2["b"], c1["b"]) and c1["b"] != c2["b"]:
        c1, c2 = c2, c1
    if not an.cfg.dominates(c1["b"], c2["b"]) or not fx.holds(c2["b"], lambda rel: rel.has(("false", c1["res"]))):
        return ("undecided", None, "the second membership test is not evaluated exactly when the first one failed")
    store_blocks = {ev["b"] for ev in stores if ev["args"][1] == ("const", "bool", 0)}
    test_blocks = {c1["b"], c2["b"]}

    def ev_(t, env):
        if t in env:
            return env[t]
        if t[0] == "const" and t[1] == "bool":
            return bool(t[2])
        if t[0] == "un" and t[1] == "Not":
            v = ev_(t[2], env)
            return None if v is None else not v
        if t[0] == "bin" and t[1] in ("Eq", "Ne") and (t[2][0] == "const" or t[3][0] == "const"):
            x, k = (t[3], t[2]) if t[2][0] == "const" else (t[2], t[3])
            v = ev_(x, env)
            if v is None or k[1] != "bool":
                return None
            return (v == bool(k[2])) if t[1] == "Eq" else (v != bool(k[2]))
        return None

    def local_dependent(t):
        # a value the analysis does not follow: a memory-resident local or an unresolved join
        if isinstance(t, tuple) and t:
            if t[0] == "phi":
                return True
            if t[0] == "mem" and isinstance(t[1], str) and t[1].startswith("L") and not t[1].startswith("L1."):
                return True
            return any(local_dependent(x) for x in t if isinstance(x, tuple))
        return False
    start = an.blocks[c2["b"]]["term"].get("target")
    if start is None:
        return ("undecided", None, "the second membership test has no normal successor")
    env0 = {c1["res"]: False, c2["res"]: False}
    seen = set()
    work = [(c2["b"], start, env0, False)]
    bad_certain = bad_uncertain = None
    steps = 0
    while work:
        frm, b, env, unc = work.pop()
        steps += 1
        if steps > 20000:
            return ("undecided", None, "path exploration budget exhausted")
        # phi transfer along frm -> b
        env = dict(env)
        if frm in an.ver_out:
            for var in an.phis.get(b, ()):
                if not var.startswith("v"):
                    continue
                v = ev_(an.var_term(an.ver_out[frm], var), env)
                k = ("phi", b, var)
                if v is None:
                    env.pop(k, None)
                else:
                    env[k] = v
        key = (b, frozenset(env.items()), unc)
        if key in seen:
            continue
        seen.add(key)
        if b in store_blocks:
            continue
        if b in test_blocks or b in an.cfg.returns:
            what = "the next pair is tested" if b in test_blocks else "the worker returns"
            if unc:
                bad_uncertain = bad_uncertain or what
            else:
                bad_certain = bad_certain or what
            continue
        succ = [(tg, lab) for tg, lab in an.cfg.succ[b] if tg in an.cfg.can_return]
        evt = fx.ev_term.get(b)
        unc2 = unc
        if evt is not None and evt["k"] == "switch" and fx.is_bool_switch(b):
            v = ev_(evt["discr"], env)
            if v is not None:
                keep = []
                for tg, lab in succ:
                    t_ = (int(lab[1]) != 0) if lab[0] == "sw" else (0 in [int(x) for x in lab[1]])
                    if t_ == v:
                        keep.append((tg, lab))
                succ = keep
            elif local_dependent(evt["discr"]):
                unc2 = True
        for tg, lab in succ:
            work.append((b, tg, env, unc2))
    sp = c2["span"]
    if bad_certain:
        return (False, sp, "after a pair has failed both membership tests, %s before `false` is stored into the shared flag: the "
                "failure can be overwritten or lost, and whether it is depends on how rows are distributed over the workers" % bad_certain)
    if bad_uncertain:
        return ("undecided", None, "whether a failed pair is always published depends on a local the rule does not follow")
    return (True, sp, "")


CONTAINER_NAMES = ("Vec", "BTreeSet", "BTreeMap", "VecDeque", "BinaryHeap", "HashSet", "HashMap", "String")
RESET_CALLS = ("::clear",)
FILL_CALLS = ("::push", "::push_back", "::insert", "::extend", "::extend_from_slice", "::append", "::resize", "::truncate", "::retain",
              "::sort", "::sort_unstable", "::dedup", "::reserve", "::remove", "::pop", "::pop_first", "::pop_last", "::pop_front",
              "::pop_back", "::swap_remove", "::drain", "::take", "::split_off", "::push_front")


def row_local_scratch(crate, wp):
    """[(ok, span, message)]: in a worker's loop over its own row range, a local container that was created before the loop,
    is refilled inside it and is read inside it must be emptied (clear() / reassigned) on every path of the iteration before
    it is read; otherwise what a later row sees depends on which rows share a worker, i.e. on the thread count"""
    an = crate.an(wp)
    fx = crate.fx(wp)
    out = []
    loops = []
    for ev in an.events:
        if ev["k"] == "call" and ev["key"] == ITER_NEXT:
            d = fx.iter_desc(ev)
            if d and d != "CYCLE" and d[0] == "agg" and d[1] == "adt" and d[2][0].endswith("ops::range::Range"):
                h = an.cfg.loop_of(ev["b"])
                if h is not None:
                    loops.append((h, an.cfg.loops[h]))
    if not loops:
        return out

    def mentions_region(t, R):
        if isinstance(t, tuple) and t:
            if t[0] in ("at", "addr", "mem") and t[1] == R:
                return True
            return any(mentions_region(x, R) for x in t if isinstance(x, tuple))
        return False
    for R, ri in an.region_info.items():
        if not (R.startswith("L") and R[1:].isdigit() and ri["ty"].get("k") == "adt" and ri["ty"].get("name") in CONTAINER_NAMES):
            continue
        for h, body in loops:
            # outermost row loop only: the container is created outside it
            creates = [ev for ev in an.events if ((ev["k"] == "store" and ev["region"] == R) or
                                                  (ev["k"] == "call" and _dest_region(an, ev) == R))]
            if not creates or any(ev["b"] in body for ev in creates):
                continue
            resets, fills, reads = [], [], []
            for ev in an.events:
                if ev["b"] not in body:
                    continue
                if ev["k"] == "store" and ev["region"] == R:
                    resets.append(ev)
                    continue
                if ev["k"] != "call" or not ev["key"]:
                    continue
                a0 = ev["args"][0] if ev["args"] else None
                direct = a0 is not None and a0[0] == "addr" and a0[1] == R and a0[2] is None
                if direct and ev["key"].endswith(RESET_CALLS):
                    resets.append(ev)
                elif direct and ev["key"].endswith(FILL_CALLS):
                    fills.append(ev)
                elif _dest_region(an, ev) == R:
                    resets.append(ev)
                elif any(mentions_region(a, R) for a in ev["args"]):
                    reads.append(ev)
            if not fills or not reads:
                continue
            if _balanced_edits(an, fills):
                continue
            for r in reads:
                ok = any(an.cfg.dominates(s_["b"], r["b"]) for s_ in resets)
                out.append((ok, r["span"], "a scratch container created before the row loop is read here without having been emptied on "
                            "every path of this iteration: it can still hold the previous row's contents"))
    return out


def _balanced_edits(an, fills):
    """the only edits are `c.remove(&k)` .. `c.insert(k)` pairs on the same key, the insert on every path after the remove:
    the container leaves the iteration as it entered it"""
    def keyval(t):
        if t[0] in ("addr", "at") and t[2] is None:
            vals = {v for (var, ver), v in an.term_of.items() if var == t[1] and v[0] != "opq"}
            if len(vals) == 1:
                return next(iter(vals))
        return t
    rem = [e for e in fills if e["key"].endswith("::remove")]
    ins = [e for e in fills if e["key"].endswith("::insert")]
    if not rem or len(rem) + len(ins) != len(fills) or len(rem) != len(ins):
        return False
    for r in rem:
        if len(r["args"]) != 2:
            return False
        k = keyval(r["args"][1])
        if not any(len(i["args"]) == 2 and keyval(i["args"][1]) == k and an.cfg.dominates(r["b"], i["b"])
                   and an.cfg.postdominates(i["b"], r["b"]) for i in ins):
            return False
    return True


def _dest_region(an, ev):
    t = an.blocks[ev["b"]]["term"]
    if t.get("k") != "call" or t.get("dest") is None:
        return None
    try:
        md, nm, _ = an.walk_place(t["dest"])
    except Exception:
        return None
    return nm if md == "mem" else None
