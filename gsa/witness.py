"""Compile-fail witnesses (DESIGN §2.3): run in the thorough tier for the properties that rely on
the type-level facts they confirm. The witness crate is instantiated in a scratch directory with a
path dependency on the analysed tree, built with `cargo +nightly test --doc --offline`, and removed."""
import os
import re
import shutil
import subprocess
import tempfile

VERIF = os.path.dirname(os.path.dirname(os.path.abspath(__file__)))
WITNESSES_FOR = {
    "C01": ["W1"], "C20": ["W1"], "C02": ["W2", "W6"], "C11": ["W6"],
    "C03": ["W2"], "C04": ["W2"], "C05": ["W2"], "C06": ["W2"],
    "C07": ["W3"], "C08": ["W4"], "C13": ["W2", "W3", "W4", "W5"],
}


def run_witnesses(prop):
    want = WITNESSES_FOR.get(prop)
    if not want:
        return {}
    repo = os.environ.get("GSA_REPO", "/repo")
    tmp = tempfile.mkdtemp(prefix="gsa-witness.")
    try:
        os.makedirs(os.path.join(tmp, "src"))
        shutil.copy(os.path.join(VERIF, "witness", "src", "lib.rs"), os.path.join(tmp, "src", "lib.rs"))
        open(os.path.join(tmp, "Cargo.toml"), "w").write(
            '[package]\nname = "gsa-witness"\nversion = "0.1.0"\nedition = "2021"\n\n[workspace]\n\n'
            '[dependencies]\ngraaf = { path = "%s" }\n' % repo)
        env = dict(os.environ, CARGO_NET_OFFLINE="true", CARGO_TARGET_DIR=os.path.join(tmp, "target"))
        r = subprocess.run(["cargo", "+nightly", "test", "--doc", "--offline"], cwd=tmp, env=env,
                           capture_output=True, text=True)
        out = r.stdout + r.stderr
        res = {}
        for m in re.finditer(r"test src/lib.rs - (W\d)\w* \(line (\d+)\)( - compile fail)? \.\.\. (\w+)", out):
            res.setdefault(m.group(1), []).append({"line": int(m.group(2)), "compile_fail": bool(m.group(3)), "result": m.group(4)})
        summary = {}
        ok = True
        for w in want:
            tests = res.get(w, [])
            good = bool(tests) and all(t["result"] == "ok" for t in tests)
            summary[w] = {"tests": len(tests), "ok": good}
            ok = ok and good
        print("witnesses %s: %s" % (",".join(want), "ok" if ok else "FAILED"))
        if not ok:
            print(out[-1500:])
        return {"witnesses": summary, "witnesses_ok": ok}
    finally:
        shutil.rmtree(tmp, ignore_errors=True)
