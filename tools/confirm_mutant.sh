#!/bin/bash
# usage: tools/confirm_mutant.sh <seed-name> <worktree> <demo-test-name> [miri]
# Confirms a seeded change produced in <worktree>: demo fails with / passes without the change, the full
# lib suite passes with it, then runs every check against the worktree and records which ones alarm.
set -u
NAME="$1"; W="$2"; DEMO="$3"; MIRI="${4:-}"
OUT=/verif/seeded/$NAME; mkdir -p "$OUT"
cd "$W" || exit 2
git diff -- src > "$OUT/patch.diff"
cp "tests/$DEMO.rs" "$OUT/$DEMO.rs"
run_demo() { if [ -n "$MIRI" ]; then cargo +nightly miri test --offline --test "$DEMO" >/tmp/demo_$NAME.log 2>&1; else cargo test --offline --test "$DEMO" >/tmp/demo_$NAME.log 2>&1; fi; echo $?; }
with=$(run_demo); tail -3 /tmp/demo_$NAME.log > "$OUT/demo_with_change.txt"
git stash -q
without=$(run_demo); tail -3 /tmp/demo_$NAME.log > "$OUT/demo_without_change.txt"
git stash pop -q
suite=$(cargo test --offline --lib 2>&1 | grep "test result" | tail -1)
echo "demo with change: exit $with ; without: exit $without ; suite: $suite"
alarms=""
for c in C01 C02 C03 C04 C05 C06 C07 C08 C11 C12 C13 C14 C15 C16 C17 C18 C19 C20; do
  out=$(cd /verif && GSA_REPO="$W" GSA_NO_EVIDENCE=1 ./check $c 2>&1); rc=$?
  if [ $rc -eq 1 ]; then alarms="$alarms $c"; echo "$out" | grep "violation rule" | head -4 | sed "s/^/   [$c]/"; fi
done
echo "alarms:${alarms}"
echo "{\"demo_exit_with_change\": $with, \"demo_exit_without_change\": $without, \"suite\": \"$suite\", \"alarms\": \"${alarms# }\"}" > "$OUT/confirm.json"
