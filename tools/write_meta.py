#!/usr/bin/env python3
"""usage: tools/write_meta.py <Cxx-rN> <what> <needs> <caught_by_previous:0|1> <caught_by-rule-or-''>
Writes seeded/<name>/meta.json from seeded/<name>/confirm.json (produced by tools/confirm_mutant<N>.sh)."""
import json, sys, os
name, what, needs, prev, by = sys.argv[1:6]
d = os.path.join(os.path.dirname(os.path.dirname(os.path.abspath(__file__))), 'seeded', name)
c = json.load(open(os.path.join(d, 'confirm.json')))
P = name.split('-')[0]; rnd = name.split('-r')[-1]
meta = {
    "breaks_property": P, "what": what, "needs_to_manifest": needs,
    "produced_by": f"round {rnd}: independent sub-agent (one agent per two properties, one scratch worktree per property) given only the property text and the list of eleven earlier ideas to avoid; small edits requested",
    "confirmed": {"demo_fails_with_change": c["demo_exit_with_change"] != 0,
                  "demo_passes_without_change": c["demo_exit_without_change"] == 0,
                  "existing_suite_with_change": c["suite"], "miri": c.get("miri", ""), "taskset": c.get("taskset", "")},
    "ran": [f"tools/confirm_mutant{rnd}.sh {P}" + (" miri" if c.get("miri") else "")],
    "caught_by_previous_version": prev == "1", "caught_by": by, "alarms_at_confirmation": c["alarms"],
}
json.dump(meta, open(os.path.join(d, 'meta.json'), 'w'), indent=1)
print(name, "ok" if meta["confirmed"]["demo_fails_with_change"] and meta["confirmed"]["demo_passes_without_change"] and "3514 passed; 0 failed" in c["suite"] else "NOT CONFIRMED")
