"""Effect classes of callees (the std semantics table of DESIGN §2.4).

PURE: performs no write to memory the caller can name; its result is a
function of its arguments and of memory reachable from reference arguments.
Everything not listed here is classified by its argument types (core.py):
an argument that can carry mutable access makes the call a potential writer of
everything reachable from that argument.
"""

# callee keys (see load.callee_key)
PURE = {
    # address computations / header reads on containers taking &mut or raw ptr
    "alloc::vec::Vec::as_mut_ptr", "alloc::vec::Vec::as_ptr", "alloc::vec::Vec::len",
    "alloc::vec::Vec::is_empty", "alloc::vec::Vec::capacity",
    "alloc::vec::Vec::as_slice", "alloc::vec::Vec::as_mut_slice",
    "slice::as_mut_ptr", "slice::as_ptr", "slice::len", "slice::is_empty",
    "slice::get", "slice::get_mut", "slice::get_unchecked", "slice::get_unchecked_mut",
    "slice::iter", "slice::iter_mut", "slice::chunks", "slice::first", "slice::last",
    "rawptr::add", "rawptr::offset", "rawptr::sub", "rawptr::as_mut", "rawptr::as_ref",
    "rawptr::cast", "rawptr::cast_mut", "rawptr::cast_const", "rawptr::is_null",
    "core::ops::deref::Deref::deref", "core::ops::deref::DerefMut::deref_mut",
    "core::ops::index::Index::index", "core::ops::index::IndexMut::index_mut",
    "alloc::collections::btree::map::BTreeMap::get_mut",
    "alloc::collections::btree::map::BTreeMap::get",
    "alloc::collections::btree::map::BTreeMap::contains_key",
    "alloc::collections::btree::map::BTreeMap::iter",
    "alloc::collections::btree::map::BTreeMap::iter_mut",
    "alloc::collections::btree::map::BTreeMap::keys",
    "alloc::collections::btree::map::BTreeMap::values",
    "alloc::collections::btree::map::BTreeMap::len",
    "alloc::collections::btree::map::BTreeMap::is_empty",
    "alloc::collections::btree::set::BTreeSet::contains",
    "alloc::collections::btree::set::BTreeSet::iter",
    "alloc::collections::btree::set::BTreeSet::len",
    "alloc::collections::btree::set::BTreeSet::is_empty",
    "alloc::collections::btree::set::BTreeSet::difference",
    "alloc::collections::vec_deque::VecDeque::len",
    "alloc::collections::binary_heap::BinaryHeap::len",
    # lazy iterator adaptor constructors and identity conversions
    "core::iter::traits::collect::IntoIterator::into_iter",
    "core::iter::traits::iterator::Iterator::map",
    "core::iter::traits::iterator::Iterator::filter",
    "core::iter::traits::iterator::Iterator::filter_map",
    "core::iter::traits::iterator::Iterator::flat_map",
    "core::iter::traits::iterator::Iterator::enumerate",
    "core::iter::traits::iterator::Iterator::zip",
    "core::iter::traits::iterator::Iterator::chain",
    "core::iter::traits::iterator::Iterator::copied",
    "core::iter::traits::iterator::Iterator::cloned",
    "core::iter::traits::iterator::Iterator::skip",
    "core::iter::traits::iterator::Iterator::step_by",
    "core::iter::traits::iterator::Iterator::rev",
    "core::iter::traits::iterator::Iterator::by_ref",
    "core::iter::traits::iterator::Iterator::take",
    "core::iter::sources::once::once", "core::iter::sources::repeat_n::repeat_n",
    # plain value functions that take a closure but only call it on values
    "core::mem::manually_drop::ManuallyDrop::new",
    "core::clone::Clone::clone",
    "alloc::sync::Arc::new",
    "core::option::Option::unwrap_unchecked", "core::result::Result::unwrap_unchecked",
}

# result points into the heap buffer / pointee of what arg0 points to
RET_ARG0_BUF = {
    "alloc::vec::Vec::as_mut_ptr", "alloc::vec::Vec::as_ptr", "slice::as_mut_ptr", "slice::as_ptr",
    "alloc::vec::Vec::as_slice", "alloc::vec::Vec::as_mut_slice",
    "slice::get", "slice::get_mut", "slice::get_unchecked", "slice::get_unchecked_mut",
    "slice::iter", "slice::iter_mut", "slice::chunks", "slice::first", "slice::last",
    "core::ops::deref::Deref::deref", "core::ops::deref::DerefMut::deref_mut",
    "core::ops::index::Index::index", "core::ops::index::IndexMut::index_mut",
    "alloc::collections::btree::map::BTreeMap::get_mut",
    "alloc::collections::btree::map::BTreeMap::get",
    "alloc::collections::btree::map::BTreeMap::iter",
    "alloc::collections::btree::map::BTreeMap::iter_mut",
    "alloc::collections::btree::map::BTreeMap::keys",
    "alloc::collections::btree::map::BTreeMap::values",
    "alloc::collections::btree::set::BTreeSet::iter",
}

# result is the same pointer (plus offset) as arg0
RET_ARG0 = {
    "rawptr::add", "rawptr::offset", "rawptr::sub", "rawptr::cast", "rawptr::cast_mut",
    "rawptr::cast_const", "rawptr::as_mut", "rawptr::as_ref",
    "core::iter::traits::iterator::Iterator::by_ref",
}

# pure callees whose result depends only on the container header (length,
# buffer address), not on element contents
HEADER_ONLY = {
    "alloc::vec::Vec::as_mut_ptr", "alloc::vec::Vec::as_ptr", "alloc::vec::Vec::len",
    "alloc::vec::Vec::is_empty", "alloc::vec::Vec::capacity",
    "alloc::vec::Vec::as_slice", "alloc::vec::Vec::as_mut_slice",
    "slice::as_mut_ptr", "slice::as_ptr", "slice::len", "slice::is_empty",
    "slice::get_unchecked", "slice::get_unchecked_mut", "slice::get", "slice::get_mut",
    "slice::iter", "slice::iter_mut", "slice::chunks",
    "core::ops::deref::Deref::deref", "core::ops::deref::DerefMut::deref_mut",
    "core::ops::index::Index::index", "core::ops::index::IndexMut::index_mut",
    "alloc::collections::btree::map::BTreeMap::len",
    "alloc::collections::btree::set::BTreeSet::len",
    "alloc::collections::vec_deque::VecDeque::len",
    "rawptr::add", "rawptr::offset", "rawptr::sub",
}

LEN_KEYS = {
    "alloc::vec::Vec::len", "slice::len", "alloc::collections::vec_deque::VecDeque::len",
    "alloc::collections::btree::map::BTreeMap::len",
    "alloc::collections::btree::set::BTreeSet::len",
}

DEREF_KEYS = {"core::ops::deref::Deref::deref", "core::ops::deref::DerefMut::deref_mut",
              "alloc::vec::Vec::as_slice", "alloc::vec::Vec::as_mut_slice"}

# types with interior mutability (reads through & are not pure)
INTERIOR_MUT = ("Mutex", "RwLock", "Atomic", "Cell", "RefCell", "UnsafeCell", "Once", "Condvar",
                "OnceLock", "OnceCell", "LazyLock", "Barrier", "JoinHandle", "ScopedJoinHandle", "Scope")

# callees that never return (panic entry points)
PANIC_KEYS = {
    "core::panicking::panic_fmt", "core::panicking::assert_failed", "core::panicking::panic",
    "core::panicking::panic_display", "core::panicking::panic_explicit", "core::option::expect_failed",
    "core::result::unwrap_failed", "core::panicking::panic_bounds_check", "core::option::unwrap_failed",
    "std::rt::begin_panic", "core::panicking::unreachable_display",
}

# std types with a lifetime parameter that only hold *shared* borrows
SHARED_BORROW_ADTS = {
    "Iter", "Keys", "Values", "Difference", "Intersection", "Union", "SymmetricDifference", "Chunks", "Windows",
    "Range", "Copied", "Cloned", "Enumerate", "Map", "Filter", "FilterMap", "FlatMap", "Chain", "Zip", "Skip",
    "StepBy", "Rev", "Take", "Peekable", "Arguments", "Argument", "Split", "Chars", "Bytes", "Cow",
}


# replace(p, v) / take(p): return the old value of *p and overwrite it (modelled as a load followed by a store)
MEM_REPLACE = {"core::mem::replace", "core::mem::take"}

# p.write(v) / ptr::write(p, v): a store through the pointer
PTR_WRITE = {"rawptr::write", "core::ptr::write"}
