"""FIELDS (C20), LEAK (C13), RESULT-VALID (C11) — DESIGN §3.9, §3.1, §3.6."""
from .core import ty_contains, strip_ref
from .schema import Obl, _mentions
from .guard import REPR
from .report import span_s

DERIVES = {
    "core::clone::Clone": "clone", "core::cmp::PartialEq": "eq", "core::cmp::Eq": None,
    "core::cmp::PartialOrd": "partial_cmp", "core::cmp::Ord": "cmp", "core::hash::Hash": "hash",
}
OWNED_OK = ("Vec", "BTreeSet", "BTreeMap", "Global")


def owned_canonical(t):
    k = t["k"]
    if k in ("int", "bool", "char"):
        return True
    if k == "tuple":
        return all(owned_canonical(x) for x in t["elems"])
    if k == "param":
        return True     # weight type W: compared / hashed / cloned through its own impls
    if k == "adt":
        return t["name"] in OWNED_OK and all(owned_canonical(x) for x in t.get("args", []))
    return False


def reads_field(crate, path, f, two, depth=0):
    """the method reads field f of self (and of the other operand), directly or through a crate method
    it hands self (and the other operand) to"""
    an = crate.an(path)

    def touches(A):
        return any(r == A + "." + f or r.startswith(A + "." + f + ".") or r.startswith(A + "." + f + "#") for r in an.regions)
    if touches("A1") and (not two or touches("A2")):
        return True
    if depth >= 2:
        return False
    for ev in an.events:
        if ev["k"] != "call" or not ev["fn"]:
            continue
        tgt = ev["fn"].get("resolved") if ev["fn"].get("resolved_local") else None
        if tgt is None or tgt not in crate.prog.fns or tgt == path:
            continue
        roots = [an.region_of_pointer(a) if a[0] != "at" else a[1] for a in ev["args"]]
        if roots[:1] == ["A1"] and (not two or roots[1:2] == ["A2"]) and reads_field(crate, tgt, f, two, depth + 1):
            return True
    return False


def rule_fields(crate, prop, tier):
    o = Obl("FIELDS")
    prog = crate.prog
    for S in REPR:
        a = prog.adts.get(S)
        if a is None:
            continue
        o.instances += 1
        nm = a["name"]
        fields = [f["name"] for f in a["fields"]]
        for fl in a["fields"]:
            bad = ty_contains(fl["ty"], lambda x: (x["k"] in ("ref", "rawptr")) or
                              (x["k"] == "adt" and x.get("name") in ("Rc", "Arc", "Cell", "RefCell", "Mutex", "UnsafeCell", "Weak")))
            o.check(not bad, S, "owned:" + fl["name"], "field `%s` of %s shares or aliases data (%s): a clone would not be independent"
                    % (fl["name"], nm, fl["ty"]["s"]), a["span"])
            if not owned_canonical(fl["ty"]):
                o.samples.append({"fn": S, "obligation": "canonical-container:" + fl["name"], "status": "unverified kind " + fl["ty"]["s"]})
        for tr, mname in DERIVES.items():
            ims = [im for im in prog.impls if im["trait"] == tr and im["self"].get("path") == S]
            if not o.check(len(ims) == 1, S, "impl:" + tr.split("::")[-1], "%s does not implement %s exactly once" % (nm, tr.split("::")[-1]), a["span"]):
                continue
            im = ims[0]
            if mname is None:
                continue
            paths = [it["path"] for it in im["items"] if it["name"] == mname]
            if not o.check(len(paths) == 1 and paths[0] in prog.fns, S, "method:" + mname, "%s::%s not found" % (nm, mname)):
                continue
            an = crate.an(paths[0])
            two = mname in ("eq", "partial_cmp", "cmp")
            for f in fields:
                ok = reads_field(crate, paths[0], f, two)
                o.check(ok, prog.pretty[paths[0]], "reads:" + f, "%s of %s does not read field `%s`%s" % (mname, nm, f, " of both operands" if two else ""),
                        prog.fns[paths[0]]["span"])
            if mname == "clone":
                lits = [t for t in an.stmt_terms.values() if t[0] == "agg" and t[1] == "adt" and t[2][0] == S]
                def cloned(f, op):
                    if op[0] == "call" and op[1] == "core::clone::Clone::clone" and op[3][0][0] == "at" and op[3][0][1] == "A1." + f:
                        return True
                    # a Copy scalar field may simply be copied
                    return op == ("mem", "A1." + f, ("e",), None)
                okc = len(lits) == 1 and all(cloned(f, op) for f, op in zip(fields, lits[0][3]))
                o.check(okc, prog.pretty[paths[0]], "clone-fieldwise", "clone() does not clone every field of self into the same field", prog.fns[paths[0]]["span"])
    # canonical storage: every AdjacencyMatrix value has exactly div_ceil(order * order, 64) words (an extra or missing
    # zero word would make equal digraphs compare / hash differently)
    AM = "graaf::repr::adjacency_matrix::AdjacencyMatrix"
    if AM in prog.adts:
        tmpl = [t for t in crate.inv.len_templates(AM) if t[0] == ("blocks",) and t[1] == "order"]
        okc = False
        for fp, g, kind, tm in tmpl:
            if tm[0] == "call" and tm[1] == "usize::div_ceil" and tm[3][1] == ("const", "usize", 64):
                sq = tm[3][0]
                okc = sq == ("field", ("dc", ("call", "usize::checked_mul", (), (("HOLE",), ("HOLE",))), "Some"), "0") or \
                    sq == ("bin", "Mul", ("HOLE",), ("HOLE",))
        o.check(okc, AM, "canonical-length:blocks", "the construction sites of AdjacencyMatrix do not all give `blocks` exactly "
                "div_ceil(order * order, 64) words: the same digraph can have two different representations", prog.adts[AM]["span"])
    # == / hash / cmp agree: a hand-written impl next to derived ones must itself be field-wise
    for S in REPR:
        ims = {tr: [im for im in prog.impls if im["trait"] == tr and im["self"].get("path") == S] for tr in DERIVES}
        derived = {tr: bool(v and v[0].get("derived")) for tr, v in ims.items()}
        if any(derived.values()) and not all(derived[tr] for tr in ("core::cmp::PartialEq", "core::cmp::Ord", "core::hash::Hash", "core::cmp::PartialOrd")):
            for tr in ("core::cmp::PartialEq", "core::cmp::Ord", "core::hash::Hash"):
                if derived.get(tr) or not ims[tr]:
                    continue
                mname = DERIVES[tr]
                paths = [it["path"] for it in ims[tr][0]["items"] if it["name"] == mname]
                if not paths or paths[0] not in prog.fns:
                    continue
                fw = fieldwise(crate, paths[0], S, mname)
                if fw and mname == "eq":
                    miss = eq_ignores_field(crate, paths[0], S)
                    if miss:
                        o.check(False, prog.pretty[paths[0]], "eq-compares-every-field", "the hand-written eq can return true although the "
                                "operands differ in field `%s` (Hash / Ord are derived over all fields, so equal values would hash or "
                                "order differently)" % miss, prog.fns[paths[0]]["span"])
                o.check(fw, prog.pretty[paths[0]], "fieldwise:" + mname, "%s is hand-written and does not compare / hash exactly the fields, while "
                        "other comparison traits of %s are derived field-wise: `a == b`, `a.cmp(&b) == Equal` and equal hashes can disagree"
                        % (mname, S.split("::")[-1]), prog.fns[paths[0]]["span"])
    return o.report(floors={"representation structs": (o.instances, 5)})


def eq_ignores_field(crate, path, S):
    """name of a field f such that eq() can return true on a path that never established self.f == other.f; None when every
    true-returning path compares every field (or the shape of the return value is not interpreted)"""
    from .defn import ret_defs
    from .facts import Rel
    an = crate.an(path)
    fx = crate.fx(path)
    fields = crate.prog.adts[S]["fields"]
    EQ = "core::cmp::PartialEq::eq"

    def field_eq_atom(t, f):
        if t[0] == "call" and t[1] == EQ and len(t[3]) == 2:
            regs = set()
            for a in t[3]:
                if a[0] in ("at", "addr") and isinstance(a[1], str):
                    regs.add(a[1])
            return regs == {"A1." + f, "A2." + f}
        return False
    for b, t, sp, _ in ret_defs(an):
        for w in fx.worlds_at(b):
            w2 = set(w)
            if t == ("const", "bool", 0):
                continue
            if t == ("const", "bool", 1):
                pass
            elif t[0] == "call" and t[1] == EQ:
                w2.add(("true", t))
            elif t[0] == "bin" and t[1] == "Eq":
                w2.add(("eq",) + tuple(sorted((t[2], t[3]), key=repr)))
            elif t[0] == "un" and t[1] == "Not":
                w2.add(("false", t[2]))
            else:
                return None
            if ("false", t) in w or (t[0] == "un" and ("true", t[2]) in w):
                continue
            rel = Rel(frozenset(fx.close(w2)), an)
            for fl in fields:
                f = fl["name"]
                if fl["ty"]["k"] in ("int", "bool"):
                    ok = rel.eq(("mem", "A1." + f, ("e",), None), ("mem", "A2." + f, ("e",), None))
                else:
                    ok = any(a[0] == "true" and field_eq_atom(a[1], f) for a in rel.w)
                if not ok:
                    return f
    return None


def fieldwise(crate, path, S, mname):
    """the hand-written eq / cmp / hash touches the operands only through their fields: every call that receives
    (part of) an operand receives a field of it, never the whole digraph (which would go through an accessor)"""
    an = crate.an(path)
    fam = [path] + list(crate.prog.children.get(path, []))
    for q in fam:
        qa = crate.an(q)
        for ev in qa.events:
            if ev["k"] != "call" or not ev["args"]:
                continue
            for a in ev["args"]:
                r = a[1] if a[0] in ("at", "addr") else qa.region_of_pointer(a) if a[0] in ("arg", "mem") else None
                if q == path and r in (("A1",) if mname in ("hash", "clone") else ("A1", "A2")):
                    # the whole operand is handed to a callee: order(), size(), arcs(), ...
                    callee = ev["fn"].get("resolved") if ev["fn"] else None
                    if callee == path:
                        continue
                    return False
    if mname in ("eq", "cmp", "partial_cmp"):
        # element-wise comparison through zip() stops at the shorter operand: it needs a separate comparison of the lengths
        from .relax import _all_terms
        zips = [ev for ev in an.events if ev["k"] == "call" and ev["key"] == "core::iter::traits::iterator::Iterator::zip"]
        if zips:
            def len_eq(t):
                if isinstance(t, tuple) and t:
                    if t[0] == "bin" and t[1] in ("Eq", "Ne") and all(x[0] == "len" and x[1][0] == "at" for x in (t[2], t[3])) \
                            and {t[2][1][1][:2], t[3][1][1][:2]} == {"A1", "A2"}:
                        return True
                    return any(len_eq(x) for x in t if isinstance(x, tuple))
                return False
            if not any(len_eq(t) for t in _all_terms(an)):
                return False
    return True


# ---------------------------------------------------------------------------
LEAKY = ("core::mem::forget", "alloc::boxed::Box::leak", "alloc::boxed::Box::into_raw", "alloc::vec::Vec::leak",
         "alloc::sync::Arc::into_raw", "alloc::rc::Rc::into_raw", "alloc::vec::Vec::into_raw_parts", "core::mem::manually_drop::ManuallyDrop::take")
MD_NEW = "core::mem::manually_drop::ManuallyDrop::new"
MD_REL = ("core::mem::manually_drop::ManuallyDrop::into_inner", "core::mem::manually_drop::ManuallyDrop::drop")


def rule_leak(crate, prop, tier):
    o = Obl("LEAK")
    prog = crate.prog
    nsrc = 0
    for p in crate.fn_paths():
        an = crate.an(p)
        fx = crate.fx(p)
        who = prog.pretty[p]
        o.instances += 1
        moved_out_counters(crate, an, o, who)
        for ev in an.events:
            if ev["k"] != "call" or ev["key"] is None:
                continue
            key = ev["key"]
            from .mem import from_macro
            if key in LEAKY:
                nsrc += 1
                o.check(False, who, "leak-source:" + key.split("::")[-1], "%s gives up ownership without a paired release" % key, ev["span"])
            if key == MD_NEW and not from_macro(ev["span"]):
                nsrc += 1
                # the wrapper must be released on every path to a normal return
                rel = [e2 for e2 in an.events if e2["k"] == "call" and e2["key"] in MD_REL]
                ok = False
                for e2 in rel:
                    a0 = e2["args"][0]
                    if _same_wrapper(an, ev, a0) and an.cfg.postdominates(e2["b"], ev["b"]):
                        ok = True
                o.check(ok, who, "manuallydrop-released", "a ManuallyDrop wrapper is never unwrapped / dropped on some path: its contents leak", ev["span"])
            if key == "core::ptr::write":
                nsrc += 1
                from .mem import ptr_root, root_bounds
                ok = _write_target_fresh(crate, an, ev)
                o.check(ok, who, "write-over-fresh-cell", "ptr::write may overwrite an initialised value that owns memory (it is not dropped)", ev["span"])
            if key == "core::ptr::read":
                nsrc += 1
                ok = _read_source_released(crate, an, ev)
                o.check(ok, who, "read-source-forgotten", "a value is moved out with ptr::read but its source container is not prevented "
                        "from dropping it too / its buffer is never released", ev["span"])
            if key == "alloc::vec::Vec::set_len" and ev["args"][1] == ("const", "usize", 0):
                # shrinking to 0 forgets the elements: they must have been moved out with ptr::read
                nsrc += 1
                ok = _elements_moved_out(crate, an, ev)
                o.check(ok, who, "set-len-0-after-move-out", "set_len(0) forgets elements that were not moved out", ev["span"])
    return o.report(floors={"bodies scanned": (o.instances, 300)}, note="leak sources examined=%d" % nsrc)


def _same_wrapper(an, new_ev, a0):
    """the released wrapper is the local that received this ManuallyDrop::new"""
    t = an.blocks[new_ev["b"]]["term"]
    dl = t["dest"]["local"]
    # value moved: release arg is the (possibly opaque) value of the destination local
    if a0 == new_ev["res"]:
        return True
    if a0[0] == "mem" and a0[1] == "L%d" % dl:
        return True
    if a0[0] == "addr" and a0[1] == "L%d" % dl:
        return True
    return False


def _write_target_fresh(crate, an, ev):
    """the cell written holds no owned allocation: the container was created by with_capacity
    (uninitialised) or filled with a non-allocating constructor value"""
    from .mem import ptr_root
    from .closures import capture_map
    P = ev["args"][0]
    C, idx, kind = ptr_root(P)
    cur_an = an
    depth = 0
    while kind != "buf" and depth < 4:
        cm = capture_map(crate, cur_an)
        if cm is None or C is None:
            return False
        nxt = None
        for pv, cv in cm.valmap:
            if cv == C:
                nxt = pv
        if nxt is None:
            return False
        cur_an = cm.pan
        C, idx2, kind = ptr_root(nxt)
        depth += 1
    if kind != "buf" or C[0] != "at":
        return False
    v = None
    for (var, ver), t in cur_an.term_of.items():
        if var == C[1] and t[0] in ("call", "setlen"):
            v = t
    while v is not None and v[0] == "setlen":
        v = v[1]
    if v is None:
        return False
    if v[1] == "alloc::vec::Vec::with_capacity":
        return True
    if v[1] == "alloc::vec::from_elem":
        x = v[3][0]
        if x[0] == "site" and x[2].endswith("::new"):
            return True
        if x[0] == "const":
            return True
    return False


def _read_source_released(crate, an, ev):
    """ptr::read from a buffer whose owner later forgets its elements (set_len(0)) and frees the buffer"""
    from .mem import root_bounds, ptr_root
    from .closures import capture_map
    # find the function that owns the source container: walk up the closure chain to the root
    root = crate.prog.fns[an.path].get("root", an.path)
    ran = crate.an(root)
    has_setlen0 = any(e["k"] == "call" and e["key"] == "alloc::vec::Vec::set_len" and e["args"][1] == ("const", "usize", 0) for e in ran.events)
    has_unwrap = any(e["k"] == "call" and e["key"] in MD_REL for e in ran.events)
    return has_setlen0 and has_unwrap


def _elements_moved_out(crate, an, ev):
    fam = [p for p in crate.fn_paths() if crate.prog.fns[p].get("root") == an.path]
    for p in fam:
        for e in crate.an(p).events:
            if e["k"] == "call" and e["key"] == "core::ptr::read":
                return True
    return False


def moved_out_counters(crate, an, o, who):
    """in a body that moves elements out with ptr::read(p.add(i)): every `i += 1` must follow a read
    of element i on the same path (otherwise that element is skipped and leaks when the source's
    length is set to 0)"""
    from .mem import ptr_root
    from .schema import same_region, sum_parts
    reads = []
    for ev in an.events:
        if ev["k"] == "call" and ev["key"] == "core::ptr::read":
            P = ev["args"][0]
            Q = P[1] if P[0] == "pcast" else P
            if Q[0] == "call" and Q[1] == "rawptr::add":
                reads.append((ev, Q[3][0], Q[3][1]))
    if not reads:
        return
    counters = {idx for _, _, idx in reads if idx[0] == "phi"}
    for idx in counters:
        var = idx[2]
        local = int(var[1:])
        for (b, i), t in an.stmt_terms.items():
            st = an.blocks[b]["stmts"][i]
            if st["place"]["local"] != local or st["place"]["proj"]:
                continue
            xy = sum_parts(t)
            if not xy or idx not in xy or ("const", "usize", 1) not in xy:
                continue
            ok = any(ridx == idx and an.cfg.dominates(ev["b"], b) and same_region(an, ev["b"], b) for ev, _, ridx in reads)
            o.check(ok, who, "advance-after-move-out", "a cursor over a moved-out buffer advances past an element that was not "
                    "read: the element is neither moved nor dropped", st["span"])
