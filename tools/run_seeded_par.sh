#!/bin/bash
# Parallel version of tools/run_seeded.sh: usage tools/run_seeded_par.sh [jobs=4]
# Re-runs every seeded change under /verif/seeded (must alarm under its own property) and every behaviour-preserving patch
# under /verif/selftest/equivalent (must be silent) against the current checks; prints one line per patch, sorted, and a
# summary.  Do not edit gsa/ while it runs (every check reads the code).
cd /verif
J="${1:-4}"
one() {
  x="$1"
  if [ -d "$x" ]; then
    n=$(basename "$x"); P=${n%%-*}
    res=$(tools/run_patch_suite.sh "/verif/$x/patch.diff" alarm 2>&1 | tail -1)
    own=no; echo "$res" | grep -q "alarms:\[[^]]*$P" && own=yes
    [ $own = no ] && [ -f "$x/EXPECTED_MISS" ] && own=known-miss
    echo "$n :: own-property-check-alarms=$own :: $res"
  else
    res=$(tools/run_patch_suite.sh "/verif/$x" silent 2>&1 | tail -1)
    ok=silent; echo "$res" | grep -q "alarms:\[\]" || ok=ALARM
    echo "$(basename "$x") :: $ok :: $res"
  fi
}
export -f one
OUT=$(mktemp /tmp/run_seeded_par.XXXXXX)
{ ls -d seeded/*/ | sed 's:/$::'; ls selftest/equivalent/*.patch; } | xargs -P "$J" -I{} bash -c 'one {}' > "$OUT"
sort "$OUT"
s_total=$(grep -c "own-property-check-alarms=" "$OUT"); s_ok=$(grep -c "own-property-check-alarms=yes" "$OUT"); s_km=$(grep -c "own-property-check-alarms=known-miss" "$OUT")
e_total=$(grep -c "\.patch :: " "$OUT"); e_ok=$(grep -c "\.patch :: silent" "$OUT")
echo "SUMMARY seeded caught $s_ok/$s_total (documented misses: $s_km) ; equivalents silent $e_ok/$e_total"
rm -f "$OUT"
[ $((s_ok + s_km)) = "$s_total" ] && [ "$e_ok" = "$e_total" ]
