"""Analysis core: memory regions, points-to, SSA (locals + regions) and
symbolic terms for one MIR body.  See DESIGN.md §2.2.

Terms are hash-consed tuples. Equal terms denote equal runtime values at any
two program points where both are *current* (SSA argument, DESIGN §2.2).
"""
from .cfg import Cfg
from .load import callee_key
from . import effects as E

SEPS = ".@*#["
INLINE_SEPS = ".@["


def is_prefix(a, b):
    """region a is b or an ancestor of b (b lies inside a or behind it)."""
    return a == b or (b.startswith(a) and b[len(a)] in SEPS)


def is_inline_prefix(a, b):
    """a is b or an ancestor of b through inline parts only (fields, variants)."""
    if a == b:
        return True
    if not (b.startswith(a) and b[len(a)] in INLINE_SEPS):
        return False
    rest = b[len(a):]
    return "#" not in rest and "*" not in rest


def norm_region(r):
    while "#buf#buf" in r:
        r = r.replace("#buf#buf", "#buf")
    return r


def ty_contains(t, pred, depth=0):
    if depth > 8:
        return True
    if pred(t):
        return True
    k = t["k"]
    if k in ("ref", "rawptr"):
        return ty_contains(t["to"], pred, depth + 1)
    if k in ("adt", "fndef"):
        return any(ty_contains(a, pred, depth + 1) for a in t.get("args", []))
    if k == "tuple":
        return any(ty_contains(a, pred, depth + 1) for a in t["elems"])
    if k in ("slice", "array"):
        return ty_contains(t["elem"], pred, depth + 1)
    return False


def has_interior_mut(t):
    def p(x):
        if x["k"] == "adt":
            n = x["name"]
            return any(n.startswith(m) for m in E.INTERIOR_MUT)
        return False
    return ty_contains(t, p)


def shallow_interior_mut(t):
    """the outermost object behind the references is itself interior-mutable
    (element types do not matter for header/address computations)"""
    while t.get("k") in ("ref", "rawptr"):
        t = t["to"]
    if t.get("k") == "adt":
        if t["name"] in ("Arc", "Rc", "Box", "ManuallyDrop") and t.get("args"):
            return shallow_interior_mut(t["args"][0])
        return any(t["name"].startswith(m) for m in E.INTERIOR_MUT)
    return False


HDR_PRESERVING = {
    "alloc::vec::Vec::as_mut_ptr", "alloc::vec::Vec::as_ptr", "alloc::vec::Vec::as_mut_slice", "alloc::vec::Vec::as_slice",
    "slice::as_mut_ptr", "slice::get_unchecked_mut", "slice::get_mut", "slice::iter_mut", "slice::iter",
    "core::ops::deref::DerefMut::deref_mut", "core::ops::deref::Deref::deref",
    "core::ops::index::IndexMut::index_mut", "core::ops::index::Index::index",
    "core::iter::traits::collect::IntoIterator::into_iter",
    "slice::reverse", "slice::sort_unstable_by_key", "slice::sort_by_key", "slice::sort_unstable", "slice::sort",
    "slice::swap", "slice::fill", "slice::chunks_mut", "slice::split_at_mut", "slice::first_mut", "slice::last_mut",
    "alloc::vec::Vec::len", "alloc::vec::Vec::is_empty", "alloc::vec::Vec::capacity", "slice::len",
}


def borrows_preserve_header(prog, f, is_root, stack):
    """in body f, every mutable borrow of the place selected by is_root (a Vec-like value) flows only into
    header-preserving callees or into closures that themselves preserve it"""
    if f["path"] in stack:
        return True
    stack = stack | {f["path"]}
    alias = set()       # temps holding a &mut / *mut to the root

    def src_is_root_or_alias(p):
        if is_root(p):
            return True
        return p["local"] in alias and all(e["k"] == "deref" for e in p["proj"])
    changed = True
    while changed:
        changed = False
        for b in f["blocks"]:
            for st in b["stmts"]:
                if st["k"] != "assign":
                    continue
                rv = st["rv"]
                srcp = None
                if rv["k"] in ("ref", "rawptr") and rv.get("mut", True):
                    srcp = rv["place"]
                elif rv["k"] in ("use", "cast") and rv["op"]["k"] in ("copy", "move") and \
                        (rv["op"]["place"]["local"] in alias or (is_root(rv["op"]["place"]) and rv["op"]["place"]["proj"])):
                    # a copy of the borrow (or of the captured `&mut` itself: `_t = (*env).k`)
                    srcp = rv["op"]["place"]
                if srcp is not None and src_is_root_or_alias(srcp):
                    d = st["place"]
                    if d["proj"]:
                        return False        # the borrow is stored somewhere
                    if d["local"] not in alias:
                        alias.add(d["local"])
                        changed = True
    for b in f["blocks"]:
        for st in b["stmts"]:
            if st["k"] != "assign":
                continue
            d = st["place"]
            if is_root(d) is False and d["proj"] and is_root({"local": d["local"], "proj": []}):
                return False                # a field of the header is assigned
            if d["local"] in alias and d["proj"]:
                return False                # `*borrow = ..` replaces the whole value
            rv = st["rv"]
            if rv["k"] == "aggregate":
                for k, op in enumerate(rv["ops"]):
                    if op["k"] in ("copy", "move") and op["place"]["local"] in alias and not op["place"]["proj"]:
                        if rv["agg"] != "closure":
                            return False
                        cf = prog.fns.get(rv["path"])
                        if cf is None or k >= len(cf.get("upvars", [])):
                            return False
                        up = cf["upvars"][k]["place"]

                        def root_in_closure(p, up=up):
                            # the captured reference itself, or the Vec behind it
                            if p["local"] != up["local"]:
                                return False
                            pj, uj = p["proj"], up["proj"]
                            strip = [e for e in uj]
                            if len(pj) == len(strip) and all(a["k"] == c["k"] and a.get("idx") == c.get("idx") for a, c in zip(pj, strip)):
                                return True
                            if strip and strip[-1]["k"] == "deref" and len(pj) == len(strip) - 1 and \
                                    all(a["k"] == c["k"] and a.get("idx") == c.get("idx") for a, c in zip(pj, strip[:-1])):
                                return True
                            return False
                        if not borrows_preserve_header(prog, cf, root_in_closure, stack):
                            return False
        t = b["term"]
        if t["k"] == "call":
            fo = t["func"]
            key = callee_key(fo["fn"]) if fo["k"] == "const" and "fn" in fo else None
            for a in t["args"]:
                if a["k"] in ("copy", "move") and a["place"]["local"] in alias and all(e["k"] == "deref" for e in a["place"]["proj"]):
                    if key not in HDR_PRESERVING:
                        return False
            d = t["dest"]
            if d["local"] in alias:
                return False
    # the closure may also use the captured place directly as a call argument (`(*_1).k` moved out)
    for b in f["blocks"]:
        t = b["term"]
        if t["k"] == "call":
            fo = t["func"]
            key = callee_key(fo["fn"]) if fo["k"] == "const" and "fn" in fo else None
            for a in t["args"]:
                if a["k"] in ("copy", "move") and is_root(a["place"]) and a["place"]["proj"]:
                    # a captured `&mut Vec` handed on as it is
                    if key not in HDR_PRESERVING:
                        return False
    return True


class Analysis:
    def __init__(self, prog, f, summaries=None):
        self.prog = prog
        self.f = f
        self.path = f["path"]
        self.cfg = Cfg(f)
        self.blocks = f["blocks"]
        self.locals = f["locals"]
        self.nargs = f["arg_count"]
        self.summaries = summaries if summaries is not None else getattr(prog, "summaries", {})
        self.setlen_prev = {}
        self._classify_locals()
        self._points_to()
        self.stable_hdr = self._stable_headers()
        self._collect_defs()
        self._place_phis()
        self._rename_and_terms()

    # ------------------------------------------------------------------
    def live_blocks(self):
        return self.cfg.rpo

    def _classify_locals(self):
        mem = set()
        for b in self.cfg.rpo:
            blk = self.blocks[b]
            for s in blk["stmts"]:
                if s["k"] != "assign":
                    continue
                rv = s["rv"]
                if rv["k"] in ("ref", "rawptr"):
                    p = rv["place"]
                    if not any(e["k"] == "deref" for e in p["proj"]):
                        mem.add(p["local"])
                d = s["place"]
                if d["proj"] and not any(e["k"] == "deref" for e in d["proj"]):
                    mem.add(d["local"])
            t = blk["term"]
            if t["k"] == "call":
                d = t["dest"]
                if d["proj"] and not any(e["k"] == "deref" for e in d["proj"]):
                    mem.add(d["local"])
        self.mem_locals = mem
        # argument locals that are assigned somewhere in the body
        re = set()
        for b in self.cfg.rpo:
            blk = self.blocks[b]
            for s in blk["stmts"]:
                if s["k"] == "assign" and not s["place"]["proj"] and 1 <= s["place"]["local"] <= self.nargs:
                    re.add(s["place"]["local"])
            t = blk["term"]
            if t["k"] == "call" and not t["dest"]["proj"] and 1 <= t["dest"]["local"] <= self.nargs:
                re.add(t["dest"]["local"])
        self.reassigned = re
        mutref = set()
        for b in self.cfg.rpo:
            for s in self.blocks[b]["stmts"]:
                if s["k"] == "assign" and s["rv"]["k"] in ("ref", "rawptr") and s["rv"]["mut"] \
                        and not s["rv"]["place"]["proj"]:
                    mutref.add(s["rv"]["place"]["local"])
        self.arg_alias = {}
        for a in range(1, self.nargs + 1):
            if a in mem and a not in re and a not in mutref and self.locals[a]["ty"]["k"] in ("ref", "rawptr"):
                self.arg_alias["L%d" % a] = "A%d" % a

    # -- closure mut-capability ----------------------------------------
    def ty_mut_carrier(self, t, depth=0):
        """can a value of this type be used to write memory it does not own?"""
        if depth > 8:
            return True
        k = t["k"]
        if k == "rawptr":
            return True
        if k == "ref":
            if t["mut"]:
                return True
            return has_interior_mut(t["to"])
        if k in ("int", "bool", "char", "float", "str", "never"):
            return False
        if k == "adt":
            if any(t["name"].startswith(m) for m in E.INTERIOR_MUT):
                return True
            if "'" in t.get("s", "") and t["name"] not in E.SHARED_BORROW_ADTS and not t.get("path", "").startswith("graaf::"):
                # a type with a lifetime parameter may hide a `&mut` (Entry, IterMut, Drain, ...)
                own = t["s"].split("<", 1)[1] if "<" in t["s"] else ""
                inner = ",".join(a.get("s", "") for a in t.get("args", []))
                if own.count("'") > inner.count("'"):
                    return True
            return any(self.ty_mut_carrier(a, depth + 1) for a in t.get("args", []))
        if k == "tuple":
            return any(self.ty_mut_carrier(a, depth + 1) for a in t["elems"])
        if k in ("slice", "array"):
            return self.ty_mut_carrier(t["elem"], depth + 1)
        if k == "closure":
            cf = self.prog.fns.get(t["path"])
            if cf is None:
                return True
            for c in cf.get("captures", []):
                m = c["mode"]
                if "Mutable" in m or "UniqueImmutable" in m:
                    return True
                if self.ty_mut_carrier(c["ty"], depth + 1):
                    return True
            return False
        if k == "fndef":
            return False
        if k == "param":
            # a pre-existing generic value cannot hold pointers into memory
            # this body can name, except through its own argument region
            return True
        return True  # alias (opaque), dyn, fnptr, other

    # -- places -----------------------------------------------------------
    def walk_place(self, place):
        """-> (mode, region or None, vp)
        mode 'val': pure projection of an SSA local (vp = value path);
        mode 'mem': region name of the memory location.
        Side effect: records type / field chain / shared-ref immutability of
        every region prefix in self.region_info."""
        L = place["local"]
        proj = place["proj"]
        t = self.locals[L]["ty"]
        chain = ()
        imm = False
        if L in self.mem_locals:
            mode, name, vp = "mem", "L%d" % L, ""
            self._reginfo(name, t, chain, imm)
        else:
            mode, name, vp = "val", None, ""
        for e in proj:
            k = e["k"]
            if mode == "val":
                if k == "deref":
                    tg = self.pts.get(L, {})
                    if vp == "" and len(tg) == 1:
                        name = next(iter(tg))
                    elif vp != "" and self.is_value_arg(L):
                        name = "A%d%s*" % (L, vp)
                    else:
                        name = "P%d%s" % (L, vp)
                        self.palias.setdefault(name, set()).update(tg.keys())
                    mode = "mem"
                    by_type = t.get("k") == "ref" and not t.get("mut") and not has_interior_mut(t["to"])
                    if vp == "" and len(tg) == 1:
                        # the region was named elsewhere (points-to target): a shared path to it says
                        # nothing about its other access paths
                        imm = self.region_info.get(name, {}).get("imm", False)
                    else:
                        imm = by_type or self.region_info.get(name, {}).get("imm", False)
                    t = self._deref_ty(t)
                    chain = ()
                    if name in self.region_info and vp == "" and len(tg) == 1:
                        # the pointer's target was named elsewhere: keep its chain
                        chain = self.region_info[name]["chain"]
                    self._reginfo(name, t, chain, imm)
                elif k == "field":
                    vp += "." + e["name"]
                    t = e["ty"]
                elif k == "downcast":
                    vp += "@" + e["variant"]
                else:
                    vp += "[]"
                    t = t.get("elem", {"k": "other", "s": "?"})
            else:
                if k == "deref":
                    name = self.arg_alias.get(name, name + "*")
                    imm = imm or (t.get("k") == "ref" and not t.get("mut") and not has_interior_mut(t["to"]))
                    t = self._deref_ty(t)
                    chain = ()
                elif k == "field":
                    name = name + "." + e["name"]
                    if chain is not None:
                        chain = chain + ((t.get("path", "<%s>" % t.get("k")), e["name"]),)
                    t = e["ty"]
                elif k == "downcast":
                    name = name + "@" + e["variant"]
                else:
                    name = norm_region(name + "#buf")
                    t = t.get("elem", {"k": "other", "s": "?"})
                    chain = None
                self._reginfo(name, t, chain, imm)
        return mode, name, vp

    def _arg_pointee_info(self, n):
        t = self.locals[n]["ty"]
        imm = t.get("k") == "ref" and not t.get("mut") and not has_interior_mut(t.get("to", {}))
        return (self._deref_ty(t), (), imm)

    @staticmethod
    def _deref_ty(t):
        to = t.get("to")
        if to is None:
            if t.get("k") == "adt" and t.get("name") == "Box" and t.get("args"):
                return t["args"][0]
            return {"k": "other", "s": "?"}
        return to

    def _reginfo(self, name, t, chain, imm):
        ri = self.region_info.get(name)
        if ri is None:
            self.region_info[name] = {"ty": t, "chain": chain, "imm": imm}
        else:
            if imm and not ri["imm"]:
                ri["imm"] = True

    def shared_imm(self, r):
        """region r lies behind a shared reference to data without interior mutability"""
        if r is None:
            return False
        ri = self.region_info.get(r)
        if ri is not None and ri["imm"]:
            return True
        best = None
        for q, qi in self.region_info.items():
            if is_prefix(q, r) and (best is None or len(q) > len(best)):
                best = q
        return best is not None and self.region_info[best]["imm"]

    def region_protected(self, r):
        """writes through other pointers / by callees cannot change this region:
        it lies behind a shared reference to a type without interior
        mutability, or it is a header-stable (frozen) field chain."""
        ri = self.region_info.get(r)
        if ri is None:
            # descendants added without a place (summaries): inherit from the longest known prefix
            best = None
            for q, qi in self.region_info.items():
                if is_prefix(q, r) and (best is None or len(q) > len(best)):
                    best = q
            if best is None:
                return False
            bi = self.region_info[best]
            if bi["imm"]:
                return True
            return False
        if ri["imm"]:
            return True
        fz = getattr(self.prog, "frozen", None)
        if fz is not None and ri["chain"]:
            return fz.is_frozen(ri["chain"])
        return False

    def is_value_arg(self, L):
        """argument passed by value (e.g. a closure environment) that is never reassigned"""
        return 1 <= L <= self.nargs and L not in self.mem_locals \
            and self.locals[L]["ty"]["k"] not in ("ref", "rawptr") and L not in self.reassigned

    def collapsed(self, region):
        return "#buf" in region or region.startswith("P")

    def _operand_pts(self, op):
        if op["k"] not in ("copy", "move"):
            return {}
        p = op["place"]
        mode, name, vp = self.walk_place(p)
        if mode == "val":
            if vp != "" and self.is_value_arg(p["local"]):
                ty = self.operand_ty(op)
                if ty is not None and ty["k"] in ("ref", "rawptr"):
                    nm = "A%d%s*" % (p["local"], vp)
                    self.regions.add(nm)
                    self._reginfo(nm, self._deref_ty(ty), (),
                                  ty["k"] == "ref" and not ty["mut"] and not has_interior_mut(ty["to"]))
                    return {nm: self.ty_mut_carrier(ty)}
            return self.pts.get(p["local"], {})
        out = {name + "*": True}
        for r, tg in self.cpts.items():
            if is_prefix(r, name) or is_prefix(name, r):
                for k, v in tg.items():
                    out[k] = out.get(k, False) or v
        self.regions.add(name)
        return out

    def _rvalue_pts(self, rv):
        k = rv["k"]
        if k == "use":
            return self._operand_pts(rv["op"])
        if k in ("ref", "rawptr"):
            mode, name, vp = self.walk_place(rv["place"])
            if mode != "mem":
                return {}
            self.regions.add(name)
            mutcap = rv["mut"] or k == "rawptr"
            return {name: mutcap}
        if k == "cast":
            out = dict(self._operand_pts(rv["op"]))
            t = rv["ty"]
            if t["k"] == "rawptr" and t["mut"]:
                out = {r: True for r in out}
            return out
        if k == "binop":
            out = dict(self._operand_pts(rv["a"]))
            for r, v in self._operand_pts(rv["b"]).items():
                out[r] = out.get(r, False) or v
            return out
        if k == "unop":
            return self._operand_pts(rv["a"])
        if k == "aggregate":
            out = {}
            for o in rv["ops"]:
                for r, v in self._operand_pts(o).items():
                    out[r] = out.get(r, False) or v
            return out
        if k == "repeat":
            return self._operand_pts(rv["op"])
        return {}

    def _assign_pts(self, dst, src):
        """returns True when something changed"""
        mode, name, vp = self.walk_place(dst)
        if mode == "val":
            cur = self.pts.setdefault(dst["local"], {})
        else:
            self.regions.add(name)
            cur = self.cpts.setdefault(name, {})
        ch = False
        for r, v in src.items():
            r = norm_region(r)
            if r not in cur:
                cur[r] = v
                ch = True
            elif v and not cur[r]:
                cur[r] = True
                ch = True
        return ch

    def call_info(self, t):
        fo = t["func"]
        if fo["k"] == "const" and "fn" in fo:
            fn = fo["fn"]
            return callee_key(fn), fn
        return None, None

    def _call_ret_pts(self, t, b=None):
        key, fn = self.call_info(t)
        args = t["args"]
        if key in E.RET_ARG0_BUF and args:
            src = self._operand_pts(args[0])
            return {norm_region(r + "#buf"): v for r, v in src.items()}
        if key in E.RET_ARG0 and args:
            return dict(self._operand_pts(args[0]))
        if key == "core::iter::traits::iterator::Iterator::next" and args:
            # an item points into what the iterator's contents point to, not at the iterator
            out = {}
            for r in self._operand_pts(args[0]):
                for cr, tg in self.cpts.items():
                    if is_prefix(r, cr) or is_prefix(cr, r):
                        for k, v in tg.items():
                            out[k] = out.get(k, False) or v
                            kb = norm_region(k + "#buf")
                            out[kb] = out.get(kb, False) or v
                if r.startswith("A") or r.startswith("P"):
                    # iterator handed in from outside: its contents are unknown
                    out[r + "*"] = True
            if out:
                return out
        out = {}
        for a in args:
            for r, v in self._operand_pts(a).items():
                out[r] = out.get(r, False) or v
                rb = norm_region(r + "#buf")
                out[rb] = out.get(rb, False) or v
        if not out and b is not None:
            # nothing flows in: whatever pointer comes back refers to a fresh object
            out["H%d" % b] = True
        return out

    def _points_to(self):
        self.pts = {}
        self.cpts = {}
        self.palias = {}
        self.regions = set()
        self.region_info = {}
        for a in range(1, self.nargs + 1):
            aty = self.locals[a]["ty"]
            self.pts[a] = {"A%d" % a: self.ty_mut_carrier(aty)}
            if a in self.mem_locals:
                self.cpts["L%d" % a] = {"A%d" % a: self.ty_mut_carrier(aty)}
            if aty["k"] in ("ref", "rawptr"):
                self.regions.add("A%d" % a)
                self._reginfo("A%d" % a, self._deref_ty(aty), (),
                              aty["k"] == "ref" and not aty["mut"] and not has_interior_mut(aty["to"]))
        changed = True
        it = 0
        while changed and it < 20:
            changed = False
            it += 1
            for b in self.cfg.rpo:
                blk = self.blocks[b]
                for s in blk["stmts"]:
                    if s["k"] == "assign":
                        if self._assign_pts(s["place"], self._rvalue_pts(s["rv"])):
                            changed = True
                t = blk["term"]
                if t["k"] == "call":
                    if self._assign_pts(t["dest"], self._call_ret_pts(t, b)):
                        changed = True
        # make sure every place mentioned has its region registered
        for b in self.cfg.rpo:
            blk = self.blocks[b]
            for s in blk["stmts"]:
                if s["k"] == "assign":
                    self._touch_place(s["place"])
                    self._touch_rvalue(s["rv"])
            t = blk["term"]
            for op in self._term_operands(t):
                self._touch_operand(op)
            if t["k"] in ("call",):
                self._touch_place(t["dest"])
                self._touch_summary_regions(t)
            if t["k"] == "drop":
                self._touch_place(t["place"])

    def _touch_summary_regions(self, t):
        key, fn = self.call_info(t)
        if fn is None:
            return
        summ = self.summary_for(fn)
        if summ is None:
            return
        for region in summ[1]:
            j = 1
            while j < len(region) and region[j].isdigit():
                j += 1
            k = int(region[1:j])
            if k - 1 < len(t["args"]):
                for r in self._operand_pts(t["args"][k - 1]):
                    self.regions.add(r + region[j:])

    def _term_operands(self, t):
        k = t["k"]
        if k == "call":
            return [t["func"]] + t["args"]
        if k == "switch":
            return [t["discr"]]
        if k == "assert":
            return [t["cond"]]
        return []

    def _touch_place(self, p):
        mode, name, vp = self.walk_place(p)
        if mode == "mem":
            self.regions.add(name)
            # intermediate pointer-holding regions are read too
            self._touch_prefixes(p)

    def _touch_prefixes(self, p):
        proj = p["proj"]
        for i, e in enumerate(proj):
            if e["k"] == "deref" and i > 0:
                sub = {"local": p["local"], "proj": proj[:i]}
                mode, name, vp = self.walk_place(sub)
                if mode == "mem":
                    self.regions.add(name)

    def _touch_operand(self, op):
        if op["k"] in ("copy", "move"):
            self._touch_place(op["place"])

    def _touch_rvalue(self, rv):
        k = rv["k"]
        if k in ("use", "cast", "repeat"):
            self._touch_operand(rv["op"])
        elif k in ("ref", "rawptr", "discriminant"):
            self._touch_place(rv["place"])
        elif k == "binop":
            self._touch_operand(rv["a"])
            self._touch_operand(rv["b"])
        elif k == "unop":
            self._touch_operand(rv["a"])
        elif k == "aggregate":
            for o in rv["ops"]:
                self._touch_operand(o)

    # -- write sets -------------------------------------------------------
    def overlap_writes(self, target):
        """regions redefined by a write to region `target`."""
        out = set()
        tgs = {target}
        if target.startswith("P"):
            base = target
            for sep in SEPS:
                i = base.find(sep, 1)
                if i > 0:
                    base = base[:i]
            al = self.palias.get(base, set())
            if not al:
                return set(self.regions)
            tgs |= set(al)
        for r in self.regions:
            for t in tgs:
                if is_prefix(t, r) or is_inline_prefix(r, t):
                    out.add(r)
                    break
            else:
                if r.startswith("P"):
                    # P-region may alias any of its targets
                    base = r
                    for sep in SEPS:
                        i = base.find(sep, 1)
                        if i > 0:
                            base = base[:i]
                    al = self.palias.get(base, set())
                    if not al:
                        out.add(r)
                    else:
                        for a in al:
                            if any(is_prefix(t, a) or is_prefix(a, t) for t in tgs):
                                out.add(r)
                                break
        return out

    def reach_writes(self, roots):
        """regions a callee may write when handed mutable access to `roots`."""
        seen = set()
        work = list(roots)
        while work:
            r = work.pop()
            if r in seen:
                continue
            seen.add(r)
            for cr, tg in self.cpts.items():
                if is_prefix(r, cr) or is_prefix(cr, r):
                    for k, v in tg.items():
                        if v and k not in seen:
                            work.append(k)
        out = set()
        for r in seen:
            if r == "UNK":
                return set(self.regions)
            for x in self.regions:
                if is_prefix(r, x) or is_inline_prefix(x, r):
                    out.add(x)
            if r.startswith("P"):
                out |= self.overlap_writes(r)
        return out

    def summary_for(self, fn):
        """accessor summary of the function this call certainly reaches"""
        if "resolved" in fn:
            return self.summaries.get(fn["resolved"])
        if "trait" in fn:
            return None     # unresolved trait method: the impl is unknown
        return self.summaries.get(fn["path"])

    def call_is_pure(self, t):
        key, fn = self.call_info(t)
        if key is None:
            return False
        if self.summary_for(fn) is not None:
            return True
        if key in E.PURE:
            shallow = key in E.HEADER_ONLY
            for a in t["args"]:
                if a["k"] in ("copy", "move"):
                    ty = self.operand_ty(a)
                    if ty is None:
                        continue
                    if ty.get("k") not in ("ref", "rawptr"):
                        continue    # moved in by value: nothing is read through a shared reference
                    if key == "core::clone::Clone::clone" and ty["to"].get("k") == "adt" and ty["to"]["name"] in ("Arc", "Rc"):
                        continue    # cloning the handle does not read the shared contents
                    if shallow_interior_mut(ty) if shallow else has_interior_mut(ty):
                        return False
            return True
        if not t["args"]:
            return False
        for a in t["args"]:
            ty = self.operand_ty(a)
            if ty is None:
                continue
            if self.ty_mut_carrier(ty) or has_interior_mut(ty):
                return False
        if fn.get("unsafe") and key not in self.summaries:
            return False
        return True

    def operand_ty(self, op):
        if op["k"] == "const":
            return op["ty"]
        p = op["place"]
        t = self.locals[p["local"]]["ty"]
        for e in p["proj"]:
            k = e["k"]
            if k == "field":
                t = e["ty"]
            elif k == "deref":
                t = t.get("to") or {"k": "other", "s": "?"}
                if t["k"] == "adt" and t["name"] == "Box":
                    t = t["args"][0] if t["args"] else {"k": "other", "s": "?"}
            elif k in ("index", "constindex", "subslice"):
                t = t.get("elem", {"k": "other", "s": "?"})
        return t

    def call_writes(self, t):
        if self.call_is_pure(t):
            return set()
        roots = set()
        for a in t["args"]:
            ty = self.operand_ty(a)
            if ty is None or not (self.ty_mut_carrier(ty) or has_interior_mut(ty)):
                continue
            for r, v in self._operand_pts(a).items():
                if v:
                    roots.add(r)
        return self.reach_writes(roots)

    # -- containers whose header (pointer, length, capacity) cannot be changed by any callee ----------------
    def _stable_headers(self):
        """regions 'L<n>' of local Vec / VecDeque values every mutable borrow of which is handed only to
        header-preserving operations (element access, iter_mut, ...) or to closures that do the same"""
        out = set()
        for L in sorted(self.mem_locals):
            if L == 0 or L <= self.nargs:
                continue
            ty = self.locals[L]["ty"]
            if not (ty["k"] == "adt" and ty.get("name") in ("Vec", "VecDeque")):
                continue
            if borrows_preserve_header(self.prog, self.f, lambda p, L=L: p["local"] == L and not p["proj"], set()):
                out.add("L%d" % L)
        return out

    def _collect_defs(self):
        """defs_at[(b, i)] = set of SSA variables (locals 'v<n>' and regions) defined there."""
        defs = {}
        self.store_region = {}
        for b in self.cfg.rpo:
            blk = self.blocks[b]
            for i, s in enumerate(blk["stmts"]):
                if s["k"] == "assign":
                    d = self._place_defs(s["place"])
                    self.store_region[(b, i)] = d[1]
                    defs[(b, i)] = d[0]
                elif s["k"] == "setdiscr":
                    d = self._place_defs(s["place"])
                    defs[(b, i)] = d[0]
            t = blk["term"]
            i = len(blk["stmts"])
            if t["k"] == "call":
                ds, reg = self._place_defs(t["dest"])
                ds = set(ds) | {r for r in self.call_writes(t) if not self.region_protected(r) and r not in self.stable_hdr}
                defs[(b, i)] = ds
                self.store_region[(b, i)] = reg
            elif t["k"] == "drop":
                ds, reg = self._place_defs(t["place"])
                defs[(b, i)] = ds
        self.defs_at = defs

    def _place_defs(self, place):
        mode, name, vp = self.walk_place(place)
        if mode == "val":
            return {"v%d" % place["local"]}, None
        ws = {r for r in self.overlap_writes(name)
              if is_prefix(name, r) or is_inline_prefix(r, name) or not self.region_protected(r)}
        return ws | {name}, name

    # -- phi placement ------------------------------------------------------
    def _place_phis(self):
        cfg = self.cfg
        defblocks = {}
        for (b, i), vs in self.defs_at.items():
            for v in vs:
                defblocks.setdefault(v, set()).add(b)
        self.vars = set(defblocks) | {"v%d" % i for i in range(len(self.locals))} | set(self.regions)
        self.phis = {}  # block -> set(var)
        for v, dbs in defblocks.items():
            work = list(dbs)
            placed = set()
            while work:
                x = work.pop()
                for y in cfg.df.get(x, ()):
                    if y not in placed:
                        placed.add(y)
                        self.phis.setdefault(y, set()).add(v)
                        if y not in dbs:
                            work.append(y)

    # -- renaming + terms ---------------------------------------------------
    def _rename_and_terms(self):
        self.term_of = {}     # (var, ver) -> term
        self.ver_in = {}
        self.ver_out = {}
        self.ver_at_term = {}
        self.events = []      # list of dict
        self.ev_by_block = {}
        self.stmt_terms = {}  # (b, i) -> term assigned (value)
        cfg = self.cfg
        for b in cfg.rpo:
            if b == 0:
                cur = {}
            else:
                cur = dict(self.ver_out[cfg.idom[b]])
            for v in self.phis.get(b, ()):
                cur[v] = ("phi", b)
            self.ver_in[b] = dict(cur)
            self._walk_block(b, cur)
            self.ver_out[b] = cur

    def ver(self, cur, var):
        return cur.get(var, ("e",))

    def var_term(self, cur, var):
        v = self.ver(cur, var)
        t = self.term_of.get((var, v))
        if t is not None:
            return t
        if v == ("e",):
            if var.startswith("v"):
                n = int(var[1:])
                if 1 <= n <= self.nargs:
                    return ("arg", n)
                return ("undef", n)
            return ("init", var)
        if v[0] == "phi":
            sel = self._phi_select(v[1], var)
            if sel is not None:
                return sel
            return ("phi", v[1], var)
        return ("opq", var, v[1], v[2])

    def _phi_select(self, b, var):
        """value of a two-way join that spells a rounded-up quotient by hand:
        `q = x >> k; if x & (2^k - 1) != 0 { q + 1 } else { q }`  is  x.div_ceil(2^k)"""
        cache = self.__dict__.setdefault("_phi_sel_cache", {})
        key = (b, var)
        if key in cache:
            return cache[key]
        cache[key] = None
        if not var.startswith("v"):
            return None
        preds = [p for p, _ in self.cfg.pred[b]]
        if len(preds) != 2 or preds[0] == preds[1] or any(p not in self.ver_out for p in preds) \
                or any(self.cfg.dominates(b, p) for p in preds):
            return None
        ins = [self.var_term(self.ver_out[p], var) for p in preds]
        one = ("const", "usize", 1)

        def origin(p, via):
            # (switch block, its successor on the way to b) following a chain of single-entry single-exit blocks
            for _ in range(4):
                t = self.f["blocks"][p]["term"]
                if t["k"] == "switch":
                    return p, via
                ps = [q for q, _ in self.cfg.pred[p]]
                if t["k"] not in ("goto", "assert") or len(ps) != 1:
                    return None
                p, via = ps[0], p
            return None
        for q, qp, pq, pp in ((ins[0], ins[1], preds[0], preds[1]), (ins[1], ins[0], preds[1], preds[0])):
            if not (q[0] == "bin" and q[1] == "Shr" and q[3][0] == "const" and isinstance(q[3][2], int)
                    and qp in (("bin", "Add", q, one), ("bin", "Add", one, q))):
                continue
            x, k = q[2], q[3][2]
            oz, on = origin(pq, b), origin(pp, b)
            if oz is None or on is None or oz[0] != on[0] or oz[1] == on[1]:
                continue
            sb = oz[0]
            sev = [e for e in self.ev_by_block.get(sb, ()) if e["k"] == "switch"]
            t = self.f["blocks"][sb]["term"]
            if not sev or len(t["targets"]) != 1 or int(t["targets"][0][0]) != 0:
                continue
            D = sev[0]["discr"]
            false_tg, true_tg = t["targets"][0][1], t["otherwise"]
            zero = ("const", "usize", 0)
            rem = None
            if D[0] == "bin" and D[1] in ("Ne", "Eq") and zero in (D[2], D[3]):
                rem = D[3] if D[2] == zero else D[2]
                nz_tg, z_tg = (true_tg, false_tg) if D[1] == "Ne" else (false_tg, true_tg)
            elif D[0] == "bin" and D[1] == "Lt" and D[2] == zero:
                rem = D[3]
                nz_tg, z_tg = true_tg, false_tg
            if rem is None or not (rem[0] == "bin" and rem[1] == "BitAnd" and ("const", "usize", (1 << k) - 1) in (rem[2], rem[3])
                                   and x in (rem[2], rem[3])):
                continue
            if on[1] == nz_tg and oz[1] == z_tg:
                cache[key] = ("call", "usize::div_ceil", (), (x, ("const", "usize", 1 << k)))
                return cache[key]
        return None

    def phi_variant_input(self, val, variant):
        """a phi of enum aggregates read as `variant`: the only input built as that variant (the value
        can only be that one when the downcast is executed)"""
        if not (val[0] == "phi" and len(val) == 3 and val[2].startswith("v")):
            return None
        b, var = val[1], val[2]
        preds = [p for p, _ in self.cfg.pred[b]]
        if any(self.cfg.dominates(b, p) for p in preds) or any(p not in self.ver_out for p in preds):
            return None
        ins = [self.var_term(self.ver_out[p], var) for p in preds]

        def residual(t):
            # `?` on None / Err(e): the function's own return value is None / Err(..), never Some / Ok
            return t[0] == "call" and t[1] == "core::ops::try_trait::FromResidual::from_residual" and variant in ("Some", "Ok")
        if not all((t[0] == "agg" and t[1] == "adt") or residual(t) for t in ins):
            return None
        same = {t for t in ins if t[0] == "agg" and t[2][1] == variant}
        if len(same) == 1:
            return next(iter(same))
        return None

    def phi_inputs(self, b, var):
        """terms flowing into the phi of SSA variable `var` at block b"""
        return [self.var_term(self.ver_out[p], var) for p, _ in self.cfg.pred[b] if p in self.ver_out]

    def emit(self, ev):
        self.events.append(ev)
        self.ev_by_block.setdefault(ev["b"], []).append(ev)

    # value of a place (load)
    def place_term(self, place, cur, want_addr=False):
        L = place["local"]
        proj = place["proj"]
        if L in self.mem_locals:
            mode, name, val, addr = "mem", "L%d" % L, None, None
        else:
            mode, name, val, addr = "val", None, self.var_term(cur, "v%d" % L), None
        vp = ""
        pure_deref = None
        ov = None       # (type, chain, imm) tracked after a pointer was resolved to reference parameter n by its value
        for e in proj:
            k = e["k"]
            if pure_deref is not None:
                pure_deref = None
            if ov is not None and mode == "mem" and k != "deref":
                t_, ch_, im_ = ov
                if k == "field":
                    ch_ = None if ch_ is None else ch_ + ((t_.get("path", "<%s>" % t_.get("k")), e["name"]),)
                    t_ = e["ty"]
                    nm_ = name + "." + e["name"]
                elif k == "downcast":
                    nm_ = name + "@" + e["variant"]
                else:
                    nm_ = norm_region(name + "#buf")
                    t_ = t_.get("elem", {"k": "other", "s": "?"})
                    ch_ = None
                self._reginfo(nm_, t_, ch_, im_)
                self.regions.add(nm_)
                ov = (t_, ch_, im_)
            elif ov is not None and k == "deref":
                ov = None
            if mode == "val":
                if k == "deref":
                    tg = self.pts.get(L, {})
                    if val[0] == "addr" and val[2] is None and val[1] in self.regions:
                        name = val[1]        # the pointer is exactly &R: more precise than points-to
                    elif val[0] == "arg" and len(val) == 2 and ("A%d" % val[1]) in self.regions:
                        name = "A%d" % val[1]        # the pointer is exactly reference parameter n (read back from a closure env)
                        ov = self._arg_pointee_info(val[1])
                    elif vp == "" and len(tg) == 1:
                        name = next(iter(tg))
                    elif vp != "" and self.is_value_arg(L):
                        name = "A%d%s*" % (L, vp)
                    else:
                        name = "P%d%s" % (L, vp)
                    addr = val
                    pure_deref = val
                    mode = "mem"
                elif k == "field":
                    val = mk_field(val, e["name"], e["idx"])
                    if val[0] == "field" and val[1][0] == "dc" and val[1][1][0] == "phi":
                        pay = self.phi_variant_input(val[1][1], val[1][2])
                        if pay is not None:
                            val = mk_field(pay, e["name"], e["idx"])
                    vp += "." + e["name"]
                elif k == "downcast":
                    pay = self.phi_variant_input(val, e["variant"])
                    val = pay if pay is not None else ("dc", val, e["variant"])
                    vp += "@" + e["variant"]
                else:
                    idx = self.var_term(cur, "v%d" % e["local"]) if k == "index" else ("cidx", e.get("offset"))
                    val = ("idx", val, idx)
                    vp += "[]"
            else:
                if k == "deref":
                    ptr = self.load_region(name, addr, cur)
                    addr = ptr
                    pure_deref = ptr
                    if ptr[0] == "arg" and len(ptr) == 2 and ("A%d" % ptr[1]) in self.regions:
                        name = "A%d" % ptr[1]        # the stored pointer is exactly reference parameter n
                        ov = self._arg_pointee_info(ptr[1])
                    else:
                        name = self.arg_alias.get(name, name + "*")
                elif k == "field":
                    name = name + "." + e["name"]
                    if addr is not None and self.collapsed(name):
                        addr = ("faddr", addr, e["name"])
                elif k == "downcast":
                    name = name + "@" + e["variant"]
                else:
                    idx = self.var_term(cur, "v%d" % e["local"]) if k == "index" else ("cidx", e.get("offset"))
                    base = addr if addr is not None else ("addr", name, None)
                    name = norm_region(name + "#buf")
                    addr = ("elem", base, idx)
        if want_addr:
            if mode == "val":
                return None
            if pure_deref is not None and proj and proj[-1]["k"] == "deref":
                return pure_deref      # &*p is p
            return ("addr", name, addr if self.collapsed(name) else None)
        if mode == "val":
            return val
        return self.load_region(name, addr, cur)

    def load_region(self, name, addr, cur):
        if addr is not None and addr[0] == "constref":
            return ("const", addr[1], addr[2])      # *&<literal>
        v = self.ver(cur, name)
        if v == ("e",) and name.startswith("L") and name[1:].isdigit() and 1 <= int(name[1:]) <= self.nargs:
            return ("arg", int(name[1:]))
        if not self.collapsed(name):
            t = self.term_of.get((name, v))
            if t is not None and t[0] != "opq":
                return t
            t = self._project_from_parent(name, v)
            if t is not None:
                return t
            return ("mem", name, v, None)
        return ("mem", name, v, addr)

    def _project_from_parent(self, name, v):
        """value of an inline sub-region (L5@Some.0) from the exactly known value of an enclosing region that was
        written by the same definition"""
        if v == ("e",) or v[0] != "d":
            return None
        i = len(name)
        segs = []
        while True:
            j = max(name.rfind(".", 0, i), name.rfind("@", 0, i))
            if j <= 0:
                return None
            segs.append(name[j:i])
            parent = name[:j]
            i = j
            if "#" in parent or "*" in parent:
                return None
            pt = self.term_of.get((parent, v))
            if pt is not None and pt[0] != "opq":
                t = pt
                for sg in reversed(segs):
                    if sg[0] == "@":
                        pay = self.phi_variant_input(t, sg[1:]) if t[0] == "phi" else None
                        t = pay if pay is not None else ("dc", t, sg[1:])
                    else:
                        nm = sg[1:]
                        if not nm.isdigit() and t[0] == "agg":
                            return None
                        t = mk_field(t, nm, int(nm) if nm.isdigit() else 0)
                return t

    def operand_term(self, op, cur):
        k = op["k"]
        if k == "const":
            if "fn" in op:
                return ("fnref", op["fn"]["path"])
            if "int" in op:
                return ("const", op["ty"]["s"], int(op["int"]))
            if "closure" in op:
                return ("closureref", op["closure"])
            if "ref_int" in op:
                return ("constref", op["ref_ty"]["s"], int(op["ref_int"]))
            if op["ty"].get("k") == "float" and "bits" in op and "::" in op["s"]:
                # a named float constant: spelled like the literal of its value (`1f64`, `0.5f64`)
                import struct
                sz = int(op.get("size", 8))
                v = struct.unpack(">d", int(op["bits"]).to_bytes(8, "big"))[0] if sz == 8 else \
                    struct.unpack(">f", int(op["bits"]).to_bytes(4, "big"))[0]
                txt = str(int(v)) if v == int(v) and abs(v) < 2 ** 63 else repr(v)
                return ("constx", op["ty"]["s"], txt + op["ty"]["s"])
            return ("constx", op["ty"]["s"], op["s"])
        if k in ("copy", "move"):
            return self.place_term(op["place"], cur)
        return ("unk", op.get("s"))

    def snapshot(self, region, cur, header_only):
        out = []
        for r in sorted(self.regions):
            if header_only:
                ok = is_inline_prefix(region, r)
            else:
                ok = is_prefix(region, r)
            if ok and r != region:
                out.append((r, self.ver(cur, r)))
        return tuple(out)

    def region_of_pointer(self, term):
        """exactly named region a pointer-valued term points to, or None"""
        if not isinstance(term, tuple) or not term:
            return None
        if term[0] == "addr" and term[2] is None:
            return term[1]
        if term[0] == "arg":
            ty = self.locals[term[1]]["ty"]
            if ty["k"] in ("ref", "rawptr"):
                return "A%d" % term[1]
        if term[0] == "mem" and term[3] is None:
            return self.arg_alias.get(term[1], term[1] + "*")
        if term[0] == "field":
            vp = ""
            t = term
            while t[0] == "field":
                vp = "." + t[2] + vp
                t = t[1]
            if t[0] == "arg" and self.is_value_arg(t[1]):
                return "A%d%s*" % (t[1], vp)
        return None

    def arg_for_call(self, term, cur, header_only, ty=None):
        """reference arguments of pure calls are expanded with the versions of
        the memory the callee may read through them."""
        if isinstance(term, tuple) and term and term[0] == "addr":
            region = term[1]
            return ("at", region, term[2], self.ver(cur, region), self.snapshot(region, cur, header_only))
        if ty is not None and ty["k"] in ("ref", "rawptr"):
            region = self.region_of_pointer(term)
            if region is not None and region in self.regions:
                return ("at", region, None, self.ver(cur, region), self.snapshot(region, cur, header_only))
        return term

    def rvalue_term(self, rv, cur):
        k = rv["k"]
        if k == "use":
            return self.operand_term(rv["op"], cur)
        if k in ("ref", "rawptr"):
            t = self.place_term(rv["place"], cur, want_addr=True)
            if t is None:
                return ("addrval", self.place_term(rv["place"], cur))
            return t
        if k == "binop":
            return mk_bin(rv["op"], self.operand_term(rv["a"], cur), self.operand_term(rv["b"], cur))
        if k == "unop":
            a = self.operand_term(rv["a"], cur)
            if rv["op"] == "PtrMetadata" and a[0] == "arg":
                # length of a slice argument: same spelling as `arg.len()`
                a = self.arg_for_call(a, cur, True, self.operand_ty(rv["a"]))
            return mk_un(rv["op"], a)
        if k == "cast":
            src = self.operand_ty(rv["op"])
            return mk_cast(rv["kind"], self.operand_term(rv["op"], cur), rv["ty"], src)
        if k == "discriminant":
            pty = self.operand_ty({"k": "copy", "place": rv["place"]})
            return mk_discr(self.place_term(rv["place"], cur), pty.get("name", pty["k"]))
        if k == "aggregate":
            a = rv["agg"]
            ops = tuple(self.operand_term(o, cur) for o in rv["ops"])
            if a == "adt":
                return ("agg", "adt", (rv["path"], rv["variant"]), ops)
            if a == "closure":
                return ("agg", "closure", rv["path"], ops)
            return ("agg", a, None, ops)
        if k == "repeat":
            return ("repeat", self.operand_term(rv["op"], cur), rv["n"])
        return ("unk", rv.get("s"))

    def _apply_defs(self, b, i, cur, exact_var=None, exact_term=None):
        for v in self.defs_at.get((b, i), ()):
            ver = ("d", b, i)
            cur[v] = ver
            if v == exact_var and exact_term is not None:
                self.term_of[(v, ver)] = exact_term
            else:
                self.term_of[(v, ver)] = ("opq", v, b, i)

    def _walk_block(self, b, cur):
        blk = self.blocks[b]
        for i, s in enumerate(blk["stmts"]):
            if s["k"] == "assign":
                t = self.rvalue_term(s["rv"], cur)
                self.stmt_terms[(b, i)] = t
                mode, name, vp = self.walk_place(s["place"])
                if mode == "val":
                    self._apply_defs(b, i, cur, "v%d" % s["place"]["local"], t)
                else:
                    addr = self.place_term(s["place"], cur, want_addr=True)
                    self.emit({"k": "store", "b": b, "i": i, "region": name, "addr": addr, "val": t,
                               "span": s["span"], "vers": dict(cur)})
                    exact = None if self.collapsed(name) else name
                    self._apply_defs(b, i, cur, exact, t)
            elif s["k"] == "setdiscr":
                self._apply_defs(b, i, cur)
        t = blk["term"]
        i = len(blk["stmts"])
        self.ver_at_term[b] = dict(cur)
        k = t["k"]
        if k == "call":
            self._walk_call(b, i, t, cur)
        elif k == "switch":
            self.emit({"k": "switch", "b": b, "i": i, "discr": self.operand_term(t["discr"], cur),
                       "span": blk["tspan"]})
        elif k == "assert":
            ev = {"k": "assert", "b": b, "i": i, "cond": self.operand_term(t["cond"], cur),
                  "expected": t["expected"], "kind": t["kind"], "span": blk["tspan"]}
            d = t.get("detail")
            if d:
                ev["detail"] = {kk: (self.operand_term(vv, cur) if isinstance(vv, dict) and "k" in vv else vv)
                                for kk, vv in d.items()}
            self.emit(ev)
        elif k == "drop":
            self._apply_defs(b, i, cur)
        elif k == "return":
            self.emit({"k": "return", "b": b, "i": i, "val": self.var_term(cur, "v0") if 0 not in self.mem_locals
                       else self.load_region("L0", None, cur), "span": blk["tspan"]})

    def _walk_call(self, b, i, t, cur):
        blk = self.blocks[b]
        key, fn = self.call_info(t)
        pure = self.call_is_pure(t)
        header_only = key in E.HEADER_ONLY
        raw_args = [self.operand_term(a, cur) for a in t["args"]]
        if key is None:
            fterm = self.operand_term(t["func"], cur)
            res = ("site", b, "indirect")
        else:
            fterm = None
            summ = self.summary_for(fn)
            res = None
            if summ is not None:
                res = self.inline_summary(summ, raw_args, cur)
            if res is not None:
                pure = True
            elif pure:
                args = tuple(self.arg_for_call(a, cur, header_only, self.operand_ty(o))
                             for a, o in zip(raw_args, t["args"]))
                targs = tuple(x["s"] for x in fn.get("targs", []))
                res = mk_call(key, args, targs, self, cur)
            elif key == "alloc::vec::from_elem" and len(raw_args) == 2:
                # vec![x; n] for a generic element type calls Clone (not pure), but the vector is n copies of x whatever
                # clone does: keep the constructor term (its length and fill value are read off it)
                targs = tuple(x["s"] for x in fn.get("targs", []))
                res = ("call", key, targs, tuple(raw_args))
            else:
                res = ("site", b, key)
        unwraps = None
        if key == "core::option::Option::unwrap_or_else" and len(raw_args) == 2 and raw_args[1][0] == "agg" \
                and raw_args[1][1] == "closure":
            cf = self.prog.fns.get(raw_args[1][2])
            if cf is not None and not any(bb["term"]["k"] == "return" for bb in cf["blocks"]):
                # the fallback closure never returns (it panics): the result is the payload of Some
                res = mk_field(("dc", raw_args[0], "Some"), "0", 0)
                unwraps = raw_args[0]
        if key in ("core::option::Option::unwrap", "core::option::Option::expect", "core::option::Option::unwrap_unchecked") \
                and raw_args and res is not None and res[0] == "site":
            # Option<&mut T>: not a pure call (the reference is handed through), but the result is the payload
            res = mk_field(("dc", raw_args[0], "Some"), "0", 0)
        swap_store = None
        if key in E.MEM_REPLACE and t["args"] and t["args"][0]["k"] in ("copy", "move"):
            # replace(p, v) / take(p): the result is the old value of *p, then *p is overwritten
            tp = t["args"][0]["place"]
            dplace = {"local": tp["local"], "proj": list(tp["proj"]) + [{"k": "deref"}]}
            try:
                old = self.place_term(dplace, cur)
                dmode, dname, _ = self.walk_place(dplace)
                daddr = self.place_term(dplace, cur, want_addr=True)
            except Exception:
                old = None
            if old is not None and dmode == "mem":
                res = old
                newv = raw_args[1] if len(raw_args) > 1 else ("default",)
                swap_store = {"k": "store", "b": b, "i": i, "region": dname, "addr": daddr, "val": newv,
                              "span": blk["tspan"], "vers": dict(cur), "via": key}
        if key in E.PTR_WRITE and len(t["args"]) == 2 and t["args"][0]["k"] in ("copy", "move"):
            # p.write(v) / ptr::write(p, v): a store of v through p
            tp = t["args"][0]["place"]
            dplace = {"local": tp["local"], "proj": list(tp["proj"]) + [{"k": "deref"}]}
            try:
                dmode, dname, _ = self.walk_place(dplace)
                daddr = self.place_term(dplace, cur, want_addr=True)
            except Exception:
                dmode = None
            if dmode == "mem":
                swap_store = {"k": "store", "b": b, "i": i, "region": dname, "addr": daddr, "val": raw_args[1],
                              "span": blk["tspan"], "vers": dict(cur), "via": key}
        ev = {"k": "call", "b": b, "i": i, "key": key, "fn": fn, "args": raw_args, "pure": pure,
              "res": res, "span": blk["tspan"], "func_term": fterm, "vers": dict(cur),
              "unsafe": bool(fn and fn.get("unsafe")), "diverges": t["target"] is None}
        if unwraps is not None:
            ev["unwraps"] = unwraps
        self.emit(ev)
        if swap_store is not None:
            self.emit(swap_store)
        mode, name, vp = self.walk_place(t["dest"])
        before = dict(cur) if key in ("alloc::vec::Vec::set_len", "alloc::vec::Vec::resize", "alloc::vec::Vec::resize_with") else None
        if mode == "val":
            self._apply_defs(b, i, cur, "v%d" % t["dest"]["local"], res)
        else:
            exact = None if self.collapsed(name) else name
            self._apply_defs(b, i, cur, exact, res)
        if before is not None and raw_args and raw_args[0][0] == "addr" and raw_args[0][2] is None:
            R = raw_args[0][1]
            ver = cur.get(R)
            if ver == ("d", b, i):
                prev = before.get(R, ("e",))
                self.term_of[(R, ver)] = ("setlen", self.term_of.get((R, prev), ("init", R)), raw_args[1])
                if key == "alloc::vec::Vec::set_len":
                    self.setlen_prev[(R, ver)] = prev       # set_len keeps the buffer; resize may move it


# ---------------------------------------------------------------------------
# term constructors

COMM = {"Add", "Mul", "BitAnd", "BitOr", "BitXor", "Eq", "Ne", "AddWithOverflow", "MulWithOverflow",
        "AddUnchecked", "MulUnchecked"}


def mk_field(t, name, idx):
    if t[0] == "agg":
        ops = t[3]
        if idx < len(ops):
            return ops[idx]
    if t[0] == "dc" and t[1][0] == "agg" and t[1][1] == "adt" and t[1][2][1] == t[2]:
        ops = t[1][3]
        if idx < len(ops):
            return ops[idx]
    if t[0] == "dc" and t[2] == "Continue" and t[1][0] == "call" and t[1][1] == "core::ops::try_trait::Try::branch":
        # `x?` on Option/Result: the Continue payload is the Some/Ok payload
        return ("field", ("dc", t[1][3][0], "Some"), "0")
    if t[0] == "mem" and t[3] is not None and t[3][0] != "faddr_whole":
        # component of an element loaded as a whole through a pointer: same canonical form as the
        # direct load of that component, (*p).k
        return ("mem", t[1] + "." + str(name), t[2], ("faddr", t[3], str(name)))
    if t[0] == "bin" and t[1].endswith("WithOverflow"):
        if idx == 0:
            return mk_bin(t[1][:-len("WithOverflow")], t[2], t[3])
        return ("ovf", t[1][:-len("WithOverflow")], t[2], t[3])
    return ("field", t, name)


def mk_bin(op, a, b):
    if op.endswith("Unchecked"):
        op = op[:-len("Unchecked")]
    if op == "Gt":
        op, a, b = "Lt", b, a
    elif op == "Ge":
        op, a, b = "Le", b, a
    if op in ("Div", "Rem") and b[0] == "const" and isinstance(b[2], int) and str(b[1]).startswith("u") \
            and b[2] >= 2 and b[2] & (b[2] - 1) == 0 and a[0] != "const":
        # unsigned x / 2^k == x >> k and x % 2^k == x & (2^k - 1): one canonical form
        k = b[2].bit_length() - 1
        if op == "Div":
            op, b = "Shr", ("const", "i32", k)
        else:
            op, b = "BitAnd", ("const", b[1], b[2] - 1)
    if op == "Lt" and b[0] == "const" and b[2] == 1 and str(b[1]).startswith("u") and a[0] != "const":
        op, b = "Eq", ("const", b[1], 0)        # unsigned: x < 1 is x == 0
    elif op == "Le" and b[0] == "const" and b[2] == 0 and str(b[1]).startswith("u") and a[0] != "const":
        op = "Eq"                                # unsigned: x <= 0 is x == 0
    if op in COMM and repr(b) < repr(a):
        a, b = b, a
    if a[0] == "const" and b[0] == "const" and isinstance(a[2], int) and isinstance(b[2], int):
        x, y = a[2], b[2]
        if op == "Add":
            return ("const", a[1], x + y)
        if op == "Sub" and x >= y:
            return ("const", a[1], x - y)
        if op == "Mul":
            return ("const", a[1], x * y)
        if op in ("Eq", "Ne", "Lt", "Le"):
            r = {"Eq": x == y, "Ne": x != y, "Lt": x < y, "Le": x <= y}[op]
            return ("const", "bool", int(r))
    return ("bin", op, a, b)


def mk_un(op, a):
    if op == "Not" and a[0] == "un" and a[1] == "Not":
        return a[2]
    if op == "PtrMetadata":
        # the length of `&*vec` / `vec.as_slice()` is the length of the vector: one canonical spelling
        while a[0] == "call" and a[1] in E.DEREF_KEYS and a[3]:
            a = a[3][0]
        return ("len", a)
    return ("un", op, a)


def mk_cast(kind, a, ty, src=None):
    if kind.startswith("IntToInt") and a[0] == "const":
        return ("const", ty["s"], a[2])
    if kind.startswith("PointerCoercion(Unsize") and src is not None and src["k"] in ("ref", "rawptr") \
            and src["to"]["k"] == "array" and src["to"]["len"].isdigit():
        return ("unsize", a, int(src["to"]["len"]))
    if kind.startswith("PtrToPtr") or kind.startswith("PointerCoercion(MutToConstPointer"):
        return ("pcast", a)
    return ("cast", kind.split("(")[0], a, ty["s"])


def mk_discr(t, adt):
    if t[0] == "agg" and t[1] == "adt":
        return ("variantof", t[2][1], adt)
    if t[0] == "call" and t[1] == "core::ops::try_trait::Try::branch" and adt == "ControlFlow":
        return ("discr", t[3][0], "ControlFlow?")
    return ("discr", t, adt)


def strip_ref(t):
    """container identity behind a reference-like term"""
    while True:
        if t[0] == "call" and t[1] in E.DEREF_KEYS:
            t = t[3][0]
            continue
        if t[0] == "pcast":
            t = t[1]
            continue
        return t


def mk_call(key, args, targs, an, cur):
    if key in E.LEN_KEYS and args:
        return mk_len(strip_ref(args[0]), an)
    if key in ("core::cmp::Ord::min", "usize::min") and len(args) == 2:
        a, b = args
        if repr(b) < repr(a):
            a, b = b, a
        return ("min", a, b)
    if key in ("core::cmp::Ord::max", "usize::max") and len(args) == 2:
        a, b = args
        if repr(b) < repr(a):
            a, b = b, a
        return ("max", a, b)
    if key == "core::iter::traits::collect::IntoIterator::into_iter" and args:
        return args[0]
    if key in ("core::cmp::PartialEq::eq", "core::cmp::PartialEq::ne") and len(args) == 2 and len(targs) == 2 \
            and targs[0] == targs[1] and targs[0] in ("&usize", "&isize", "&u64", "&bool", "&u32", "&i32"):
        # `a == b` on references to integers compares the integers: (&&T, &&T) -> *a == *b
        ps = [value_behind(x, an) for x in args]
        if all(p is not None for p in ps):
            return mk_bin("Eq" if key.endswith("::eq") else "Ne", ("deref", ps[0]), ("deref", ps[1]))
    if key in ("core::option::Option::unwrap", "core::option::Option::expect",
               "core::option::Option::unwrap_unchecked") and args:
        return mk_field(("dc", args[0], "Some"), "0", 0)
    if key == "core::option::Option::unwrap_or_else" and len(args) == 2 and args[1][0] == "agg" and args[1][1] == "closure":
        cf = an.prog.fns.get(args[1][2])
        if cf is not None and not any(b["term"]["k"] == "return" for b in cf["blocks"]):
            # the fallback closure never returns (it panics): the result is the payload
            return mk_field(("dc", args[0], "Some"), "0", 0)
    if key in ("core::result::Result::unwrap", "core::result::Result::expect",
               "core::result::Result::unwrap_unchecked") and args:
        return mk_field(("dc", args[0], "Ok"), "0", 0)
    if key == "core::convert::From::from" and len(args) == 1 and targs and len(targs) >= 2 and targs[0] == targs[1]:
        return args[0]
    if key.split("::")[-1] == "rotate_left" and key.split("::")[0] in ("usize", "u64") and len(args) == 2 \
            and args[0][0] == "const" and args[0][2] == 1:
        # 1.rotate_left(k) with k below the width is 1 << k (one canonical spelling of a single-bit mask)
        amt = args[1]
        if amt[0] == "cast" and amt[1] == "IntToInt":
            amt = amt[2]
        if amt[0] == "bin" and amt[1] == "BitAnd" and any(x[0] == "const" and isinstance(x[2], int) and x[2] < 64 for x in (amt[2], amt[3])):
            return mk_bin("Shl", args[0], amt)
    if key == "core::num::nonzero::NonZero::get" and len(args) == 1:
        v = _nonzero_value(args[0])
        if v is not None:
            return v
    if key == "graaf::op::contiguous_order::ContiguousOrder::contiguous_order" and getattr(an.prog, "cord_equiv", False):
        key = "graaf::op::order::Order::order"
    if key in ("graaf::op::order::Order::order", "graaf::op::contiguous_order::ContiguousOrder::contiguous_order"):
        targs = ()
    return ("call", key, targs, args)


def _nonzero_value(t):
    """integer value of a NonZero term: NonZero::new(x).unwrap() is x, a.checked_mul(b).unwrap() is the checked product of
    the values"""
    if t[0] == "field" and t[2] == "0" and t[1][0] == "dc" and t[1][2] == "Some" and t[1][1][0] == "call":
        c = t[1][1]
        if c[1] == "core::num::nonzero::NonZero::new" and len(c[3]) == 1:
            return c[3][0]
        if c[1] in ("core::num::nonzero::NonZero::checked_mul", "core::num::nonzero::NonZero::checked_add") and len(c[3]) == 2:
            a, b = _nonzero_value(c[3][0]), _nonzero_value(c[3][1]) if c[1].endswith("mul") else c[3][1]
            if a is not None and b is not None:
                op = "usize::checked_mul" if c[1].endswith("mul") else "usize::checked_add"
                return ("field", ("dc", ("call", op, (), (a, b)), "Some"), "0")
    return None


def value_behind(at, an):
    """stored value term of an exactly named region, if known"""
    if at[0] == "at" and at[2] is None:
        t = an.term_of.get((at[1], at[3]))
        if t is not None and t[0] != "opq":
            return t
    return None


def mk_len(x, an):
    if x[0] == "unsize":
        return ("const", "usize", x[2])
    if x[0] == "at" and x[2] is None and (x[3] != ("e",) or x[4] != ()):
        ri = an.region_info.get(x[1])
        if ri is not None and ri["ty"].get("k") in ("slice", "str"):
            # the length of a slice belongs to the reference, not to the memory behind it
            x = ("at", x[1], None, ("e",), ())
    v = value_behind(x, an) if x[0] == "at" else x
    if v is not None:
        r = len_of_value(v, an)
        if r is not None:
            return r
    return ("len", x)


def len_of_value(v, an):
    if v[0] == "call":
        key, targs, args = v[1], v[2], v[3]
        if key == "alloc::vec::from_elem" and len(args) == 2:
            return args[1]
        if key == "core::clone::Clone::clone" and args:
            return mk_len(strip_ref(args[0]), an)
        if key == "alloc::sync::Arc::new" and args:
            return len_of_value(args[0], an)
        if key == "core::mem::manually_drop::ManuallyDrop::new" and args:
            return len_of_value(args[0], an)
        if key == "core::iter::traits::iterator::Iterator::collect" and args and _collects_into_vec(targs):
            return count_of_iter(args[0], an)
    if v[0] == "setlen":
        return v[2]
    if v[0] == "site" and v[2] == "core::iter::traits::iterator::Iterator::collect":
        # collect() of an iterator whose closures are not provably pure: the number of items is still known
        for ev in an.ev_by_block.get(v[1], ()):
            if ev["k"] == "call" and ev["key"] == v[2] and ev["args"] and \
                    _collects_into_vec(tuple(x["s"] for x in ev["fn"].get("targs", []))):
                return count_of_iter(ev["args"][0], an)
    return None


def _collects_into_vec(targs):
    """collect() keeps one element per item only for sequence targets (a set or map may merge items)"""
    return any(isinstance(t, str) and (t.startswith("std::vec::Vec<") or t.startswith("std::collections::VecDeque<")
                                       or t.startswith("std::boxed::Box<[")) for t in targs[1:])


def count_of_iter(d, an):
    """number of items of an iterator value term, when exactly known"""
    if d[0] == "agg" and d[1] == "adt" and d[2][0].endswith("ops::range::Range"):
        lo, hi = d[3]
        if lo == ("const", "usize", 0):
            return hi
        return None
    if d[0] == "call":
        key, args = d[1], d[3]
        if key in ("core::iter::traits::iterator::Iterator::map",
                   "core::iter::traits::iterator::Iterator::enumerate",
                   "core::iter::traits::iterator::Iterator::copied",
                   "core::iter::traits::iterator::Iterator::cloned") and args:
            return count_of_iter(args[0], an)
        if key == "slice::iter" and args:
            # one item per element of the slice / vector iterated
            x = args[0]
            while x[0] == "call" and x[1] in E.DEREF_KEYS and x[3]:
                x = x[3][0]
            x = strip_ref(x)
            if x[0] == "at" and x[2] is None:
                return mk_len(x, an)
    return None


def _inline_summary(self, summ, raw_args, cur):
    """instantiate a callee's return-value term at this call site"""
    ret, _ = summ
    try:
        return _subst(self, ret, raw_args, cur)
    except _NoInline:
        return None


class _NoInline(Exception):
    pass


def _caller_region(an, raw_args, region):
    """map callee region 'A<k>suffix' to the caller's region name"""
    if not region.startswith("A"):
        raise _NoInline()
    j = 1
    while j < len(region) and region[j].isdigit():
        j += 1
    k = int(region[1:j])
    suffix = region[j:]
    if k - 1 >= len(raw_args):
        raise _NoInline()
    a = raw_args[k - 1]
    base = an.region_of_pointer(a)
    if base is None:
        raise _NoInline()
    r = base + suffix
    if r not in an.regions:
        raise _NoInline()
    return r


def _subst(an, t, raw_args, cur):
    if not isinstance(t, tuple) or not t:
        return t
    k = t[0]
    if k == "arg":
        if t[1] - 1 >= len(raw_args):
            raise _NoInline()
        return raw_args[t[1] - 1]
    if k in ("phi", "site", "opq", "undef", "init"):
        raise _NoInline()
    if k == "mem":
        if t[2] != ("e",) or t[3] is not None:
            raise _NoInline()
        return an.load_region(_caller_region(an, raw_args, t[1]), None, cur)
    if k == "at":
        if t[3] != ("e",) or t[2] is not None:
            raise _NoInline()
        r = _caller_region(an, raw_args, t[1])
        return ("at", r, None, an.ver(cur, r), an.snapshot(r, cur, True))
    if k == "addr":
        if t[2] is not None:
            raise _NoInline()
        return ("addr", _caller_region(an, raw_args, t[1]), None)
    if k == "len":
        return mk_len(_subst(an, t[1], raw_args, cur), an)
    if k == "bin":
        return mk_bin(t[1], _subst(an, t[2], raw_args, cur), _subst(an, t[3], raw_args, cur))
    if k == "const" or k == "constx" or k == "fnref":
        return t
    if k == "field" and len(t) == 3:
        inner = _subst(an, t[1], raw_args, cur)
        return mk_field(inner, t[2], int(t[2]) if str(t[2]).isdigit() else 0)
    return tuple(_subst(an, x, raw_args, cur) if isinstance(x, tuple) else x for x in t)


Analysis.inline_summary = _inline_summary


def summary_regions(t, out):
    if isinstance(t, tuple) and t:
        if t[0] in ("mem", "at", "addr") and isinstance(t[1], str):
            out.add(t[1])
        for x in t:
            if isinstance(x, tuple):
                summary_regions(x, out)


def compute_summaries(prog):
    """accessor summaries: crate functions whose value is one pure expression
    of their arguments and of memory reachable from them"""
    prog.summaries = {}
    for rnd in range(3):
        out = {}
        for f in prog.d["fns"]:
            if f["kind"] == "Closure":
                continue
            nb = sum(1 for b in f["blocks"] if not b["cleanup"])
            if nb > 12:
                continue
            an = Analysis(prog, f)
            rets = [ev for ev in an.events if ev["k"] == "return"]
            if len(rets) != 1:
                continue
            if any(ev["k"] == "store" and not ev["region"].startswith("L") for ev in an.events):
                continue
            if any(ev["k"] == "call" and not ev["pure"] and not ev["diverges"] for ev in an.events):
                continue
            if any(ev["k"] == "switch" for ev in an.events):
                continue
            val = rets[0]["val"]
            if not _closed(val):
                continue
            regs = set()
            summary_regions(val, regs)
            if any(not r.startswith("A") for r in regs):
                continue
            out[f["path"]] = (val, regs)
        prog.summaries = dict(out)
    # ContiguousOrder::contiguous_order == Order::order on every implementor?
    tr = "graaf::op::contiguous_order::ContiguousOrder"
    ok = True
    n = 0
    for im in prog.impls:
        if im["trait"] != tr:
            continue
        n += 1
        st = im["self"]
        co = [it["path"] for it in im["items"] if it["name"] == "contiguous_order"]
        oi = None
        for jm in prog.impls:
            if jm["trait"] == "graaf::op::order::Order" and jm["self"].get("path") == st.get("path"):
                oi = [it["path"] for it in jm["items"] if it["name"] == "order"]
        if not co:
            continue    # uses the default body, which is `self.order()`
        if not oi or out.get(co[0]) is None or out.get(oi[0]) is None or out[co[0]][0] != out[oi[0]][0]:
            ok = False
    dflt = out.get(tr + "::contiguous_order")
    if dflt is None or dflt[0][0] != "call" or dflt[0][1] != "graaf::op::order::Order::order":
        ok = False
    prog.cord_equiv = ok and n > 0
    prog.cord_impls = n
    return out


def _closed(t):
    if not isinstance(t, tuple) or not t:
        return True
    if t[0] in ("phi", "site", "opq", "undef", "init", "unk"):
        return False
    if t[0] in ("mem", "at") and (t[2] is not None if t[0] == "at" else t[3] is not None):
        return False
    if t[0] == "mem" and t[2] != ("e",):
        return False
    if t[0] == "at" and t[3] != ("e",):
        return False
    return all(_closed(x) for x in t if isinstance(x, tuple))
