#!/usr/bin/env python3
"""Sensitivity canaries (DESIGN §9): each entry is one small edit of the CURRENT tree that breaks a
property while still compiling. The edit is applied to a scratch worktree of /repo's HEAD (outside
/repo and /verif, removed afterwards), facts are exported from it and the property's rules must
report at least one violation. A canary whose anchor text no longer exists is reported as n/a.

usage: selftest/canaries.py [name-substring ...]
"""
import json
import os
import subprocess
import sys
import tempfile

VERIF = os.path.dirname(os.path.dirname(os.path.abspath(__file__)))
sys.path.insert(0, VERIF)

AL = "src/repr/adjacency_list/mod.rs"
AM = "src/repr/adjacency_map/mod.rs"
AX = "src/repr/adjacency_matrix/mod.rs"
EL = "src/repr/edge_list/mod.rs"
AW = "src/repr/adjacency_list_weighted/mod.rs"

# (name, file, old, new, properties expected to alarm)
CANARIES = [
    ("guard-head-list", AL, '        assert!(v < order, "v = {v} isn\'t in the digraph");\n\n        let _ = unsafe { self.arcs.get_unchecked_mut(u) }.insert(v);',
     '        let _ = unsafe { self.arcs.get_unchecked_mut(u) }.insert(v);', ["C01"]),
    ("guard-selfloop-edgelist", EL, '        assert_ne!(u, v, "u = {u} equals v = {v}");\n\n        assert!(u < self.order', '        assert!(u < self.order', ["C01"]),
    ("admit-head-map", AM, '        let _ = self.arcs.entry(v).or_default();\n    }', '    }', ["C01"]),
    ("nopanic-weighted", AW, '''        assert!(u < order, "u = {u} isn't in the digraph");
        assert!(v < order, "v = {v} isn't in the digraph");

        let _ = self.arcs[u].insert(v, w);''', '''        assert!(u < order, "u = {u} isn't in the digraph");

        let _ = self.arcs[u].insert(v, w);

        assert!(v < order, "v = {v} isn't in the digraph");''', ["C01"]),
    ("idempotent-matrix-xor", AX, "        unsafe { *self.blocks.get_unchecked_mut(i >> 6) |= Self::mask(i) };", "        unsafe { *self.blocks.get_unchecked_mut(i >> 6) ^= Self::mask(i) };", ["C01"]),
    ("matrix-mask-other-cell", AX, "        unsafe { *self.blocks.get_unchecked_mut(i >> 6) |= Self::mask(i) };", "        unsafe { *self.blocks.get_unchecked_mut(i >> 6) |= Self::mask(u) };", ["C01"]),
    ("remove-swapped-edgelist", EL, "        self.arcs.remove(&(u, v))", "        self.arcs.remove(&(v, u))", ["C01"]),
    ("bfs-no-mark", "src/algo/bfs.rs", "                    *visited_v = true;\n\n                    self.queue.push_back(v);", "                    self.queue.push_back(v);", ["C04"]),
    ("bfs-lifo", "src/algo/bfs.rs", "                    self.queue.push_back(v);\n                }\n            }\n        }\n\n        Some(u)", "                    self.queue.push_front(v);\n                }\n            }\n        }\n\n        Some(u)", ["C04"]),
    ("bfsdist-level", "src/algo/bfs_dist.rs", "        let w_next = w + 1;", "        let w_next = w + 2;", ["C04"]),
    ("dijkstra-nonstrict", "src/algo/dijkstra.rs", "                if w_next < *dist_v {", "                if w_next <= *dist_v {", ["C03"]),
    ("dijkstra-push-old-key", "src/algo/dijkstra.rs", "                    self.heap.push((Reverse(w_next), v));", "                    self.heap.push((Reverse(w_prev), v));", ["C03"]),
    ("dijkstradist-no-stale-test", "src/algo/dijkstra_dist.rs", "            if w_prev == unsafe { *dist_ptr.add(u) } {\n                break (w_prev, u);\n            }", "            break (w_prev, u);", ["C03"]),
    ("bfspred-self-pred", "src/algo/bfs_pred.rs", "                    self.queue.push_back((Some(v), u));", "                    self.queue.push_back((Some(u), u));", ["C05"]),
    ("dijkstrapred-early-none", "src/algo/dijkstra_pred.rs", "            if distance == unsafe { *dist_ptr.add(v) } {\n                break (distance, step);\n            }", "            if distance == unsafe { *dist_ptr.add(v) } {\n                break (distance, step);\n            }\n\n            return None;", ["C05"]),
    ("dfspred-self-pred", "src/algo/dfs_pred.rs", "                self.stack.push((Some(v), x));", "                self.stack.push((Some(x), x));", ["C06"]),
    ("dfsdist-depth", "src/algo/dfs_dist.rs", "        let w = w + 1;", "        let w = w + 0;", ["C06"]),
    ("bfm-no-flag-third-copy", "src/algo/bellman_ford_moore.rs", None, None, ["C07"]),
    ("bfm-skip-arc", "src/algo/bellman_ford_moore.rs", None, None, ["C07"]),
    ("bfm-no-unreached-guard", "src/algo/bellman_ford_moore.rs", None, None, ["C07"]),
    ("bfm-nonstrict-detection", "src/algo/bellman_ford_moore.rs", "                    if dist_u != isize::MAX && *dist_ptr.add(v) > dist_u + w {\n                        return None;",
     "                    if dist_u != isize::MAX && *dist_ptr.add(v) >= dist_u + w {\n                        return None;", ["C07"]),
    ("fw-intermediate-innermost", "src/algo/floyd_warshall.rs", None, None, ["C08"]),
    ("fw-no-infinity-guard", "src/algo/floyd_warshall.rs", "                    if b == isize::MAX {\n                        continue;\n                    }\n", "", ["C08"]),
    ("layout-swapped-index", "src/algo/distance_matrix.rs", "        &self.dist[index.0 * self.order + index.1]", "        &self.dist[index.1 * self.order + index.0]", ["C08", "C18"]),
    ("dm-unchecked-square", "src/algo/distance_matrix.rs", "        let size = order\n            .checked_mul(order)\n            .expect(\"a matrix has at most `usize::MAX` elements\");", "        let size = order * order;", ["C13", "C18"]),
    ("tile-floor-div", AL, None, None, ["C17"]),
    # round-3 clauses
    ("haswalk-step-two", AM, "                ptr = ptr.add(1);", "                ptr = ptr.add(2);", ["C02"]),
    ("bfsdist-yield-before-scan", "src/algo/bfs_dist.rs", "        for v in self.digraph.out_neighbors(u) {\n            assert!(v < order",
     "        if w_next == order {\n            return Some((u, w));\n        }\n\n        for v in self.digraph.out_neighbors(u) {\n            assert!(v < order", ["C04"]),
    ("dfspred-skip-roots", "src/algo/dfs_pred.rs", "        for (u, v) in self {", "        let roots = self.stack.len();\n\n        for (u, v) in self.skip(roots) {", ["C06"]),
    ("fw-prune", "src/algo/floyd_warshall.rs", "                    let s = a + b;", "                    if b > 1_000 {\n                        continue;\n                    }\n\n                    let s = a + b;", ["C08"]),
    ("matrix-union-word-or", AX, "        for (u, v) in other.arcs() {\n            union.add_arc(u, v);\n        }",
     "        for (block, other_block) in union.blocks.iter_mut().zip(&other.blocks) {\n            *block |= *other_block;\n        }", ["C11"]),
    ("matrix-semicomplete-one-word", AX, "                    .all(|v| self.has_arc(u, v) || self.has_arc(v, u))",
     "                    .all(|v| {\n                        let i = self.index(u, v);\n                        let j = self.index(v, u);\n\n                        self.blocks[i >> 6] & (Self::mask(i) | Self::mask(j)) != 0\n                    })", ["C12"]),
    ("cycle-wrapping-sub", EL, "once((u + order - 1) % order)", "once(u.wrapping_sub(1) % order)", ["C14"]),
    ("seed-checked-add", AM, "let thread_seed = seed.wrapping_add(thread_id as u64);", "let thread_seed = seed + thread_id as u64;", ["C15"]),
    ("center-skip-infinite", "src/algo/distance_matrix.rs", "        for (i, &e) in ecc.enumerate() {\n            match e.cmp(&min) {",
     "        for (i, &e) in ecc.enumerate() {\n            if e == self.infinity {\n                continue;\n            }\n\n            match e.cmp(&min) {", ["C18"]),
    ("center-drop-ties", "src/algo/distance_matrix.rs", "                Equal => center.push(i),", "                Equal => (),", ["C18"]),
    ("center-no-clear", "src/algo/distance_matrix.rs", "                    center.clear();\n                    center.push(i);", "                    center.push(i);", ["C18"]),
    ("center-min-not-updated", "src/algo/distance_matrix.rs", "                    center.push(i);\n                    min = e;", "                    center.push(i);", ["C18"]),
    ("filter-vertices-no-row", AM, "            if predicate(u) {\n                let _ = arcs.entry(u).or_default();\n", "            if predicate(u) {\n", ["C11"]),
    ("er-nonstrict-draw", EL, ".filter(|_| rng.next_f64() < p)", ".filter(|_| rng.next_f64() <= p)", ["C15"]),
    ("search-shortcut", "src/algo/predecessor_tree.rs", "        self.search_by(s, |&v, _| v == t)",
     "        if s != t && self.pred.get(t) == Some(&Some(s)) {\n            return None;\n        }\n\n        self.search_by(s, |&v, _| v == t)", ["C19"]),
    ("flag-store-true", AL, "                                    result_clone.store(\n                                        false,", "                                    result_clone.store(\n                                        true,", ["C12", "C17"]),
    ("terminate-no-mark", "src/algo/predecessor_tree.rs", "                unsafe {\n                    *visited_ptr.add(v) = true;\n                }\n", "", ["C19"]),
    ("from-rows-no-head-check", AL, '''        for (u, v) in digraph.arcs() {
            assert_ne!(u, v, "u = {u} equals v = {v}");
            assert!(v < order, "v = {v} isn't in the digraph");
        }

        digraph''', '''        for (u, v) in digraph.arcs() {
            assert_ne!(u, v, "u = {u} equals v = {v}");
        }

        digraph''', ["C16"]),
    ("from-weight-zero", AW, "                    h.add_arc_weighted(u, v, 1);", "                    h.add_arc_weighted(u, v, 0);", ["C16"]),
    ("admissible-circuit", AL, '''    fn circuit(order: usize) -> Self {
        assert!(order > 0, "a digraph has at least one vertex");
''', '''    fn circuit(order: usize) -> Self {
''', ["C14"]),
    ("tournament-same-direction", AL, "                    let _ = unsafe { arcs.get_unchecked_mut(v).insert(u) };", "                    let _ = unsafe { arcs.get_unchecked_mut(u).insert(v) };", ["C15"]),
    ("erdos-no-p-check", EL, '''        assert!(order > 0, "a digraph has at least one vertex");
        assert!((0.0..=1.0).contains(&p), "p = {p} must be in [0, 1]");

        let mut rng''', '''        assert!(order > 0, "a digraph has at least one vertex");

        let mut rng''', ["C15"]),
    ("idsrc-complement-universe", AM, "        let vertices = self.arcs.keys().copied().collect::<BTreeSet<_>>();", "        let vertices = (0..self.order()).collect::<BTreeSet<_>>();", ["C11"]),
    ("total-has-arc-index", AL, "        self.arcs.get(u).is_some_and(|set| set.contains(&v))\n    }\n}\n\nimpl HasEdge", "        self.arcs[u].contains(&v)\n    }\n}\n\nimpl HasEdge", ["C02"]),
    ("total-matrix-no-guard", AX, "        if u >= self.order || v >= self.order {\n            return false;\n        }\n\n        let i = self.index(u, v);\n\n        self.blocks[i >> 6] & Self::mask(i) != 0",
     "        let i = self.index(u, v);\n\n        self.blocks.get(i >> 6).is_some_and(|b| b & Self::mask(i) != 0)", ["C02"]),
    ("mem-dfs-no-assert", "src/algo/dfs.rs", '        assert!(u < order, "u = {u} isn\'t in the digraph");\n\n', "", ["C13"]),
    ("mem-bfm-no-source-check", "src/algo/bellman_ford_moore.rs", '        assert!(s < order, "The source vertex is not in the digraph.");\n\n', "", ["C13", "C07"]),
    ("mem-outneighbors-no-assert", AL, '        assert!(u < self.order(), "u = {u} isn\'t in the digraph");\n\n        unsafe { self.arcs.get_unchecked(u).iter().copied() }', "        unsafe { self.arcs.get_unchecked(u).iter().copied() }", ["C13"]),
    ("leak-no-release", AM, "            let mut lhs_vec = ManuallyDrop::into_inner(lhs_vec);\n", "            let mut lhs_vec = ManuallyDrop::into_inner(lhs_vec.clone());\n", ["C13"]),
    ("narrow-heap-key", "src/algo/dijkstra.rs", "                    self.heap.push((Reverse(w_next), v));",
     "                    self.heap.push((Reverse(w_next as u32 as usize), v));", ["C03"]),
    ("shift-by-width", AX, "                self.current_bits &= self.current_bits - 1;",
     "                self.current_bits = (self.current_bits >> bit >> 1) << (bit + 1);", ["C01", "C02"]),
    ("ops-bulk-write", EL, "        for &(u, v) in &other.arcs {\n            union.add_arc(u, v);\n        }\n",
     "        union.arcs.extend(other.arcs.iter().copied());\n", ["C11"]),
    ("fw-diagonal-domain", "src/algo/floyd_warshall.rs", "        for i in 0..self.digraph.order() {", "        for i in 0..self.digraph.order() - 1 {", ["C08"]),
    ("walk-min-length", EL, "        walk.len() > 1\n            && walk", "        walk.len() != 1\n            && walk", ["C02"]),
    ("unit-interval-mul", "src/gen/prng/xoshiro256_star_star.rs", "        f64::from_bits((exponent << 52) | mantissa) - 1.0",
     "        let _ = (exponent, mantissa);\n\n        next_u64 as f64 * (1.0 / 18_446_744_073_709_551_616.0)", ["C15"]),
    ("fields-manual-eq", AX, None, None, ["C20"]),
    ("pure-write-through-shared", AL, None, None, ["C02"]),
    ("nondet-hashset", AM, None, None, ["C15", "C17"]),
    # clauses added in round 11
    ("size-shortcut-semicomplete-le", AW, "        self.size() >= order * (order - 1) / 2\n            && (0..order).all(|u| {",
     "        self.size() > order * (order - 1) / 2\n            && (0..order).all(|u| {", ["C12"]),
    ("merge-cut-points-floor-stride", AM, "            partitions.push(k * order / t);", "            partitions.push(k * (order / t));", ["C11", "C17"]),
    ("from-early-trivial", AL, "                assert!(order > 0, \"a digraph has at least one vertex\");\n\n                let mut h = Self::empty(order);\n\n                for (u, v) in digraph.arcs() {\n                    assert_ne!",
     "                assert!(order > 0, \"a digraph has at least one vertex\");\n\n                if digraph.size() == 0 {\n                    return Self::trivial();\n                }\n\n                let mut h = Self::empty(order);\n\n                for (u, v) in digraph.arcs() {\n                    assert_ne!", ["C16"]),
    ("search-by-exit-before-predicate", "src/algo/predecessor_tree.rs", "        while let Some(&v) = self.pred.get(s) {\n            if is_target(&s, &v) {",
     "        while let Some(&v) = self.pred.get(s) {\n            if v == Some(s) {\n                break;\n            }\n\n            if is_target(&s, &v) {", ["C19"]),
]


def special(name, src):
    """edits that need more than one textual replacement"""
    if name == "bfm-no-flag-third-copy":
        parts = src.split("                                updated = true;\n")
        if len(parts) != 5:
            return None
        return parts[0] + "                                updated = true;\n" + parts[1] + "                                updated = true;\n" + parts[2] + parts[3] + "                                updated = true;\n" + parts[4]
    if name == "bfm-skip-arc":
        # duplicate one `i += 1` between the first two copies
        marker = "                    i += 1;\n\n                    if i < arcs_len {\n"
        k = src.find(marker)
        if k < 0:
            return None
        return src[:k] + "                    i += 1;\n" + src[k:]
    if name == "bfm-no-unreached-guard":
        old = "                        if dist_u != isize::MAX {\n                            let w = dist_u + w;"
        k = src.find(old, src.find(old) + 1)   # second copy
        if k < 0:
            return None
        return src[:k] + "                        if true {\n                            let w = dist_u.wrapping_add(*w);" + src[k + len(old):]
    if name == "fw-intermediate-innermost":
        a = "        for i in self.digraph.vertices() {\n            for j in self.digraph.vertices() {\n                let a = unsafe { *dist_ptr.add(j * order + i) };"
        if a not in src:
            return None
        # make the intermediate vertex `i` the middle loop instead of the outermost one
        b = "        for j in self.digraph.vertices() {\n            for i in self.digraph.vertices() {\n                let a = unsafe { *dist_ptr.add(j * order + i) };"
        return src.replace(a, b)
    if name == "tile-floor-div":
        old = "        let chunk_size = order.div_ceil(t);\n        let mut handles = Vec::with_capacity(t);\n\n        for thread_id in 0..t {\n            let start = thread_id * chunk_size;\n            let end = order.min(start + chunk_size);\n\n            if start >= end {\n                break;\n            }\n\n            let arcs_arc"
        if old not in src:
            return None
        return src.replace(old, old.replace("order.div_ceil(t)", "(order / t).max(1)"))
    if name == "fields-manual-eq":
        old = "#[derive(Clone, Debug, Eq, Hash, Ord, PartialEq, PartialOrd)]\npub struct AdjacencyMatrix {"
        if old not in src:
            return None
        new = "#[derive(Clone, Debug, Eq, Hash, Ord, PartialOrd)]\npub struct AdjacencyMatrix {"
        src = src.replace(old, new)
        return src + "\nimpl PartialEq for AdjacencyMatrix {\n    fn eq(&self, other: &Self) -> bool {\n        self.blocks == other.blocks\n    }\n}\n"
    if name == "pure-write-through-shared":
        old = "    fn size(&self) -> usize {\n        self.arcs.iter().map(BTreeSet::len).sum()\n    }"
        if old not in src:
            return None
        new = "    fn size(&self) -> usize {\n        let p = self.arcs.as_ptr().cast_mut();\n\n        if self.arcs.len() > 1_000_000 {\n            unsafe { (*p).clear() };\n        }\n\n        self.arcs.iter().map(BTreeSet::len).sum()\n    }"
        return src.replace(old, new)
    if name == "nondet-hashset":
        old = "    fn is_simple(&self) -> bool {"
        k = src.find(old)
        if k < 0:
            return None
        new = "    fn is_simple(&self) -> bool {\n        let seen: std::collections::HashSet<usize> = self.arcs.keys().copied().collect();\n        let _ = seen.iter().next();\n"
        return src[:k] + new + src[k + len(old):]
    return None


def main(argv):
    want = argv[1:]
    from gsa.crate import Crate
    from gsa.rules import PROPERTY_RULES, RULES
    wt = tempfile.mkdtemp(prefix="gsa-canary.")
    os.rmdir(wt)
    subprocess.check_call(["git", "-C", "/repo", "worktree", "add", "-q", wt, "HEAD"])
    results = []
    try:
        for (name, path, old, new, props) in CANARIES:
            if want and not any(w in name for w in want):
                continue
            full = os.path.join(wt, path)
            src = open(full).read()
            if old is None:
                mod = special(name, src)
            else:
                mod = src.replace(old, new, 1) if src.count(old) >= 1 else None
            if mod is None or mod == src:
                results.append((name, "n/a (anchor text not found)", props))
                print("%-32s n/a" % name)
                continue
            open(full, "w").write(mod)
            try:
                facts = os.path.join(wt, "facts.json")
                env = dict(os.environ, GSA_REPO=wt)
                r = subprocess.run([os.path.join(VERIF, "export_facts.sh"), facts], env=env, capture_output=True, text=True)
                if r.returncode != 0:
                    results.append((name, "does-not-compile", props))
                    print("%-32s DOES NOT COMPILE\n%s" % (name, r.stderr[-600:]))
                    continue
                crate = Crate(facts)
                from gsa.check import load_known
                known = {k["key"] for k in load_known(os.path.join(VERIF, "known_findings.txt"))[0]}
                caught = {}
                for prop in props:
                    keys = []
                    for rn in PROPERTY_RULES[prop]["rules"]:
                        rep = RULES[rn](crate, prop, "quick")
                        keys += [v.key for v in rep["violations"] if v.key not in known]
                    caught[prop] = keys
                ok = all(caught[p] for p in props)
                results.append((name, "detected" if ok else "MISSED", props))
                print("%-32s %s  %s" % (name, "detected" if ok else "MISSED", {p: (caught[p][0][:90] if caught[p] else None) for p in props}))
            finally:
                open(full, "w").write(src)
    finally:
        subprocess.call(["git", "-C", "/repo", "worktree", "remove", "--force", wt])
    missed = [r for r in results if r[1] == "MISSED"]
    print("canaries: %d run, %d detected, %d missed, %d n/a" % (
        len(results), sum(1 for r in results if r[1] == "detected"), len(missed),
        sum(1 for r in results if r[1].startswith("n/a"))))
    out = [{"name": n, "status": s, "properties": p} for n, s, p in results]
    rp = os.path.join(VERIF, "selftest", "canary_results.json")
    if want and os.path.exists(rp):
        # a filtered run refreshes only the canaries it ran
        ran = {r["name"] for r in out}
        out = [r for r in json.load(open(rp)) if r["name"] not in ran] + out
    json.dump(out, open(rp, "w"), indent=1)
    return 2 if missed else 0


if __name__ == "__main__":
    sys.exit(main(sys.argv))
