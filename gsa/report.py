class Finding:
    def __init__(self, rule, key, msg, span=None, detail=None):
        self.rule, self.key, self.msg, self.span, self.detail = rule, key, msg, span, detail

    def to_json(self):
        return {"rule": self.rule, "key": self.key, "message": self.msg,
                "where": ("%s:%d" % (self.span["file"], self.span["line"])) if self.span else None,
                "detail": self.detail}


def span_s(sp):
    return "%s:%d" % (sp["file"], sp["line"]) if sp else "?"
