"""Whole-crate context: cached analyses, facts and summaries."""
from .load import Program
from .core import Analysis, compute_summaries
from .facts import Facts


class Crate:
    def __init__(self, facts_path):
        self.prog = Program(facts_path)
        compute_summaries(self.prog)
        self._an = {}
        self._fx = {}
        self.entry_facts_hook = None   # callable(crate, an) -> list of atoms

    def fn_paths(self):
        return [f["path"] for f in self.prog.d["fns"]]

    def an(self, path):
        a = self._an.get(path)
        if a is None:
            a = Analysis(self.prog, self.prog.fns[path])
            self._an[path] = a
        return a

    def fx(self, path):
        f = self._fx.get(path)
        if f is None:
            a = self.an(path)
            f = Facts(a)
            if self.entry_facts_hook:
                f.entry_facts = list(self.entry_facts_hook(self, a))
            f.solve()
            self._fx[path] = f
        return f
