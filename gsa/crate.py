"""Whole-crate context: cached analyses, facts and summaries."""
from .load import Program
from .core import Analysis, compute_summaries
from .facts import Facts
from .frozen import Frozen


class Crate:
    def __init__(self, facts_path):
        self.prog = Program(facts_path)
        self.prog.frozen = Frozen(self.prog)
        compute_summaries(self.prog)
        from .inline import inline_helpers
        from .inline import unsafe_helper_candidates
        fns = self.prog.d["fns"]
        # phase 1: safe private helpers
        self.inlined, self.inlined_away = inline_helpers(fns, self.prog.summaries, self.prog.pretty)
        from .inline import inline_closure_calls
        self.inlined_closures = inline_closure_calls(fns)
        self._an = {}
        self._fx = {}
        self.entry_facts_hook = None   # callable(crate, an) -> list of atoms
        self._inv = None
        # phase 2: private helpers with unsafe operations whose obligations cannot be discharged where they are written
        # (an `unsafe fn` taking a raw pointer, a helper relying on its callers' checks) are judged in their callers
        cands = unsafe_helper_candidates(fns, self.prog.summaries, self.prog.pretty)
        dirty = {g for g in cands if not self._helper_clean(g)}
        if dirty:
            done2, away2 = inline_helpers(fns, self.prog.summaries, self.prog.pretty, allow_unsafe=dirty)
            for k, v in done2.items():
                self.inlined.setdefault(k, []).extend(v)
            self.inlined_away |= away2
            self._an = {}
            self._fx = {}
            self._inv = None
            for k in [k for k in self.__dict__ if k.endswith("_cache")]:
                del self.__dict__[k]
        # phase 2b: the same for closures with unsafe operations that their parent calls directly
        # (`let is_current = |d, v| d == unsafe { *dist_ptr.add(v) }; .. is_current(distance, v)`)
        from .inline import unsafe_called_closures
        ccands = unsafe_called_closures(fns)
        cdirty = {g for g in ccands if not self._helper_clean(g)}
        if cdirty:
            done3 = inline_closure_calls(fns, allow_unsafe=cdirty)
            got = {g for v in done3.values() for g in v if g in cdirty}
            for k, v in done3.items():
                self.inlined_closures.setdefault(k, []).extend(v)
            self.inlined_away |= got
            self._an = {}
            self._fx = {}
            self._inv = None
            for k in [k for k in self.__dict__ if k.endswith("_cache")]:
                del self.__dict__[k]

    def _helper_clean(self, path):
        from .mem import inventory, discharge_site
        try:
            an = self.an(path)
            sites = inventory(an)
            fx = self.fx(path)
            return all(discharge_site(s_, fx)[0] for s_ in sites)
        except Exception:
            return False

    def fn_paths(self):
        return [f["path"] for f in self.prog.d["fns"]]

    def an(self, path):
        a = self._an.get(path)
        if a is None:
            a = Analysis(self.prog, self.prog.fns[path])
            a.crate = self
            self._an[path] = a
        return a

    def fx(self, path):
        f = self._fx.get(path)
        if f is None:
            a = self.an(path)
            f = Facts(a)
            from .closures import closure_entry_facts
            f.entry_facts = list(closure_entry_facts(self, a))
            if self.entry_facts_hook:
                f.entry_facts += list(self.entry_facts_hook(self, a))
            f.solve()
            self._fx[path] = f
        return f

    @property
    def inv(self):
        if self._inv is None:
            from .inv import Invariants
            self._inv = Invariants(self)
        return self._inv
