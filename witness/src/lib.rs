//! Compile-fail witnesses for the type-level facts the static rules rely on.
//! Each witness is paired with a compiling twin that differs only by the offending line, so that a
//! witness whose path is merely wrong cannot pass. Run with `cargo +nightly test --doc --offline`
//! (error codes are only honoured on nightly).

/// W1 (ENCAPS; C01, C20): the containers of a representation are private.
///
/// ```compile_fail,E0616
/// use graaf::{AdjacencyList, Empty, Order};
/// let d = AdjacencyList::empty(2);
/// let _ = d.order();
/// let _ = d.arcs; // private field
/// ```
///
/// ```
/// use graaf::{AdjacencyList, Empty, Order};
/// let d = AdjacencyList::empty(2);
/// let _ = d.order();
/// ```
///
/// ```compile_fail,E0616
/// use graaf::{AdjacencyMatrix, Empty, Order};
/// let d = AdjacencyMatrix::empty(2);
/// let _ = d.order();
/// let _ = d.blocks; // private field
/// ```
///
/// ```compile_fail,E0616
/// use graaf::{EdgeList, Empty, Order};
/// let mut d = EdgeList::empty(2);
/// let _ = d.order();
/// d.order = 7; // private field
/// ```
pub struct W1PrivateFields;

/// W2 (PURE / stability of order(); C02, C03-C06, C13): a digraph cannot be mutated while a
/// traversal borrows it.
///
/// ```compile_fail,E0502
/// use graaf::{AddArc, AdjacencyList, Bfs, Empty};
/// let mut d = AdjacencyList::empty(3);
/// d.add_arc(0, 1);
/// let mut bfs = Bfs::new(&d, core::iter::once(0));
/// d.add_arc(1, 2); // mutable borrow while `bfs` holds a shared one
/// let _ = bfs.next();
/// ```
///
/// ```
/// use graaf::{AddArc, AdjacencyList, Bfs, Empty};
/// let mut d = AdjacencyList::empty(3);
/// d.add_arc(0, 1);
/// let mut bfs = Bfs::new(&d, core::iter::once(0));
/// let _ = bfs.next();
/// ```
pub struct W2BorrowedDuringTraversal;

/// W3 (INV, candidate instantiation table; C07, C13): BellmanFordMoore requires ContiguousOrder,
/// which AdjacencyMap does not implement.
///
/// ```compile_fail,E0277
/// use graaf::{AdjacencyMap, BellmanFordMoore, Empty};
/// let d = AdjacencyMap::empty(2);
/// let _ = BellmanFordMoore::new(&d, 0);
/// ```
///
/// ```
/// use graaf::{AdjacencyListWeighted, BellmanFordMoore, Empty};
/// let d = AdjacencyListWeighted::<isize>::empty(2);
/// let _ = BellmanFordMoore::new(&d, 0);
/// ```
pub struct W3BellmanFordNeedsContiguous;

/// W4 (candidate instantiation table; C08, C13): FloydWarshall::distances needs
/// ArcsWeighted<Weight = isize>; only AdjacencyListWeighted<isize> provides it.
///
/// ```compile_fail,E0277
/// use graaf::{AdjacencyMap, Empty, FloydWarshall};
/// let d = AdjacencyMap::empty(2);
/// let mut fw = FloydWarshall::new(&d);
/// let _ = fw.distances();
/// ```
///
/// ```compile_fail,E0271
/// use graaf::{AdjacencyListWeighted, Empty, FloydWarshall};
/// let d = AdjacencyListWeighted::<usize>::empty(2);
/// let mut fw = FloydWarshall::new(&d);
/// let _ = fw.distances();
/// ```
///
/// ```
/// use graaf::{AdjacencyListWeighted, Empty, FloydWarshall};
/// let d = AdjacencyListWeighted::<isize>::empty(2);
/// let mut fw = FloydWarshall::new(&d);
/// let _ = fw.distances();
/// ```
pub struct W4FloydWarshallInstantiation;

/// W5 (candidate instantiation table; C13): Johnson75::circuits needs FilterVertices, which only
/// AdjacencyMap implements.
///
/// ```compile_fail,E0277
/// use graaf::{AdjacencyList, Empty, Johnson75};
/// let d = AdjacencyList::empty(2);
/// let _ = Johnson75::new(&d).circuits();
/// ```
///
/// ```
/// use graaf::{AdjacencyMap, Empty, Johnson75};
/// let d = AdjacencyMap::empty(2);
/// let _ = Johnson75::new(&d).circuits();
/// ```
pub struct W5JohnsonInstantiation;

/// W6 (PURE; C02, C11): mutation needs `&mut`.
///
/// ```compile_fail,E0596
/// use graaf::{AddArc, AdjacencyList, Empty};
/// fn f(d: &AdjacencyList) {
///     let _ = d;
/// }
/// let d = AdjacencyList::empty(2);
/// f(&d);
/// d.add_arc(0, 1); // `d` is not declared mutable
/// ```
///
/// ```
/// use graaf::{AddArc, AdjacencyList, Empty};
/// fn f(d: &AdjacencyList) {
///     let _ = d;
/// }
/// let mut d = AdjacencyList::empty(2);
/// f(&d);
/// d.add_arc(0, 1);
/// ```
pub struct W6MutationNeedsMut;
