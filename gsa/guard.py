"""GUARD, IDEMPOTENT, ADMIT, NOPANIC-AFTER-WRITE, TOTAL, ENCAPS (DESIGN §3.4/§3.5)
over the mutating API of the five representations."""
from .core import strip_ref, _subst, _NoInline, mk_field
from .facts import mk_ne
from .panics import panic_sites, discharge_panic
from .schema import Obl, elem_access, store_elem, region_of_container
from .mem import rowmajor, bounded
from .report import span_s
from .origin import payload_of

REPR = ("graaf::repr::adjacency_list::AdjacencyList", "graaf::repr::adjacency_map::AdjacencyMap",
        "graaf::repr::adjacency_matrix::AdjacencyMatrix", "graaf::repr::edge_list::EdgeList",
        "graaf::repr::adjacency_list_weighted::AdjacencyListWeighted")

INSERT_KEYS = {
    "alloc::collections::btree::set::BTreeSet::insert": "set-insert",
    "alloc::collections::btree::map::BTreeMap::insert": "map-insert",
    "alloc::vec::Vec::push": "push", "alloc::collections::vec_deque::VecDeque::push_back": "push",
    "alloc::collections::btree::map::entry::Entry::or_default": "entry",
    "alloc::collections::btree::map::entry::Entry::or_insert": "entry",
    "alloc::collections::btree::map::entry::Entry::or_insert_with": "entry",
    "core::iter::traits::collect::Extend::extend": "extend",
}
REMOVE_KEYS = {
    "alloc::collections::btree::set::BTreeSet::remove", "alloc::collections::btree::map::BTreeMap::remove",
    "alloc::collections::btree::set::BTreeSet::clear", "alloc::collections::btree::map::BTreeMap::clear",
    "alloc::vec::Vec::clear", "alloc::vec::Vec::pop", "alloc::collections::btree::set::BTreeSet::retain",
    "alloc::collections::btree::map::BTreeMap::retain", "alloc::collections::btree::set::BTreeSet::pop_first",
    "alloc::collections::btree::set::BTreeSet::take", "alloc::collections::btree::map::BTreeMap::remove_entry",
    "alloc::collections::btree::set::BTreeSet::pop_last", "alloc::collections::btree::map::BTreeMap::pop_first",
    "alloc::collections::btree::map::BTreeMap::pop_last",
}
ENTRY_KEY = "alloc::collections::btree::map::BTreeMap::entry"
# std combinators that do nothing but call the closure they are given on the receiver's payload
CLOSURE_CONSUMERS = {
    "core::option::Option::is_some_and", "core::option::Option::map", "core::option::Option::map_or",
    "core::option::Option::map_or_else", "core::option::Option::and_then", "core::option::Option::is_none_or",
}


def repr_mut_fns(crate):
    """functions whose first parameter is `&mut <representation>`"""
    out = []
    for p in crate.fn_paths():
        f = crate.prog.fns[p]
        if f["kind"] == "Closure" or f["arg_count"] < 1:
            continue
        t = f["locals"][1]["ty"]
        if t["k"] == "ref" and t["mut"] and t["to"].get("k") == "adt" and t["to"]["path"] in REPR:
            out.append((p, t["to"]["path"]))
    return out


def under_self(an, term):
    """region under A1 that a pointer-valued argument term refers to"""
    t = term
    if t[0] in ("addr", "at"):
        return t[1] if t[1].startswith("A1") else None
    c, i = elem_access(t)
    if c is not None and c[0] == "at" and c[1].startswith("A1"):
        return c[1] + "#buf"
    if t[0] == "call" and t[3]:
        return under_self(an, t[3][0])
    if t[0] == "site":
        return None
    if t[0] == "field" and t[2] == "0" and t[1][0] == "dc" and t[1][2] == "Some":
        return under_self(an, t[1][1])      # the reference inside Some(..) returned by get_mut(..)
    r = an.region_of_pointer(t)
    return r if r and r.startswith("A1") else None


def root_of(an, fx, t, depth=0):
    """region under A1 behind a receiver term, following entry(..).or_default() chains"""
    r = under_self(an, t)
    if r is not None or depth > 4:
        return r
    if t[0] == "call" and t[3]:
        return root_of(an, fx, t[3][0], depth + 1)
    if t[0] == "site":
        e2 = fx.an_call_at(t[1])
        if e2 is not None and e2["args"] and (e2["key"] == ENTRY_KEY or e2["key"] in INSERT_KEYS):
            return root_of(an, fx, e2["args"][0], depth + 1)
    return None


class WriteSite:
    def __init__(self, kind, b, span, **kw):
        self.kind, self.b, self.span = kind, b, span
        self.__dict__.update(kw)


def _guarded_flip(fx, b, v):
    """v = old ^ m with m = 1 << k: "clear" when `old & m != 0` is known at block b, "set" when `old & m == 0` is"""
    x, y = v[2], v[3]
    for m, old in ((x, y), (y, x)):
        if not (m[0] == "bin" and m[1] == "Shl" and m[2] == ("const", "usize", 1)):
            continue
        ands = [("bin", "BitAnd", m, old), ("bin", "BitAnd", old, m)]
        zero = ("const", "usize", 0)
        if fx.holds(b, lambda rel: any(rel.has(mk_ne(a, zero)) or rel.eq(a, m) for a in ands)):
            return "clear"
        if fx.holds(b, lambda rel: any(rel.eq(a, zero) for a in ands)):
            return "set"
    return None


def _is_empty_set(t):
    return (t[0] in ("call", "site") and (t[1] if t[0] == "call" else t[2]) in (
        "alloc::collections::btree::set::BTreeSet::new", "core::default::Default::default"))


def write_sites(crate, an):
    """mutation sites of a `&mut self` body: insertion / removal / toggling of arcs"""
    fx = crate.fx(an.path)
    out = []
    for ev in an.events:
        if ev["k"] == "call" and ev["key"] is not None and ev["args"]:
            key = ev["key"]
            a0 = ev["args"][0]
            # Entry by value: entry(map, k).or_default()
            if key in INSERT_KEYS or key in REMOVE_KEYS:
                root = root_of(an, fx, a0)
                if root is None:
                    continue
                kind = "insert" if key in INSERT_KEYS else "remove"
                op_ = INSERT_KEYS.get(key, key.split("::")[-1])
                if key == "alloc::collections::btree::map::BTreeMap::insert" and len(ev["args"]) == 3 and _is_empty_set(ev["args"][2]):
                    op_ = "entry"       # map.insert(k, BTreeSet::new()): admits the vertex k, inserts no arc
                out.append(WriteSite(kind, ev["b"], ev["span"], ev=ev, op=op_, root=root))
            elif key == "alloc::collections::btree::map::entry::VacantEntry::insert" and len(ev["args"]) == 2 and _is_empty_set(ev["args"][1]):
                out.append(WriteSite("insert", ev["b"], ev["span"], ev=ev, op="entry", root="via-vacant-entry"))
            elif key in CLOSURE_CONSUMERS and any(x[0] == "agg" and x[1] == "closure" for x in ev["args"]):
                pass    # the closure body is scanned below
            elif not ev["pure"] and not ev["diverges"] and under_self(an, a0) is not None and key != ENTRY_KEY:
                fn = ev["fn"]
                if fn.get("local") or fn.get("resolved_local"):
                    continue    # crate-local callee: analysed as a mutator itself if it takes &mut repr
                out.append(WriteSite("unknown", ev["b"], ev["span"], ev=ev, op=key, root=under_self(an, a0)))
        elif ev["k"] == "store" and ev["region"].startswith("A1"):
            v = ev["val"]
            op = "assign"
            if v[0] == "bin" and v[1] in ("BitOr", "BitXor", "BitAnd"):
                op = {"BitOr": "|=", "BitXor": "^=", "BitAnd": "&="}[v[1]]
            kind = "insert" if op == "|=" else "toggle" if op == "^=" else "remove" if op == "&=" else "assign"
            if op == "^=":
                # `if w & m != 0 { w ^= m }` with a single-bit mask m clears the bit; `if w & m == 0 { w ^= m }` sets it
                k2 = _guarded_flip(fx, ev["b"], v)
                if k2 == "clear":
                    kind, op = "remove", "^=-of-set-bit"
                elif k2 == "set":
                    kind, op = "insert", "|="
            out.append(WriteSite(kind, ev["b"], ev["span"], ev=ev, op=op, root=ev["region"]))
    # writes performed by closures of this body on their parameters (Option::is_some_and(|set| set.remove(..)))
    for cp in crate.prog.children.get(an.path, []):
        can = crate.an(cp)
        for ev in can.events:
            if ev["k"] == "call" and ev["key"] in (set(INSERT_KEYS) | REMOVE_KEYS) and ev["args"]:
                a0 = ev["args"][0]
                if a0[0] == "arg" and a0[1] >= 2:
                    # consuming call in the parent
                    for pev in an.events:
                        if pev["k"] == "call" and any(x[0] == "agg" and x[1] == "closure" and x[2] == cp for x in pev["args"]):
                            recv = pev["args"][0]
                            if root_of(an, fx, recv) is not None or (recv[0] == "call" and under_self(an, recv) is not None):
                                kind = "insert" if ev["key"] in INSERT_KEYS else "remove"
                                out.append(WriteSite(kind, pev["b"], ev["span"], ev=pev, op=INSERT_KEYS.get(ev["key"], ev["key"].split("::")[-1]),
                                                     root="via-closure", inner=ev))
    return out


def order_term(crate, an, T, vers):
    """order() of the receiver, as a term at the given versions"""
    for im in crate.prog.impls:
        if im["trait"] == "graaf::op::order::Order" and im["self"].get("path") == T:
            for it in im["items"]:
                if it["name"] == "order" and it["path"] in crate.prog.summaries:
                    try:
                        return _subst(an, crate.prog.summaries[it["path"]][0], [("arg", 1)], vers)
                    except _NoInline:
                        return None
    return None


def endpoints(crate, an, fx, w):
    """(tail, head) of the arc inserted at write site w, or None"""
    if w.kind in ("insert",) and hasattr(w, "ev") and w.ev["k"] == "call":
        ev = w.ev
        a0 = ev["args"][0]
        c, idx = elem_access(a0)
        if c is not None and len(ev["args"]) >= 2:
            return idx, ev["args"][1]
        if a0[0] == "addr" and len(ev["args"]) >= 2:
            E = ev["args"][1]
            if E[0] == "agg" and E[1] == "tuple" and len(E[3]) == 2:
                return E[3][0], E[3][1]
        # insert into the row found by map.get_mut(&u)
        if a0[0] == "field" and a0[2] == "0" and a0[1][0] == "dc" and a0[1][2] == "Some" and a0[1][1][0] in ("call", "site") and len(ev["args"]) >= 2:
            g = a0[1][1]
            gkey = g[1] if g[0] == "call" else g[2]
            gargs = g[3] if g[0] == "call" else ((fx.an_call_at(g[1]) or {}).get("args") or ())
            if gkey == "alloc::collections::btree::map::BTreeMap::get_mut" and len(gargs) == 2:
                return value_at(an, gargs[1]), ev["args"][1]
        # map.insert(u, BTreeSet::from([v])): a fresh row with one head
        if ev["key"] == "alloc::collections::btree::map::BTreeMap::insert" and len(ev["args"]) == 3:
            row = ev["args"][2]
            if row[0] == "call" and row[1] == "core::convert::From::from" and row[3] and row[3][0][0] == "agg" and row[3][0][1] == "array" \
                    and len(row[3][0][3]) == 1:
                return ev["args"][1], row[3][0][3][0]
        # insert into the set returned by entry(u).or_default()
        if a0[0] == "site" and len(ev["args"]) >= 2:
            e2 = fx.an_call_at(a0[1])
            if e2 is not None and e2["key"] in INSERT_KEYS and e2["args"] and e2["args"][0][0] == "site":
                e3 = fx.an_call_at(e2["args"][0][1])
                if e3 is not None and e3["key"] == ENTRY_KEY:
                    return e3["args"][1], ev["args"][1]
        return None
    if w.kind in ("insert", "toggle") and w.ev["k"] == "store":
        # bit matrix: blocks[i >> 6] op= 1 << (i & 63) with i = u * order + v
        c, idx = store_elem(w.ev)
        v = w.ev["val"]
        if c is None or idx is None or idx[0] != "bin" or idx[1] != "Shr":
            return None
        i = idx[2]
        mask = None
        for x in (v[2], v[3]):
            if x[0] == "bin" and x[1] == "Shl":
                mask = x
        if mask is None or mask[3] not in (("bin", "BitAnd", i, ("const", "usize", 63)), ("bin", "BitAnd", ("const", "usize", 63), i)):
            return ("bit-mismatch",)
        N = ("mem", "A1.order", ("e",), None)
        ab = rowmajor(i, N)
        if ab is None:
            return None
        return ab[0], ab[1]
    return None


def value_at(an, t):
    """value stored in the exactly named local that a reference term points to"""
    if t[0] in ("addr", "at") and t[2] is None:
        if t[1].startswith("L") and t[1][1:].isdigit() and 1 <= int(t[1][1:]) <= an.nargs:
            pass
        vals = [v for (var, ver), v in an.term_of.items() if var == t[1] and v[0] != "opq"]
        if len(vals) == 1:
            return vals[0]
        if not vals and t[1].startswith("L") and t[1][1:].isdigit() and 1 <= int(t[1][1:]) <= an.nargs:
            return ("arg", int(t[1][1:]))
    return t


def removal_endpoints(crate, an, fx, w):
    """(tail, head) of the arc removed at write site w, or None"""
    ev = w.ev
    if ev["k"] == "store":
        c, idx = store_elem(ev)
        if idx is None or idx[0] != "bin" or idx[1] != "Shr":
            return None
        ab = rowmajor(idx[2], ("mem", "A1.order", ("e",), None))
        return ab
    inner = getattr(w, "inner", None)
    if inner is not None:
        # closure on the row: row.remove(&v); the row is get_mut(arcs, u) / get_mut(&u) in the parent
        recv = ev["args"][0]
        tail = None
        c, idx = elem_access(recv)
        if c is not None:
            tail = idx
        elif recv[0] == "call" and len(recv[3]) == 2:
            tail = value_at(an, recv[3][1])
        head = inner["args"][1] if len(inner["args"]) > 1 else None
        # translate the closure-side head to the parent through the capture map
        from .closures import capture_map
        can = crate.an(inner_fn(crate, an, inner))
        cm = capture_map(crate, can)
        if cm is not None and head is not None:
            for pv, cv in cm.valmap:
                if cv == head:
                    head = value_at(an, pv)
        return (tail, head)
    if len(ev["args"]) >= 2:
        a0 = ev["args"][0]
        c, idx = elem_access(a0)
        E = value_at(an, ev["args"][1])
        if c is not None:
            return idx, E
        if a0[0] == "field" and a0[2] == "0" and a0[1][0] == "dc" and a0[1][2] == "Some" and a0[1][1][0] == "call" \
                and a0[1][1][1].endswith("BTreeMap::get_mut") and len(a0[1][1][3]) == 2:
            return value_at(an, a0[1][1][3][1]), E      # row of key u: get_mut(&u)
        if E[0] == "agg" and len(E[3]) == 2:
            return E[3][0], E[3][1]
    return None


def inner_fn(crate, an, inner_ev):
    for cp in crate.prog.children.get(an.path, []):
        if inner_ev in crate.an(cp).events:
            return cp
    return an.path


def rule_guard(crate, prop, tier):
    o = Obl("GUARD")
    muts = repr_mut_fns(crate)
    nins = 0
    for p, T in muts:
        an = crate.an(p)
        fx = crate.fx(p)
        pretty = crate.prog.pretty[p]
        ws = write_sites(crate, an)
        o.instances += 1
        name = crate.prog.fns[p]["name"]
        for w in ws:
            if w.kind == "unknown":
                o.check(False, pretty, "unknown-write:" + str(w.op).split("::")[-1],
                        "the digraph is handed mutably to %s, whose effect on the arc set is not known" % w.op, w.span)
                continue
            if w.kind == "assign":
                o.check(False, pretty, "raw-assign", "a field of the digraph is overwritten by plain assignment", w.span)
                continue
            if w.kind == "remove":
                continue
            # entry(k).or_default() only adds a vertex (AdjacencyMap): ADMIT handles it
            if w.op == "entry":
                continue
            nins += 1
            ep = endpoints(crate, an, fx, w)
            if not o.check(ep is not None and ep != ("bit-mismatch",), pretty, "insert-shape",
                           "cannot recover (tail, head) of the inserted arc at this site%s" % (
                               ": block index and bit mask do not address the same cell" if ep == ("bit-mismatch",) else ""), w.span):
                continue
            tail, head = ep
            o.check(fx.holds(w.b, lambda rel: rel.has(mk_ne(tail, head))), pretty, "no-self-loop",
                    "an arc is inserted without a dominating check that tail != head", w.span)
            if T.endswith("AdjacencyMap"):
                continue
            vers = w.ev["vers"]
            N = order_term(crate, an, T, vers)
            if not o.check(N is not None, pretty, "order-term", "cannot express the receiver's order", w.span):
                continue
            o.check(bool(bounded(crate, an, fx, w.b, tail, None, bound_term=N, vers=vers)), pretty, "tail-in-range",
                    "an arc is inserted without a dominating check that its tail is smaller than the order", w.span)
            o.check(bool(bounded(crate, an, fx, w.b, head, None, bound_term=N, vers=vers)), pretty, "head-in-range",
                    "an arc is inserted without a dominating check that its head is smaller than the order "
                    "(an arc with an endpoint outside V becomes observable)", w.span)
        # IDEMPOTENT
        if name in ("add_arc", "add_arc_weighted"):
            ins = [w for w in ws if w.kind in ("insert", "toggle")]
            o.check(any(w.op in ("set-insert", "map-insert", "|=") for w in ins), pretty, "idempotent-exists",
                    "%s performs no insertion" % name)
            for w in ins:
                o.check(w.op in ("set-insert", "map-insert", "|=", "entry"), pretty, "idempotent-op",
                        "%s inserts with `%s`, which is not idempotent / does not replace the weight" % (name, w.op), w.span)
            if name == "add_arc_weighted":
                for w in ins:
                    if w.op == "map-insert":
                        o.check(len(w.ev["args"]) == 3 and w.ev["args"][2] == ("arg", 4), pretty, "weight-stored",
                                "the stored weight is not the weight argument", w.span)
        if name == "toggle":
            tg = [w for w in ws if w.kind in ("insert", "toggle", "remove")]
            o.check(len(tg) == 1 and tg[0].op == "^=", pretty, "toggle-op", "toggle does not flip exactly one bit with ^=")
        if name == "remove_arc":
            rm = [w for w in ws if w.kind == "remove"]
            o.check(len(rm) >= 1 and not [w for w in ws if w.kind in ("insert", "toggle")], pretty, "remove-only",
                    "remove_arc does not only remove")
            for w in rm:
                ep = removal_endpoints(crate, an, fx, w)
                o.check(ep is not None and tuple(ep) == (("arg", 2), ("arg", 3)), pretty, "remove-target",
                        "remove_arc(u, v) does not remove exactly the arc (u, v)", w.span)
        # ADMIT
        if T.endswith("AdjacencyMap") and name == "add_arc":
            ents = [ev for ev in an.events if ev["k"] == "call" and ev["key"] == ENTRY_KEY]
            keys = {ev["args"][1] for ev in ents if an.cfg.postdominates(ev["b"], 0)}
            both = ("arg", 2) in keys and ("arg", 3) in keys
            if not both:
                # path form: on every path to a normal return each endpoint was made a key (entry(k) / insert(k, ..)) or found
                # to be one (get_mut(&k) / get(&k) is Some, contains_key(&k))
                both = all(_becomes_key(an, fx, ("arg", k_)) for k_ in (2, 3))
            o.check(both, pretty, "admit-both-endpoints",
                    "add_arc does not make both endpoints keys of the map on every path (a head that is no vertex becomes observable)")
            ods = [w for w in ws if w.op == "entry"]
            o.check(len(ods) >= 2 or both, pretty, "admit-or-default", "the endpoints' rows are not created with or_default()")
    return o.report(floors={"mutators (&mut representation)": (len(muts), 11), "insertion sites": (nins, 6)})


def _becomes_key(an, fx, k):
    """on every path from the entry to a normal return, vertex k is a key of self.arcs"""
    def names(x):
        return x == k or value_at(an, x) == k
    keyed = set()
    lookups = []
    for ev in an.events:
        if ev["k"] != "call" or not ev["key"] or len(ev["args"]) < 2:
            continue
        a0 = ev["args"][0]
        if not (a0[0] in ("addr", "at") and isinstance(a0[1], str) and a0[1].startswith("A1.")):
            continue
        if ev["key"] in (ENTRY_KEY, "alloc::collections::btree::map::BTreeMap::insert") and names(ev["args"][1]):
            keyed.add(ev["b"])
        if ev["key"] in ("alloc::collections::btree::map::BTreeMap::get_mut", "alloc::collections::btree::map::BTreeMap::get") \
                and names(ev["args"][1]):
            lookups.append(ev["res"])
    if not keyed:
        return False
    seen, work = set(), [0]
    while work:
        x = work.pop()
        if x in seen:
            continue
        seen.add(x)
        if x in keyed:
            continue
        if x in an.cfg.returns:
            return False
        for tg, lab in an.cfg.succ[x]:
            if tg not in an.cfg.can_return:
                continue
            atoms = set(fx.close(fx.edge_atoms(x, lab, tg)))
            if any(("variant", r_, "Some") in atoms for r_ in lookups):
                continue
            work.append(tg)
    return True


def rule_nopanic_after_write(crate, prop, tier):
    o = Obl("NOPANIC-AFTER-WRITE")
    for p, T in repr_mut_fns(crate):
        an = crate.an(p)
        pretty = crate.prog.pretty[p]
        ws = [w for w in write_sites(crate, an) if w.kind != "unknown"]
        o.instances += 1
        ps = panic_sites(an)
        for w in ws:
            # blocks strictly after the write
            after = set()
            for tg, _ in an.cfg.succ[w.b]:
                after |= an.cfg.reachable_from(tg)
            bad = [s for s in ps if s.b in after and not (s.b == w.b) and not discharge_panic(crate, s)]
            # a panic in the same block after a store statement
            o.check(not bad, pretty, "panic-after-%s" % w.op,
                    "a panic site (%s) is reachable after the digraph was modified: a rejected call can leave a "
                    "partial modification" % (", ".join("%s@%s" % (s.kind, span_s(s.span)) for s in bad[:3])), w.span)
    return o.report(floors={"mutators (&mut representation)": (o.instances, 11)})


def expr_no_overflow(crate, an, fx, b, t):
    """every checked + / * inside the (inlined accessor) expression t is overflow-free at b"""
    from .panics import no_overflow
    if not isinstance(t, tuple) or not t:
        return True
    ok = True
    if t[0] == "bin" and t[1] in ("Add", "Mul", "Sub"):
        ok = no_overflow(crate, an, fx, b, t[1], t[2], t[3])
    return ok and all(expr_no_overflow(crate, an, fx, b, x) for x in t[1:] if isinstance(x, tuple))


def fn_total(crate, path, stack=()):
    """no panic can start in this body or its crate-local callees, for any arguments"""
    _total = crate.__dict__.setdefault("_total_cache", {})
    if path in _total:
        return _total[path]
    if path in stack:
        return True, []
    an = crate.an(path)
    fx = crate.fx(path)
    bad = []
    for s in panic_sites(an):
        if not discharge_panic(crate, s):
            bad.append((s.kind, s.span, crate.prog.pretty.get(path, path)))
    for ev in an.events:
        if ev["k"] != "call" or ev["fn"] is None:
            continue
        fn = ev["fn"]
        tgt = None
        if fn.get("resolved") and fn.get("resolved_local"):
            tgt = fn["resolved"]
        elif fn["local"] and "trait" not in fn:
            tgt = fn["path"]
        elif fn["local"] and "trait" in fn:
            bad.append(("unresolved-trait-call:" + ev["key"].split("::")[-1], ev["span"], crate.prog.pretty.get(path, path)))
            continue
        if tgt is not None:
            if an.summary_for(fn) is not None:
                # accessor inlined at the call site: its checked arithmetic is judged with the caller's facts
                sub = crate.an(tgt)
                has_assert = any(e["k"] == "assert" and e["kind"] == "overflow" for e in sub.events)
                if has_assert and not expr_no_overflow(crate, an, fx, ev["b"], ev["res"]):
                    bad.append(("overflow-in-" + crate.prog.pretty.get(tgt, tgt), ev["span"], crate.prog.pretty.get(path, path)))
                other = [s for s in panic_sites(sub) if not (s.kind == "assert:overflow")]
                for s in other:
                    if not discharge_panic(crate, s):
                        bad.append((s.kind, s.span, crate.prog.pretty.get(tgt, tgt)))
            else:
                ok, sub_bad = fn_total(crate, tgt, stack + (path,))
                bad.extend(sub_bad)
        for a in ev["args"]:
            if a[0] == "agg" and a[1] == "closure":
                ok, sub_bad = fn_total(crate, a[2], stack + (path,))
                bad.extend(sub_bad)
    res = (not bad, bad)
    _total[path] = res
    return res


TOTAL_TRAITS = {
    "graaf::op::has_arc::HasArc": "has_arc", "graaf::op::has_edge::HasEdge": "has_edge",
    "graaf::op::has_walk::HasWalk": "has_walk", "graaf::op::arc_weight::ArcWeight": "arc_weight",
    "graaf::op::remove_arc::RemoveArc": "remove_arc",
}


def total_fns(crate, which=None):
    out = []
    for im in crate.prog.impls:
        nm = TOTAL_TRAITS.get(im["trait"])
        if nm is None or (which and nm not in which):
            continue
        for it in im["items"]:
            if it["name"] == nm and it["path"] in crate.prog.fns:
                out.append(it["path"])
    return out


def rule_total(which, floor):
    def f(crate, prop, tier):
        o = Obl("TOTAL")
        for p in total_fns(crate, which):
            o.instances += 1
            ok, bad = fn_total(crate, p)
            pretty = crate.prog.pretty[p]
            if ok:
                o.check(True, pretty, "total", "")
            for kind, sp, where in bad[:4]:
                o.check(False, pretty, "can-panic:%s" % kind.split(":")[0],
                        "documented-total query can panic: %s in %s" % (kind, where), sp)
        return o.report(floors={"documented-total functions": (o.instances, floor)})
    return f


def _shift_ub(an, fx, b, t, depth=0):
    """an upper bound of the integer term t at block b, or None"""
    if depth > 8 or not isinstance(t, tuple) or not t:
        return None
    if t[0] == "const" and isinstance(t[2], int):
        return t[2]
    if t[0] == "cast" and t[1] == "IntToInt":
        return _shift_ub(an, fx, b, t[2], depth + 1)
    if t[0] == "bin":
        op, x, y = t[1], t[2], t[3]
        if op == "BitAnd":
            bs = [v for v in (_shift_ub(an, fx, b, x, depth + 1), _shift_ub(an, fx, b, y, depth + 1)) if v is not None]
            return min(bs) if bs else None
        if op == "Rem" and y[0] == "const" and isinstance(y[2], int) and y[2] > 0:
            return y[2] - 1
        if op == "Add":
            a_, b_ = _shift_ub(an, fx, b, x, depth + 1), _shift_ub(an, fx, b, y, depth + 1)
            return a_ + b_ if a_ is not None and b_ is not None else None
        if op == "Sub":
            return _shift_ub(an, fx, b, x, depth + 1)
        if op in ("Shr", "Div") and y[0] == "const" and isinstance(y[2], int) and y[2] > 0:
            a_ = _shift_ub(an, fx, b, x, depth + 1)
            return None if a_ is None else (a_ >> y[2] if op == "Shr" else a_ // y[2])
    if t[0] == "min":
        bs = [v for v in (_shift_ub(an, fx, b, t[1], depth + 1), _shift_ub(an, fx, b, t[2], depth + 1)) if v is not None]
        return min(bs) if bs else None
    if t[0] == "call" and t[1].split("::")[-1] in ("trailing_zeros", "leading_zeros", "count_ones", "count_zeros") and t[3]:
        ty = t[1].split("::")[-2]
        width = {"u8": 8, "u16": 16, "u32": 32, "u64": 64, "usize": 64, "u128": 128, "i64": 64, "i32": 32, "isize": 64}.get(ty)
        if width is None:
            return None
        w = t[3][0]
        if t[1].endswith("trailing_zeros") or t[1].endswith("leading_zeros"):
            zero = ("const", ty, 0)
            if fx.holds(b, lambda rel: rel.has(mk_ne_(w, zero))):
                return width - 1
        return width
    return None


def mk_ne_(a, b):
    from .facts import mk_ne
    return mk_ne(a, b)


def shift_obligations(crate, o, want):
    """every shift by a non-constant amount (the overflow assertion `amount < width` of the checked build) has an amount
    that is provably below the bit width: a mask `x & m`, a remainder, a bit count of a word known to be non-zero, sums of
    those.  A shift by the full width panics in checked builds and leaves the word unchanged in unchecked ones."""
    n = 0
    for p in crate.fn_paths():
        if not want(p):
            continue
        an = crate.an(p)
        fx = None
        for ev in an.events:
            if ev["k"] != "assert" or ev.get("kind") != "overflow" or not isinstance(ev.get("detail"), dict) \
                    or ev["detail"].get("op") not in ("Shl", "Shr"):
                continue
            amt = ev["detail"]["b"]
            c = ev["cond"]
            if amt[0] == "const" or not (c[0] == "bin" and c[1] == "Lt" and c[3][0] == "const" and isinstance(c[3][2], int)):
                continue
            W = c[3][2]
            fx = fx or crate.fx(p)
            n += 1
            pretty = crate.prog.pretty[p]
            ub = _shift_ub(an, fx, ev["b"], amt)
            if ub is None:
                if fx.holds(ev["b"], lambda rel: rel.lt(amt, c[3])):
                    o.check(True, pretty, "shift-amount", "")
                else:
                    o.undecide(pretty, "shift-amount", "the bound of a shift amount is not of a form the rule evaluates", ev["span"])
            else:
                o.check(ub < W, pretty, "shift-amount", "a %d-bit word is shifted by an amount that can reach %d: the shift overflows "
                        "(panic in checked builds, a no-op shift in unchecked ones)" % (W, ub), ev["span"])
    return n


INT_WIDTH = {"u8": 8, "u16": 16, "u32": 32, "u64": 64, "usize": 64, "u128": 128, "i8": 8, "i16": 16, "i32": 32, "i64": 64, "isize": 64,
             "i128": 128}


def _narrow_scope(prog, f, area):
    """area: 'algo' (graaf::algo), 'gen' (graaf::gen and the generator impls of the representations), 'repr' (the rest of
    graaf::repr and graaf::op)"""
    root = prog.fns.get(f.get("root"), f)
    path = root["path"]
    is_gen = path.startswith("graaf::gen::") or str(root.get("impl_trait", "")).startswith("graaf::gen::")
    if area == "algo":
        return path.startswith("graaf::algo::")
    if area == "gen":
        return is_gen
    return (path.startswith("graaf::repr::") or path.startswith("graaf::op::")) and not is_gen


def rule_narrow(area):
    def f(crate, prop, tier):
        """NARROW: no integer conversion with `as` to a narrower type unless the value is provably representable (a masked /
        reduced / bit-count value).  The pinned tree has none; vertex ids, distances, weights and counts are 64-bit, and a
        truncated copy (a packed heap key, a u32 vertex id) silently aliases distinct values."""
        o = Obl("NARROW")
        prog = crate.prog
        nfn = 0
        for p in crate.fn_paths():
            f_ = prog.fns[p]
            if not _narrow_scope(prog, f_, area):
                continue
            nfn += 1
            an = None
            for bi, blk in enumerate(f_.get("blocks", [])):
                for si, st in enumerate(blk.get("stmts", [])):
                    rv = st.get("rv") or {}
                    if rv.get("k") != "cast" or rv.get("kind") != "IntToInt":
                        continue
                    op = rv["op"]
                    if op["k"] in ("copy", "move"):
                        pl = op["place"]
                        sty = f_["locals"][pl["local"]]["ty"].get("s") if not pl["proj"] else pl["proj"][-1].get("ty", {}).get("s")
                    else:
                        sty = op.get("ty", {}).get("s")
                    tty = rv["ty"].get("s")
                    ws, wt = INT_WIDTH.get(sty), INT_WIDTH.get(tty)
                    if ws is None or wt is None or ws <= wt:
                        continue
                    an = an or crate.an(p)
                    t = an.stmt_terms.get((bi, si))
                    ub = None
                    if t is not None and t[0] == "cast":
                        ub = _shift_ub(an, crate.fx(p), bi, t[2])
                    signed_t = tty.startswith("i")
                    o.check(ub is not None and ub < (1 << (wt - (1 if signed_t else 0))), prog.pretty[p], "lossless-cast",
                            "a %s value that is not known to fit is converted to %s with `as`: distinct values (vertex ids, distances, "
                            "weights) become equal after truncation" % (sty, tty), st["span"])
        o.instances = nfn
        return o.report(floors={"functions scanned for narrowing casts": (nfn, 20)})
    return f


def rule_ops_writes(crate, prop, tier):
    """OPS-WRITES: complement / converse / union / filter_vertices build their result through a literal, a generator, or the
    checked mutators (add_arc asserts u != v and both endpoints < order).  A container method that writes straight into a
    field of a local representation value bypasses those checks: a bulk write (extend / append) of arcs taken from another
    digraph is reported (nothing relates their endpoints to the order of the value written to); a single insert is left
    undecided.  The pinned tree has no such write."""
    o = Obl("OPS-WRITES")
    prog = crate.prog
    OPS_TRAITS = ("graaf::op::complement::Complement", "graaf::op::converse::Converse", "graaf::op::union::Union",
                  "graaf::op::filter_vertices::FilterVertices")
    for p in crate.fn_paths():
        f_ = prog.fns[p]
        root = prog.fns.get(f_.get("root"), f_)
        if root.get("impl_trait") not in OPS_TRAITS:
            continue
        if f_["kind"] != "Closure":
            o.instances += 1
        an = crate.an(p)
        for ev in an.events:
            if ev["k"] != "call" or ev["key"] not in INSERT_KEYS or not ev["args"]:
                continue
            a0 = ev["args"][0]
            if not (a0[0] == "addr" and isinstance(a0[1], str) and a0[1].startswith("L") and "." in a0[1]):
                continue
            ri = an.region_info.get(a0[1].split(".")[0])
            if not (ri and ri["ty"].get("k") == "adt" and ri["ty"].get("path") in REPR):
                continue
            if ri["ty"]["path"].endswith("AdjacencyMap"):
                continue            # no order / range invariant: any id may be a vertex
            op = INSERT_KEYS[ev["key"]]
            if op in ("extend", "append"):
                o.check(False, prog.pretty[p], "bulk-write", "arcs are written in bulk into `%s` of a local %s, bypassing add_arc: nothing "
                        "relates their endpoints to the order of that value" % (a0[1].split(".", 1)[1], ri["ty"].get("name")), ev["span"])
            else:
                o.undecide(prog.pretty[p], "direct-write", "a field of a local representation value is written directly", ev["span"])
    return o.report(floors={"operation impls": (o.instances, 14)})


def rule_bits(crate, prop, tier):
    """BITS: every write into AdjacencyMatrix::blocks anywhere in the crate is a read-modify-write of one cell's bit:
    blocks[i >> 6] = old | (1 << (i & 63)), old ^ (..), old & !(..) with the same i; a whole-word write (generator
    shortcuts, block fills) bypasses the row-major cell addressing that every reader uses"""
    from .schema import load_parts
    o = Obl("BITS")
    AM = "graaf::repr::adjacency_matrix::AdjacencyMatrix"
    n = 0
    shift_obligations(crate, o, lambda p: p.startswith("graaf::repr::adjacency_matrix::"))
    # words of a matrix that is built as a literal: all zero, a copy, or a padding-preserving word-wise combination of the
    # words of existing matrices; a local vector that becomes the `blocks` of a literal is written like a matrix
    local_blocks = {}
    IT = "core::iter::traits::iterator::Iterator::"
    for (p, b, i, t) in crate.inv.sites.get(AM, []):
        if crate.prog.fns[p].get("impl_derived"):
            continue
        an = crate.an(p)
        fi = crate.inv.field_index(AM, "blocks")
        B = t[3][fi]
        okw = False
        if B[0] == "call" and B[1] == "alloc::vec::from_elem" and B[3] and B[3][0][0] == "const" and B[3][0][2] == 0:
            okw = True
        elif B[0] == "call" and B[1] == "core::clone::Clone::clone" and B[3] and B[3][0][0] == "at" and B[3][0][1].endswith(".blocks"):
            okw = True
        elif B[0] == "call" and B[1] == IT + "collect" and B[3] and B[3][0][0] == "call" and B[3][0][1] == IT + "map" and len(B[3][0][3]) == 2:
            src, clo = B[3][0][3]
            if src[0] == "call" and src[1] == IT + "zip" and clo[0] == "agg" and clo[1] == "closure":
                rets = [e["val"] for e in crate.an(clo[2]).events if e["k"] == "return"]
                if len(rets) == 1:
                    r = rets[0]
                    comps = {("at", "A2.0*", None, ("e",), ()), ("at", "A2.1*", None, ("e",), ()), ("mem", "A2.0*", ("e",), None),
                             ("mem", "A2.1*", ("e",), None), ("field", ("arg", 2), "0"), ("field", ("arg", 2), "1")}
                    if r[0] == "call" and r[1] in ("core::ops::bit::BitOr::bitor", "core::ops::bit::BitAnd::bitand",
                                                   "core::ops::bit::BitXor::bitxor") and len(r[3]) == 2 and set(r[3]) <= comps:
                        okw = True
                    if r[0] == "bin" and r[1] in ("BitOr", "BitAnd", "BitXor") and {r[2], r[3]} <= comps:
                        okw = True
        n += 1
        o.check(okw, crate.prog.pretty[p], "literal-words", "the words of a new AdjacencyMatrix are computed wholesale (not all zero, not a "
                "copy, not a word-wise |, &, ^ of two matrices of equal order): nothing shows that the padding bits past order*order "
                "stay zero, and equal digraphs must have equal words", an.blocks[b]["stmts"][i]["span"])
        for (var, ver), v in an.term_of.items():
            if v == B and isinstance(var, str) and var.startswith("L"):
                local_blocks.setdefault(p, set()).add(var)
    for p in crate.fn_paths():
        an = crate.an(p)
        for ev in an.events:
            if ev["k"] != "store":
                continue
            c, idx = store_elem(ev)
            R = region_of_container(c) if c else None
            ri = an.region_info.get(R) if R else None
            if not ((ri and ri.get("chain") and ri["chain"][-1] == (AM, "blocks")) or (R is not None and R in local_blocks.get(p, ()))):
                continue
            n += 1
            v = ev["val"]
            ok = False
            if v[0] == "bin" and v[1] in ("BitOr", "BitXor", "BitAnd") and idx is not None and idx[0] == "bin" and idx[1] == "Shr" \
                    and idx[3][0] == "const" and idx[3][2] == 6:
                i = idx[2]
                for old, m in ((v[2], v[3]), (v[3], v[2])):
                    r, li = load_parts(old)
                    if r != R or li != idx:
                        continue
                    if v[1] == "BitAnd":
                        if not (m[0] == "un" and m[1] == "Not"):
                            continue
                        m = m[2]
                    if m[0] == "bin" and m[1] == "Shl" and m[2][0] == "const" and m[2][2] == 1 and \
                            m[3] in (("bin", "BitAnd", i, ("const", "usize", 63)), ("bin", "BitAnd", ("const", "usize", 63), i)):
                        ok = True
            if not ok:
                ok = _word_or_under_equal_orders(crate, an, ev, R, idx)
            o.check(ok, crate.prog.pretty[p], "bit-read-modify-write", "a word of the bit matrix is written other than by setting, flipping "
                    "or clearing the bit of one cell (i >> 6, 1 << (i & 63))", ev["span"])
        # writes through the items of a mutable iteration over the words
        fx = None
        for ev in an.events:
            if ev["k"] != "store" or "addr" not in ev or ev["addr"] is None:
                continue
            site, path = payload_of(ev["addr"])
            if site is None:
                continue
            fx = fx or crate.fx(p)
            nev = fx.an_call_at(site[1])
            if nev is None or nev["key"] != "core::iter::traits::iterator::Iterator::next":
                continue
            d = fx.iter_desc(nev)
            if not d or d == "CYCLE" or not _iterates_blocks_mut(an, d, AM):
                continue
            n += 1
            o.check(_zip_word_or(an, fx, ev, d, path, AM), crate.prog.pretty[p], "bit-read-modify-write",
                    "whole words of the bit matrix are written through a mutable iteration (only sound as `a |= b` on the same word of "
                    "two matrices of equal order, under a check that the orders are equal)", ev["span"])
    # reads: a word of `blocks` masked with single-bit masks reads one cell: blocks[i >> 6] & (1 << (i & 63)) or
    # (blocks[i >> 6] >> (i & 63)) & 1 with the same i; a mask that names a cell of another index reads the wrong word
    from .relax import _all_terms
    nr = 0
    for p in crate.fn_paths():
        an = crate.an(p)
        seen = set()

        def blocks_load(t):
            r, li = load_parts(t)
            if r is None:
                return None
            ri = an.region_info.get(r)
            if ri and ri.get("chain") and ri["chain"][-1] == (AM, "blocks"):
                return li
            return None

        def cell_of(idx):
            if idx is not None and idx[0] == "bin" and idx[1] == "Shr" and idx[3][0] == "const" and idx[3][2] == 6:
                return idx[2]
            return None

        def shls(t, out):
            if isinstance(t, tuple) and t:
                if t[0] == "bin" and t[1] == "Shl" and t[2][0] == "const" and t[2][2] == 1:
                    out.append(t)
                    return
                for x in t:
                    if isinstance(x, tuple):
                        shls(x, out)

        def walk(t):
            nonlocal nr
            if not isinstance(t, tuple) or not t or t in seen:
                return
            seen.add(t)
            if t[0] == "bin" and t[1] == "BitAnd":
                for w, m in ((t[2], t[3]), (t[3], t[2])):
                    idx = blocks_load(w)
                    if idx is None:
                        continue
                    ms = []
                    shls(m, ms)
                    if not ms:
                        continue
                    nr += 1
                    i = cell_of(idx)
                    good = i is not None and all(x[3] in (("bin", "BitAnd", i, ("const", "usize", 63)),
                                                          ("bin", "BitAnd", ("const", "usize", 63), i)) for x in ms)
                    o.check(good, crate.prog.pretty[p], "bit-read", "a word of the bit matrix is masked with the bit of a cell that does not "
                            "live in that word (cells i and j are in the same word only when i >> 6 == j >> 6)",
                            crate.prog.fns[p].get("span"))
            if t[0] == "bin" and t[1] == "Shr":
                idx = blocks_load(t[2])
                if idx is not None and t[3][0] != "const":
                    nr += 1
                    i = cell_of(idx)
                    good = i is not None and t[3] in (("bin", "BitAnd", i, ("const", "usize", 63)), ("bin", "BitAnd", ("const", "usize", 63), i))
                    o.check(good, crate.prog.pretty[p], "bit-read", "a word of the bit matrix is shifted by the bit position of a cell that "
                            "does not live in that word", crate.prog.fns[p].get("span"))
            for x in t:
                if isinstance(x, tuple):
                    walk(x)
        for t in _all_terms(an):
            walk(t)
    # range-masked word reads outside any loop: a query that masks a fixed number of words with multi-bit masks decides
    # something about a row (or the matrix) from boundedly many words, but a row spans arbitrarily many for large orders
    for p in crate.fn_paths():
        an = crate.an(p)
        if crate.prog.fns[p]["kind"] == "Closure":
            continue
        hits = []

        def walk2(t, b, seen):
            if not isinstance(t, tuple) or not t or (t, b) in seen:
                return
            seen.add((t, b))
            if t[0] == "bin" and t[1] == "BitAnd":
                for w, m in ((t[2], t[3]), (t[3], t[2])):
                    r, li = load_parts(w)
                    if r is None:
                        continue
                    ri = an.region_info.get(r)
                    if not (ri and ri.get("chain") and ri["chain"][-1] == (AM, "blocks")):
                        continue
                    ms = []
                    single = m[0] == "const" or (m[0] == "un" and m[1] == "Not" and m[2][0] == "bin" and m[2][1] == "Shl" and m[2][2][0] == "const"
                                                 and m[2][2][2] == 1) or (m[0] == "bin" and m[1] == "Shl" and m[2][0] == "const" and m[2][2] == 1)
                    is_word = load_parts(m)[0] is not None
                    if not single and not is_word and an.cfg.loop_of(b) is None:
                        hits.append(b)
            for x in t:
                if isinstance(x, tuple):
                    walk2(x, b, seen)
        seen2 = set()
        for ev in an.events:
            for k_ in ("args", "val", "discr", "res"):
                v_ = ev.get(k_)
                if isinstance(v_, list):
                    for x in v_:
                        walk2(x, ev["b"], seen2)
                elif isinstance(v_, tuple):
                    walk2(v_, ev["b"], seen2)
        for (b_, i_), t_ in an.stmt_terms.items():
            walk2(t_, b_, seen2)
        # a loop (or an iterator / closure) over the words elsewhere in the function covers what lies between the masked ends
        def reads_blocks(t):
            if isinstance(t, tuple) and t:
                if t[0] in ("mem", "at", "addr") and isinstance(t[1], str):
                    ri_ = an.region_info.get(t[1].split("#")[0])
                    if ri_ and ri_.get("chain") and ri_["chain"][-1] == (AM, "blocks"):
                        return True
                return any(reads_blocks(x) for x in t if isinstance(x, tuple))
            return False
        word_loop = False
        for ev in an.events:
            inl = an.cfg.loop_of(ev["b"]) is not None
            iterish = ev["k"] == "call" and ev["key"] and (ev["key"].startswith("slice::iter") or ev["key"].endswith("::chunks")
                                                            or "::index::Index::index" in ev["key"] and ev["fn"] and
                                                            len(ev["fn"].get("targs", [])) >= 2 and ev["fn"]["targs"][1].get("k") == "adt")
            if not (inl or iterish):
                continue
            for k_ in ("args", "val", "discr", "res"):
                v_ = ev.get(k_)
                vs_ = v_ if isinstance(v_, list) else [v_] if isinstance(v_, tuple) else []
                if any(reads_blocks(x) for x in vs_):
                    word_loop = True
        for cp in crate.prog.children.get(p, []):
            can_ = crate.an(cp)
            if _touches(can_, ("blocks",)):
                word_loop = True
        if hits and not word_loop:
            nr += 1
            o.check(False, crate.prog.pretty[p], "bounded-range-read", "words of the bit matrix are masked with multi-bit (range) masks outside "
                    "any loop over the words: only a bounded number of words is examined, but a row spans more than that for large orders",
                    crate.prog.fns[p].get("span"))
    o.instances = n + nr
    return o.report(floors={"bit-matrix writes": (n, 3), "bit-matrix single-cell reads": (nr, 1)})


def _blocks_source(an, t, AM):
    """region R when t iterates (mutably or not) over the words of the `blocks` of an AdjacencyMatrix at R"""
    while t and t != "CYCLE" and t[0] == "call" and t[3] and t[1] in (
            "slice::iter_mut", "slice::iter", "core::ops::deref::DerefMut::deref_mut", "core::ops::deref::Deref::deref",
            "core::iter::traits::collect::IntoIterator::into_iter", "alloc::vec::Vec::as_mut_slice", "alloc::vec::Vec::as_slice"):
        t = t[3][0]
    if t and t != "CYCLE" and t[0] in ("at", "addr"):
        ri = an.region_info.get(t[1])
        if ri and ri.get("chain") and ri["chain"][-1] == (AM, "blocks"):
            return t[1]
    return None


def _iterates_blocks_mut(an, d, AM):
    if not isinstance(d, tuple) or not d:
        return False
    if d[0] == "call" and d[1] == "slice::iter_mut" and _blocks_source(an, d, AM) is not None:
        return True
    if d[0] == "call" and d[1] == "core::iter::traits::collect::IntoIterator::into_iter" and d[3] and d[3][0][0] in ("at", "addr") \
            and _blocks_source(an, d, AM) is not None and not an.region_info[d[3][0][1]].get("imm"):
        return True
    if d[0] == "call":
        return any(_iterates_blocks_mut(an, x, AM) for x in d[3] if isinstance(x, tuple))
    return False


def _equal_orders_known(an, fx, b, AM):
    """a check that two matrices have the same order dominates b"""
    def is_order(t):
        if t[0] == "mem" and t[3] is None or t[0] == "mem":
            ri = an.region_info.get(t[1])
            return bool(ri and ri.get("chain") and ri["chain"][-1] == (AM, "order"))
        return False

    def f(rel):
        return any(a[0] == "eq" and a[1] != a[2] and is_order(a[1]) and is_order(a[2]) and a[1][1] != a[2][1] for a in rel.w)
    return fx.holds(b, f)


def _zip_word_or(an, fx, ev, d, path, AM):
    """the store is `*w |= *o` where (w, o) is the item of blocks_a.iter_mut().zip(blocks_b) and order_a == order_b is known"""
    v = ev["val"]
    if not (d[0] == "call" and d[1].endswith("Iterator::zip") and len(d[3]) == 2 and len(path) == 1 and path[0] in (0, 1)):
        return False
    if _blocks_source(an, d[3][0], AM) is None or _blocks_source(an, d[3][1], AM) is None:
        return False
    if not (v[0] == "bin" and v[1] == "BitOr"):
        return False
    item = ev["addr"][1]
    other = ("field", item, str(1 - path[0]))
    ok = False
    for old, w in ((v[2], v[3]), (v[3], v[2])):
        if old[0] == "mem" and old[3] == ev["addr"] and w[0] == "mem" and w[3] == other:
            ok = True
    return ok and _equal_orders_known(an, fx, ev["b"], AM)


def _word_or_under_equal_orders(crate, an, ev, R, idx):
    """blocks_a[k] = blocks_a[k] | blocks_b[k] under a check that the two matrices have equal orders"""
    from .schema import load_parts
    AM = "graaf::repr::adjacency_matrix::AdjacencyMatrix"
    v = ev["val"]
    if not (v[0] == "bin" and v[1] == "BitOr"):
        return False
    fx = crate.fx(an.path)
    for old, w in ((v[2], v[3]), (v[3], v[2])):
        r1, i1 = load_parts(old)
        r2, i2 = load_parts(w)
        if r1 == R and i1 == idx and i2 == idx and r2 is not None and r2 != R:
            ri = an.region_info.get(r2)
            if ri and ri.get("chain") and ri["chain"][-1] == (AM, "blocks"):
                return _equal_orders_known(an, fx, ev["b"], AM)
    return False


def rule_bitset(crate, prop, tier):
    """BITSET (crate-wide): wherever a word of a buffer is addressed as `buf[x >> k]` and combined with or tested against
    a single-bit mask `1 << (x & m)` of the same x, the mask keeps exactly the k low bits: m == 2^k - 1.  With a smaller
    m two elements share a bit (x and x ^ 2^j alias), with a larger one the shift overflows."""
    from .relax import _all_terms
    from .schema import load_parts
    o = Obl("BITSET")
    n = 0
    shift_obligations(crate, o, lambda p: not p.startswith("graaf::repr::adjacency_matrix::"))

    def single_bits(t, out):
        if isinstance(t, tuple) and t:
            if t[0] == "bin" and t[1] == "Shl" and t[2][0] == "const" and t[2][2] == 1:
                out.append(t[3])
                return
            for x in t:
                if isinstance(x, tuple):
                    single_bits(x, out)

    def check(pretty, idx, valterm, span):
        nonlocal n
        if idx is not None and idx[0] == "bin" and idx[1] == "Div" and idx[3][0] == "const" and isinstance(idx[3][2], int) \
                and idx[3][2] > 1 and idx[3][2] & (idx[3][2] - 1) == 0:
            idx = ("bin", "Shr", idx[2], ("const", "u32", idx[3][2].bit_length() - 1))
        if not (idx is not None and idx[0] == "bin" and idx[1] == "Shr" and idx[3][0] == "const" and isinstance(idx[3][2], int)):
            return
        x, k = idx[2], idx[3][2]
        sh = []
        single_bits(valterm, sh)
        for a in sh:
            if a[0] == "bin" and a[1] == "BitAnd" and x in (a[2], a[3]):
                m = a[3] if a[2] == x else a[2]
                if m[0] == "const" and isinstance(m[2], int):
                    n += 1
                    o.check(m[2] == (1 << k) - 1, pretty, "bit-index-width", "a bit set addresses word x >> %d but bit x & %d: elements "
                            "whose ids differ in a dropped bit share one bit (or the shift overflows)" % (k, m[2]), span)
            if a[0] == "bin" and a[1] == "Rem" and a[2] == x and a[3][0] == "const" and isinstance(a[3][2], int):
                n += 1
                o.check(a[3][2] == (1 << k), pretty, "bit-index-width", "a bit set addresses word x >> %d but bit x %% %d: two elements of "
                        "one word share a bit (or the shift overflows)" % (k, a[3][2]), span)
    for p in crate.fn_paths():
        an = crate.an(p)
        pretty = crate.prog.pretty[p]
        span = crate.prog.fns[p].get("span")
        seen = set()
        for ev in an.events:
            if ev["k"] == "store":
                c, idx = store_elem(ev)
                if c is not None:
                    check(pretty, idx, ev["val"], ev["span"])

        def walk(t):
            if not isinstance(t, tuple) or not t or t in seen:
                return
            seen.add(t)
            if t[0] == "bin" and t[1] in ("BitAnd", "BitOr", "BitXor"):
                for w, m in ((t[2], t[3]), (t[3], t[2])):
                    r, li = load_parts(w)
                    if r is not None:
                        check(pretty, li, m, span)
            for x in t:
                if isinstance(x, tuple):
                    walk(x)
        for t in _all_terms(an):
            walk(t)
    o.instances = n
    return o.report(floors={"bit-set accesses (x >> k with 1 << (x & m))": (n, 3)})


def rule_encaps(crate, prop, tier):
    o = Obl("ENCAPS")
    prog = crate.prog
    for S in REPR:
        a = prog.adts.get(S)
        if not o.check(a is not None, S, "struct-exists", "representation struct not found"):
            continue
        o.instances += 1
        for fl in a["fields"]:
            o.check(not fl["public"], S, "private:" + fl["name"], "field `%s` of %s is public: callers can break the "
                    "representation invariants directly" % (fl["name"], a["name"]), a["span"])
    # no reachable function hands out mutable access into a representation
    from .core import ty_contains
    for p in crate.fn_paths():
        f = prog.fns[p]
        if f["kind"] == "Closure" or not f.get("reachable"):
            continue
        args = [f["locals"][i]["ty"] for i in range(1, f["arg_count"] + 1)]
        takes_repr = any(ty_contains(t, lambda x: x["k"] == "adt" and x.get("path") in REPR) for t in args)
        if not takes_repr:
            continue
        rt = f["locals"][0]["ty"]
        leaks = ty_contains(rt, lambda x: (x["k"] == "ref" and x.get("mut")) or x["k"] == "rawptr")
        o.check(not leaks, prog.pretty[p], "no-mutable-handle",
                "a public function returns a mutable reference / raw pointer derived from a representation", f["span"])
    # who may write: every body that writes through a `&mut representation` is one of the analysed mutators
    muts = {p for p, T in repr_mut_fns(crate)}
    o.check(len(muts) >= 11, "crate", "mutator-count", "fewer mutators than expected")
    return o.report(floors={"representation structs": (o.instances, 5)})


def _touches(an, names):
    """some term of the body names a region whose last field is one of `names`"""
    def walk(t):
        if isinstance(t, tuple) and t:
            if t[0] in ("mem", "at", "addr") and isinstance(t[1], str) and any(("." + n) in t[1] for n in names):
                return True
            return any(walk(x) for x in t if isinstance(x, tuple))
        return False
    for ev in an.events:
        for k in ("args", "val", "discr", "res"):
            v = ev.get(k)
            vs = v if isinstance(v, list) else [v] if isinstance(v, tuple) else []
            if any(walk(x) for x in vs):
                return True
    return False
