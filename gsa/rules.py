"""Rule registry: property -> rules (DESIGN §3/§4)."""
from .report import Finding, span_s
from .dump import short


def term_s(t, n=160):
    s = short(t) if isinstance(t, tuple) else str(t)
    return s if len(s) <= n else s[:n] + "…"


# ---------------------------------------------------------------------------
def rule_mem(crate, prop, tier):
    from .mem import run_mem, site_key
    results, unused = run_mem(crate)
    viol = []
    samples = []
    by_how = {}
    fns = set()
    for s in results:
        fns.add(s.fn)
        how = s.how if isinstance(s.how, str) else s.how[0]
        by_how[how] = by_how.get(how, 0) + 1
        if not s.status:
            detail = [term_s(x) for x in s.how[1:]] if not isinstance(s.how, str) else []
            viol.append(Finding("MEM", "MEM|" + site_key(crate, s),
                                "unsafe operation without a discharged obligation: %s (%s)" % (how, "; ".join(detail)),
                                s.span, {"how": how, "detail": detail}))
    interesting = [s for s in results if s.status and s.how not in ("VIA-ADD", "CONST")]
    for s in interesting[:: max(1, len(interesting) // 12)][:12]:
        samples.append({"site": site_key(crate, s), "where": span_s(s.span), "discharged_by": s.how})
    for e in unused:
        # a trusted entry that matches nothing is stale, not a violation of the property
        pass
    trusted = [s for s in results if s.how == "TRUSTED"]
    return {
        "rule": "MEM", "instances": len(fns), "obligations": len(results),
        "discharged": sum(1 for s in results if s.status), "violations": viol, "samples": samples,
        "by_strategy": by_how, "trusted_sites": sorted({site_key(crate, s) for s in trusted}),
        "trusted_unused": [e["fn"] + "|" + e["kind"] + "|" + e["root"] for e in unused],
        "distinct_nontrivial": len({site_key(crate, s) for s in interesting}),
        "floors": {"bodies analysed": (len(crate.prog.d["fns"]), 600)},
        "note": "functions with unsafe operations=%d trusted=%d" % (len(fns), len(trusted)),
    }


RULES = {
    "MEM": rule_mem,
}

COMMON_ASSUMPTIONS = [
    "the digraph type parameter of an algorithm ranges over graaf's own representations (a foreign impl of the "
    "operation traits that lies about its vertex set is out of scope)",
    "order() of a shared-borrowed graaf digraph is stable for the duration of the borrow (all representations are "
    "Freeze; checked)",
    "target pointer width is 64 (read from the compiler session)",
    "rustc's MIR construction, type checker and trait solver are correct; the fact exporter reports them faithfully",
    "the semantics table of std functions (gsa/effects.py) is correct",
]

PROPERTY_RULES = {
    "C13": {
        "rules": ["MEM"],
        "explanation": "Every unsafe operation of the library (raw pointer offset/dereference, get_unchecked, "
                       "unwrap_unchecked, set_len, ptr::read/write, int-to-pointer casts, calls of unsafe fns) is "
                       "inventoried from MIR and must carry a discharged bounds / initialisation / variant obligation: "
                       "by a dominating guard, a range, a struct length invariant checked at every construction site, a "
                       "worklist or yield invariant checked at every push/return site, the contiguity contract of the "
                       "digraph type, a row-major/bit-block lemma, imported capture-site facts for closures, or one "
                       "entry of the reviewed trust table (tables/trusted_sites.json). An undischarged site is a "
                       "violation naming function, operation and root variable.",
        "trusted_base": ["rustc MIR + trait solver", "gsa-driver fact exporter", "gsa/effects.py std semantics table",
                         "lemmas L-ROWMAJOR, L-BITS, L-PTRWALK (DESIGN appendix A)", "tables/trusted_sites.json",
                         "contiguity contract for generator literals (DESIGN §3.1 INV)"],
        "not_decided": "the trusted sites (merge-path arithmetic, walking pointer, nested-Vec row lengths), stack depth "
                       "of recursive algorithms, behaviour under foreign trait impls",
        "assumptions": COMMON_ASSUMPTIONS,
    },
}
