"""Crate-level invariants derived from construction sites and mutation sites
(DESIGN §2.2 'Summaries'): struct field-length invariants (LENEQ, LENSQ,
PTRLEN), worklist content invariants and iterator yield bounds.  Every table
is recomputed from the facts on each run and every entry is *checked*, never
assumed."""
from .core import mk_len, mk_field, strip_ref, is_prefix
from . import effects as E

ORD_KEYS = ("graaf::op::order::Order::order",
            "graaf::op::contiguous_order::ContiguousOrder::contiguous_order")

PUSH_KEYS = {
    "alloc::collections::vec_deque::VecDeque::push_back": 1,
    "alloc::collections::vec_deque::VecDeque::push_front": 1,
    "alloc::vec::Vec::push": 1,
    "alloc::collections::binary_heap::BinaryHeap::push": 1,
}
POP_KEYS = {
    "alloc::collections::vec_deque::VecDeque::pop_front",
    "alloc::collections::vec_deque::VecDeque::pop_back",
    "alloc::vec::Vec::pop",
    "alloc::collections::binary_heap::BinaryHeap::pop",
}
WORKLIST_NEUTRAL = {
    "alloc::vec::Vec::len", "alloc::vec::Vec::is_empty", "alloc::collections::vec_deque::VecDeque::len",
    "alloc::collections::vec_deque::VecDeque::is_empty", "alloc::collections::binary_heap::BinaryHeap::len",
    "alloc::collections::binary_heap::BinaryHeap::is_empty", "core::clone::Clone::clone",
    "core::cmp::PartialEq::eq", "core::fmt::Debug::fmt", "alloc::vec::Vec::clear",
    "alloc::collections::vec_deque::VecDeque::clear", "alloc::collections::binary_heap::BinaryHeap::clear",
}


def is_vec_ty(t):
    return t["k"] == "adt" and t["name"] == "Vec"


def proj_path(term, root):
    """field-index path p such that term == root.p, or None"""
    path = []
    t = term
    while t != root:
        if t[0] == "field" and t[2].isdigit():
            path.append(int(t[2]))
            t = t[1]
        else:
            return None
    return tuple(reversed(path))


def apply_path(term, path):
    for i in path:
        term = mk_field(term, str(i), i)
    return term


def push_loop_len(crate, an, value, use_block):
    """length of a local Vec that starts empty and receives exactly one push in every iteration of one complete
    `for _ in 0..n` loop and nothing else: n (valid at use_block, after the loop)"""
    from .mem import complete_scan
    if not (value[0] == "mem" and value[3] is None and value[1].startswith("L")) or use_block is None:
        return None
    R = value[1]
    fx = crate.fx(an.path)
    inits, pushes, others = [], [], []
    for ev in an.events:
        if ev["k"] == "store" and ev["region"] == R:
            inits.append(ev["val"])
        if ev["k"] != "call":
            continue
        mode, name, vp = an.walk_place(an.blocks[ev["b"]]["term"]["dest"])
        if mode == "mem" and name == R:
            inits.append(ev["res"])
        if ev["args"] and ev["args"][0][0] == "addr" and ev["args"][0][1] == R and not ev["pure"]:
            if ev["key"] == "alloc::vec::Vec::push":
                pushes.append(ev)
            else:
                others.append(ev)
    def empty(v):
        k = v[1] if v[0] == "call" else v[2] if v[0] == "site" else None
        return k in ("alloc::vec::Vec::new", "alloc::vec::Vec::with_capacity")
    if len(inits) != 1 or not empty(inits[0]) or len(pushes) != 1 or others:
        return None
    pu = pushes[0]
    hb = an.cfg.loop_of(pu["b"])
    if hb is None:
        return None
    body = an.cfg.loops[hb]
    drivers = [ev for ev in an.events if ev["k"] == "call" and ev["key"] == "core::iter::traits::iterator::Iterator::next"
               and ev["b"] in body and an.cfg.loop_of(ev["b"]) == hb]
    if len(drivers) != 1:
        return None
    d = fx.iter_desc(drivers[0])
    if not (d and d != "CYCLE" and d[0] == "agg" and d[1] == "adt" and d[2][0].endswith("ops::range::Range")
            and d[3][0] == ("const", "usize", 0)):
        return None
    if not complete_scan(an, fx, drivers[0]):
        return None
    latches = [p for p, _ in an.cfg.pred[hb] if an.cfg.dominates(hb, p)]
    if not latches or not all(an.cfg.dominates(pu["b"], lb) for lb in latches):
        return None
    if use_block in body or not an.cfg.dominates(hb, use_block):
        return None
    return d[3][1]


class Invariants:
    def __init__(self, crate):
        self.c = crate
        self.prog = crate.prog
        self.sites = {}      # adt path -> [(fnpath, b, i, term)]
        self._scan()
        self._leneq = {}
        self._worklist = {}
        self._yield = {}
        self._ctor_len = {}
        self.log = []

    def _scan(self):
        for p in self.c.fn_paths():
            an = self.c.an(p)
            for (b, i), t in an.stmt_terms.items():
                if t[0] == "agg" and t[1] == "adt" and t[2][0] in self.prog.adts:
                    self.sites.setdefault(t[2][0], []).append((p, b, i, t))

    # ------------------------------------------------------------------
    def adt_fields(self, S):
        return [f for f in self.prog.adts[S]["fields"]]

    def field_index(self, S, name):
        for i, f in enumerate(self.adt_fields(S)):
            if f["name"] == name:
                return i
        return None

    def is_fieldwise_clone(self, S, fnpath, t):
        f = self.prog.fns[fnpath]
        if not f.get("impl_derived"):
            return False
        return self._clone_shape(S, t, "A1")

    def _clone_shape(self, S, t, base):
        if not (t[0] == "agg" and t[1] == "adt" and t[2][0] == S):
            return False
        for fl, op in zip(self.adt_fields(S), t[3]):
            r = base + "." + fl["name"]
            if op[0] == "call" and op[1] == "core::clone::Clone::clone" and op[3] \
                    and op[3][0][0] == "at" and op[3][0][1] == r:
                continue
            if fl["ty"]["k"] == "adt" and fl["ty"]["path"] in self.prog.adts \
                    and self._clone_shape(fl["ty"]["path"], op, r):
                continue
            return False
        return True

    def real_sites(self, S):
        return [s for s in self.sites.get(S, []) if not self.is_fieldwise_clone(S, s[0], s[3]) and not self._inherits(S, s[0], s[3], s[1])]

    def _inherits(self, S, fnpath, t, blk=None):
        """the literal takes every scalar field and the length of every vector field from one existing value X of the same
        type (`Self { blocks: vec![0; self.blocks.len()], order: self.order }`): whatever relates lengths and scalars in X
        holds in the new value (induction over construction sites)"""
        an = self.c.an(fnpath)
        base = None
        seen_scalar = False
        for fl, op in zip(self.adt_fields(S), t[3]):
            if fl["ty"]["k"] == "int":
                if not (op[0] == "mem" and op[3] is None and op[2] == ("e",) and isinstance(op[1], str)
                        and op[1].endswith("." + fl["name"])):
                    return False
                b = op[1][: -len("." + fl["name"])]
                if base is not None and b != base:
                    return False
                base = b
                seen_scalar = True
        if not seen_scalar or base is None:
            return False
        ri = an.region_info.get(base)
        if not (ri and ri["ty"].get("k") == "adt" and ri["ty"].get("path") == S):
            return False
        for fl, op in zip(self.adt_fields(S), t[3]):
            if is_vec_ty(fl["ty"]):
                L = mk_len(strip_ref(op), an)
                if not (L[0] == "len" and L[1][0] == "at" and L[1][1] == base + "." + fl["name"] and L[1][2] is None and L[1][3] == ("e",)):
                    if not self._zipped_same_shape(S, an, fnpath, blk, strip_ref(op), base, fl["name"]):
                        return False
            elif fl["ty"]["k"] != "int":
                return False
        return True

    def _zipped_same_shape(self, S, an, fnpath, blk, op, base, fname):
        """op = X.f.iter().zip(Y.f.iter()).map(..).collect() with X = base and Y a value of the same type all of whose scalar
        fields are known to equal X's at this point: both lengths are the same function of the scalars"""
        IT = "core::iter::traits::iterator::Iterator::"
        t = op
        if not (t[0] == "call" and t[1] == IT + "collect" and t[3]):
            return False
        t = t[3][0]
        while t[0] == "call" and t[1] in (IT + "map", IT + "copied", IT + "cloned") and t[3]:
            t = t[3][0]
        if not (t[0] == "call" and t[1] == IT + "zip" and len(t[3]) == 2):
            return False
        bases = []
        for x in t[3]:
            while x[0] == "call" and x[3] and x[1] in ("slice::iter", "core::iter::traits::collect::IntoIterator::into_iter",
                                                       "core::ops::deref::Deref::deref", "alloc::vec::Vec::as_slice"):
                x = x[3][0]
            x = strip_ref(x)
            if not (x[0] == "at" and x[2] is None and x[3] == ("e",) and x[1].endswith("." + fname)):
                return False
            bases.append(x[1][: -len("." + fname)])
        if base not in bases or blk is None:
            return False
        fx = self.c.fx(fnpath)
        for b2 in bases:
            if b2 == base:
                continue
            ri = an.region_info.get(b2)
            if not (ri and ri["ty"].get("k") == "adt" and ri["ty"].get("path") == S):
                return False
            for fl in self.adt_fields(S):
                if fl["ty"]["k"] == "int":
                    a_, b_ = ("mem", base + "." + fl["name"], ("e",), None), ("mem", b2 + "." + fl["name"], ("e",), None)
                    if not fx.holds(blk, lambda rel: rel.eq(a_, b_)):
                        return False
        return True

    # -- length templates: len(x.F[.sub]) == T[HOLE := order(x.G*) | x.G] ----------
    def len_templates(self, S):
        """[(fieldpath, G, holekind, template)] valid at every construction site of S,
        with all fields involved frozen"""
        if S in self._leneq:
            return self._leneq[S]
        self._leneq[S] = []
        res = None
        fields = self.adt_fields(S)
        sites = self.real_sites(S)
        for (p, b, i, t) in sites:
            an = self.c.an(p)
            here = set()
            for fi, fl in enumerate(fields):
                Ls = []
                if is_vec_ty(fl["ty"]):
                    Ls.append(((fl["name"],), mk_len(strip_ref(t[3][fi]), an)))
                elif fl["ty"]["k"] == "adt" and fl["ty"]["path"] in self.prog.adts and t[3][fi][0] == "call":
                    v = t[3][fi]
                    fpath = self.prog.key_to_path.get(v[1])
                    if fpath:
                        for sub in self.adt_fields(fl["ty"]["path"]):
                            if is_vec_ty(sub["ty"]):
                                L = self.ctor_len(fpath, sub["name"])
                                if L is not None:
                                    from .mem import subst_args
                                    Ls.append(((fl["name"], sub["name"]), subst_args(L, v[3])))
                for fpathF, L in Ls:
                    for gi, gl in enumerate(fields):
                        if gi == fi:
                            continue
                        g = t[3][gi]
                        if gl["ty"]["k"] == "ref":
                            R = an.region_of_pointer(g)
                            if R is None:
                                continue
                            tmpl, n = _abstract(L, lambda x: x[0] == "call" and x[1] in ORD_KEYS and x[3]
                                                and x[3][0][0] == "at" and x[3][0][1] == R)
                            if n:
                                here.add((fpathF, gl["name"], "order", tmpl))
                        elif gl["ty"]["k"] == "int":
                            tmpl, n = _abstract(L, lambda x: x == g)
                            if n and g[0] not in ("const",):
                                here.add((fpathF, gl["name"], "scalar", tmpl))
            res = here if res is None else (res & here)
        out = []
        fz = self.prog.frozen
        for (fp, G, kind, tmpl) in (res or ()):
            chain = [(S, fp[0])]
            if len(fp) == 2:
                sub_adt = [fl for fl in fields if fl["name"] == fp[0]][0]["ty"]["path"]
                chain.append((sub_adt, fp[1]))
            if self._chain_frozen(tuple(chain)) and fz.is_frozen(((S, G),)):
                out.append((fp, G, kind, tmpl))
        if not sites:
            out = []
        self._leneq[S] = out
        return out

    def _chain_frozen(self, chain):
        fz = self.prog.frozen
        if len(chain) == 1:
            return fz.is_frozen(chain)
        # nested: the outer field must be frozen as a whole, and nothing may write the inner
        # field through the outer one
        if not fz.is_frozen(chain[:1]):
            return False
        if chain in fz.writes:
            return False
        return True

    def leneq(self, S):
        return [(fp[0], G, kind) for (fp, G, kind, tmpl) in self.len_templates(S)
                if len(fp) == 1 and tmpl == ("HOLE",) and kind == "order"]

    # -- PTRLEN: x.p == as_ptr(X) and x.n == len(X) for the same X -----------------
    def ptrlen(self, S):
        """[(pointer field, length field)] of struct S"""
        key = ("ptrlen", S)
        if key in self._leneq:
            return self._leneq[key]
        fields = self.adt_fields(S)
        res = None
        sites = self.real_sites(S)
        for (p, b, i, t) in sites:
            here = set()
            for pi, pf in enumerate(fields):
                if pf["ty"]["k"] != "rawptr":
                    continue
                v = t[3][pi]
                if not (v[0] == "call" and v[1] in ("alloc::vec::Vec::as_ptr", "alloc::vec::Vec::as_mut_ptr",
                                                     "slice::as_ptr", "slice::as_mut_ptr") and v[3]):
                    continue
                X = strip_ref(v[3][0])
                for ni, nf in enumerate(fields):
                    if nf["ty"]["k"] == "int" and t[3][ni] == ("len", X):
                        here.add((pf["name"], nf["name"]))
            res = here if res is None else (res & here)
        fz = self.prog.frozen
        # the struct must borrow the container it points into: a lifetime-carrying marker field
        has_marker = any(f["ty"]["k"] == "adt" and f["ty"]["name"] == "PhantomData" and
                         any(a["k"] == "ref" for a in f["ty"].get("args", [])) for f in fields)
        out = [(pn, nn) for (pn, nn) in (res or ()) if sites and has_marker
               and fz.is_frozen(((S, pn),)) and fz.is_frozen(((S, nn),))]
        self._leneq[key] = out
        return out

    # -- constructor postcondition: length of a Vec field of the returned struct
    def ctor_len(self, fnpath, field):
        """term over ('arg', k) for len(ret.field) of a crate function returning a
        struct literal; None when unknown"""
        key = (fnpath, field)
        if key in self._ctor_len:
            return self._ctor_len[key]
        res = None
        f = self.prog.fns.get(fnpath)
        if f is not None:
            an = self.c.an(fnpath)
            cands = [t for (b, i), t in an.stmt_terms.items()
                     if t[0] == "agg" and t[1] == "adt" and an.blocks[b]["stmts"][i]["place"]["local"] == 0
                     and not an.blocks[b]["stmts"][i]["place"]["proj"]]
            if len(cands) == 1:
                t = cands[0]
                S = t[2][0]
                fi = self.field_index(S, field) if S in self.prog.adts else None
                if fi is not None:
                    L = mk_len(strip_ref(t[3][fi]), an)
                    if _only_args(L) and L != ("len", strip_ref(t[3][fi])):
                        res = L
                    else:
                        lit_b = [b for (b, i), tt in an.stmt_terms.items() if tt is t]
                        L2 = push_loop_len(self.c, an, strip_ref(t[3][fi]), lit_b[0] if lit_b else None)
                        if L2 is not None and _only_args(L2):
                            res = L2
        if res is None and f is not None:
            # a constructor that delegates: `fn new(n) -> Self { Self::from(vec![None; n]) }`
            ft = self.ret_field_term(fnpath, field)
            if ft is not None:
                an = self.c.an(fnpath)
                L = mk_len(strip_ref(ft), an)
                if _only_args(L) and L != ("len", strip_ref(ft)):
                    res = L
        self._ctor_len[key] = res
        return res

    def ret_field_term(self, fnpath, field, depth=0):
        """term over ('arg', k) of field `field` of the struct a crate function returns, through at most three delegating
        calls (`new` -> `from` -> literal); None when unknown"""
        if depth > 3:
            return None
        f = self.prog.fns.get(fnpath)
        if f is None:
            return None
        an = self.c.an(fnpath)
        cands = [t for (b, i), t in an.stmt_terms.items()
                 if t[0] == "agg" and t[1] == "adt" and an.blocks[b]["stmts"][i]["place"]["local"] == 0
                 and not an.blocks[b]["stmts"][i]["place"]["proj"]]
        if len(cands) == 1:
            t = cands[0]
            S = t[2][0]
            fi = self.field_index(S, field) if S in self.prog.adts else None
            if fi is not None and _only_args(t[3][fi]):
                return t[3][fi]
            return None
        if cands:
            return None
        rets = [ev for ev in an.events if ev["k"] == "call" and an.blocks[ev["b"]]["term"].get("dest") is not None
                and an.blocks[ev["b"]]["term"]["dest"]["local"] == 0 and not an.blocks[ev["b"]]["term"]["dest"]["proj"]]
        if len(rets) != 1 or rets[0]["fn"] is None:
            return None
        ev = rets[0]
        fn = ev["fn"]
        tgt = fn.get("resolved") if fn.get("resolved_local") else (fn["path"] if fn.get("local") and "trait" not in fn else None)
        if tgt is None or tgt == fnpath:
            return None
        inner = self.ret_field_term(tgt, field, depth + 1)
        if inner is None:
            return None

        def sub(t):
            if isinstance(t, tuple) and t:
                if t[0] == "arg" and len(t) == 2 and isinstance(t[1], int):
                    return ev["args"][t[1] - 1] if 1 <= t[1] <= len(ev["args"]) else ("unk", None)
                return tuple(sub(x) if isinstance(x, tuple) else x for x in t)
            return t
        out = sub(inner)
        return out if _only_args(out) else None

    # -- worklists ------------------------------------------------------------
    def worklist_bound(self, S, W, path, F):
        """every element e ever stored in x.W satisfies e.path < len(x.F)"""
        key = (S, W, path, F)
        if key in self._worklist:
            return self._worklist[key]
        self._worklist[key] = False   # cycle guard (co-inductive uses are not accepted)
        ok, why = self._worklist_check(S, W, path, F)
        self._worklist[key] = ok
        self.log.append(("worklist", key, ok, why))
        return ok

    def _worklist_check(self, S, W, path, F):
        fz = self.prog.frozen
        if not fz.is_frozen(((S, F),)):
            return False, "length field not frozen"
        if self.prog.frozen.pub.get((S, W), True):
            return False, "worklist field is public"
        from .mem import bounded
        wi, fi = self.field_index(S, W), self.field_index(S, F)
        npush = 0
        # 1. construction sites
        for (p, b, i, t) in self.real_sites(S):
            an = self.c.an(p)
            fx = self.c.fx(p)
            wop = t[3][wi]
            bound = mk_len(strip_ref(t[3][fi]), an)
            if wop[0] == "mem" and wop[3] is None and wop[1].startswith("L"):
                R = wop[1]
                for ev in an.events:
                    if ev["k"] != "call" or not ev["args"]:
                        continue
                    a0 = ev["args"][0]
                    if not (a0[0] == "addr" and a0[1] == R):
                        continue
                    k = ev["key"]
                    if k in PUSH_KEYS:
                        e = apply_path(ev["args"][1], path)
                        if not bounded(self.c, an, fx, ev["b"], e, None, bound_term=bound):
                            return False, "unbounded push in %s bb%d" % (p, ev["b"])
                        npush += 1
                    elif k in POP_KEYS or k in WORKLIST_NEUTRAL or k.endswith("::with_capacity"):
                        pass
                    else:
                        return False, "unknown operation %s on the worklist local in %s" % (k, p)
                # the local must start empty
                if not self._starts_empty(an, R):
                    return False, "worklist local does not start empty in %s" % p
            else:
                return False, "worklist initialised from %r in %s" % (wop[0], p)
        # 2. every use of x.W in any body
        for p in self.c.fn_paths():
            an = self.c.an(p)
            for ev in an.events:
                if ev["k"] != "call" or not ev["args"]:
                    continue
                a0 = ev["args"][0]
                if a0[0] != "addr":
                    continue
                ri = an.region_info.get(a0[1])
                if not ri or ri["chain"] != ((S, W),):
                    continue
                k = ev["key"]
                if k in PUSH_KEYS:
                    e = apply_path(ev["args"][1], path)
                    base = a0[1][: -len("." + W)]
                    C = an.arg_for_call(("addr", base + "." + F, None), ev["vers"], True)
                    fx = self.c.fx(p)
                    if not bounded(self.c, an, fx, ev["b"], e, C):
                        return False, "unbounded push in %s bb%d" % (p, ev["b"])
                    npush += 1
                elif k in POP_KEYS or k in WORKLIST_NEUTRAL:
                    pass
                else:
                    return False, "unknown operation %s on %s.%s in %s" % (k, S, W, p)
        return True, "%d push sites bounded" % npush

    def _starts_empty(self, an, R):
        for (var, ver), t in an.term_of.items():
            if var == R and t[0] == "call" and (t[1].endswith("::with_capacity") or t[1].endswith("::new")):
                return True
        return False

    # -- yield bounds -----------------------------------------------------------
    def yield_bound(self, nextfn, path, F):
        """every Some(x) returned by the crate-local Iterator::next `nextfn`
        satisfies x.path < len(self.F)"""
        key = (nextfn, path, F)
        if key in self._yield:
            return self._yield[key]
        self._yield[key] = False
        ok, why = self._yield_check(nextfn, path, F)
        self._yield[key] = ok
        self.log.append(("yield", key, ok, why))
        return ok

    def _yield_check(self, nextfn, path, F):
        from .mem import bounded
        an = self.c.an(nextfn)
        fx = self.c.fx(nextfn)
        n = 0
        for (b, i), t in an.stmt_terms.items():
            st = an.blocks[b]["stmts"][i]
            if st["place"]["local"] != 0 or st["place"]["proj"]:
                continue
            if t[0] == "agg" and t[1] == "adt" and t[2][1] == "Some":
                y = apply_path(t[3][0], path)
                C = an.arg_for_call(("addr", "A1." + F, None), an.ver_in[b], True)
                if not bounded(self.c, an, fx, b, y, C):
                    return False, "unbounded yield in bb%d" % b
                n += 1
            elif t[0] == "agg" and t[1] == "adt" and t[2][1] == "None":
                pass
            elif t[0] == "call" and t[1] == "core::ops::try_trait::FromResidual::from_residual":
                pass   # `?` on None
            else:
                return False, "return value of unknown shape %r" % (t[0],)
        if n == 0:
            return False, "no Some(..) return found"
        return True, "%d yields bounded" % n


def _only_args(t):
    if not isinstance(t, tuple) or not t:
        return True
    if t[0] in ("phi", "site", "opq", "undef", "init", "unk", "mem", "at", "addr"):
        return False
    return all(_only_args(x) for x in t if isinstance(x, tuple))


def _abstract(t, pred):
    """replace every subterm satisfying pred by ("HOLE",); returns (term, count)"""
    if not isinstance(t, tuple) or not t:
        return t, 0
    if pred(t):
        return ("HOLE",), 1
    n = 0
    out = []
    for x in t:
        if isinstance(x, tuple):
            y, k = _abstract(x, pred)
            n += k
            out.append(y)
        else:
            out.append(x)
    return tuple(out), n


def fill_hole(t, val):
    if not isinstance(t, tuple) or not t:
        return t
    if t == ("HOLE",):
        return val
    return tuple(fill_hole(x, val) if isinstance(x, tuple) else x for x in t)
