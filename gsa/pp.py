"""Pretty-printer for exported MIR facts (debugging aid)."""
import json, sys

def place_s(p):
    s = "_%d" % p["local"]
    for e in p["proj"]:
        k = e["k"]
        if k == "deref": s = "(*%s)" % s
        elif k == "field": s = "%s.%s" % (s, e["name"])
        elif k == "downcast": s = "(%s as %s)" % (s, e["variant"])
        elif k == "index": s = "%s[_%d]" % (s, e["local"])
        elif k == "constindex": s = "%s[%s%d]" % (s, "-" if e["from_end"] else "", e["offset"])
        else: s = "%s.<%s>" % (s, k)
    return s

def op_s(o):
    k = o["k"]
    if k in ("copy", "move"): return ("move " if k == "move" else "") + place_s(o["place"])
    if k == "const":
        if "fn" in o: return "fn:" + o["fn"]["pretty"]
        if "int" in o: return "const %s_%s" % (o["int"], o["ty"]["s"])
        return "const{" + o["s"] + "}"
    return o.get("s", "?")

def rv_s(r):
    k = r["k"]
    if k == "use": return op_s(r["op"])
    if k == "ref": return "&%s%s" % ("mut " if r["mut"] else "", place_s(r["place"]))
    if k == "rawptr": return "&raw %s %s" % ("mut" if r["mut"] else "const", place_s(r["place"]))
    if k == "binop": return "%s(%s, %s)" % (r["op"], op_s(r["a"]), op_s(r["b"]))
    if k == "unop": return "%s(%s)" % (r["op"], op_s(r["a"]))
    if k == "cast": return "%s as %s (%s)" % (op_s(r["op"]), r["ty"]["s"], r["kind"])
    if k == "discriminant": return "discriminant(%s)" % place_s(r["place"])
    if k == "aggregate":
        a = r["agg"]
        ops = ", ".join(op_s(x) for x in r["ops"])
        if a == "adt": return "%s::%s{%s}" % (r["path"].split("::")[-1], r["variant"], ops)
        if a == "closure": return "closure<%s>[%s]" % (r["path"], ops)
        return "%s(%s)" % (a, ops)
    if k == "repeat": return "[%s; %s]" % (op_s(r["op"]), r["n"])
    return r.get("s", k)

def term_s(t):
    k = t["k"]
    if k == "goto": return "goto bb%d" % t["target"]
    if k == "switch":
        return "switch(%s) [%s, otherwise: bb%d]" % (op_s(t["discr"]), ", ".join("%s: bb%d" % (v, b) for v, b in t["targets"]), t["otherwise"])
    if k == "call":
        return "%s = %s(%s) -> %s unwind %s" % (place_s(t["dest"]), op_s(t["func"]), ", ".join(op_s(a) for a in t["args"]),
                                      "bb%d" % t["target"] if t["target"] is not None else "!", t["unwind"])
    if k == "assert":
        return "assert(%s == %s, %s) -> bb%d" % (op_s(t["cond"]), t["expected"], t["kind"], t["target"])
    if k == "drop": return "drop(%s) -> bb%d unwind %s" % (place_s(t["place"]), t["target"], t["unwind"])
    return k + (" " + t["s"] if "s" in t else "")

def pp_fn(f, out=sys.stdout):
    w = out.write
    w("fn %s  [%s] %s:%d\n" % (f["path"], f["kind"], f["span"]["file"], f["span"]["line"]))
    for k in ("impl_self", "impl_trait", "parent"):
        if k in f: w("  %s: %s\n" % (k, f[k]["s"] if isinstance(f[k], dict) else f[k]))
    if "captures" in f: w("  captures: %s\n" % [(c["name"], c["mode"]) for c in f["captures"]])
    for i, l in enumerate(f["locals"]):
        w("  let _%d: %s%s\n" % (i, l["ty"]["s"], "  // " + l["name"] if l["name"] else ""))
    for i, b in enumerate(f["blocks"]):
        w("  bb%d%s:\n" % (i, " (cleanup)" if b["cleanup"] else ""))
        for s in b["stmts"]:
            if s["k"] == "assign": w("    %s = %s;   // L%d %s\n" % (place_s(s["place"]), rv_s(s["rv"]), s["span"]["line"], ",".join(s["span"]["exp"])))
            else: w("    %s\n" % s)
        w("    %s;   // L%d %s\n" % (term_s(b["term"]), b["tspan"]["line"], ",".join(b["tspan"]["exp"])))

if __name__ == "__main__":
    d = json.load(open(sys.argv[1]))
    pat = sys.argv[2]
    for f in d["fns"]:
        if pat in f["path"]:
            pp_fn(f); print()
