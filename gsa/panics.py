"""Panic-capable sites of a body and their discharge by facts (rules TOTAL,
NOPANIC-AFTER-WRITE, PANICFREE of DESIGN §3.4/§3.5/§3.1-7)."""
from . import effects as E
from .core import mk_len, strip_ref

PANICKING_CALLS = {
    "core::option::Option::unwrap": "Some", "core::option::Option::expect": "Some",
    "core::result::Result::unwrap": "Ok", "core::result::Result::expect": "Ok",
}
INDEX_CALLS = {"core::ops::index::Index::index", "core::ops::index::IndexMut::index_mut"}


class PanicSite:
    def __init__(self, an, b, kind, span, **kw):
        self.an, self.b, self.kind, self.span = an, b, kind, span
        self.__dict__.update(kw)

    def key(self):
        return "%s|%s" % (self.an.path, self.kind)


def panic_sites(an):
    """every place where this body itself can start a panic"""
    out = []
    for ev in an.events:
        b = ev["b"]
        if ev["k"] == "assert":
            if ev["kind"] == "ub_check":
                continue
            out.append(PanicSite(an, b, "assert:" + ev["kind"], ev["span"], ev=ev))
        elif ev["k"] == "call":
            key = ev["key"]
            if key in E.PANIC_KEYS or (ev["diverges"] and key is not None and "panic" in key):
                out.append(PanicSite(an, b, "panic", ev["span"], ev=ev))
            elif key in PANICKING_CALLS:
                out.append(PanicSite(an, b, "unwrap:" + key.split("::")[-1], ev["span"], ev=ev))
            elif key in INDEX_CALLS:
                out.append(PanicSite(an, b, "index", ev["span"], ev=ev))
            elif ev["diverges"]:
                out.append(PanicSite(an, b, "diverge:" + str(key), ev["span"], ev=ev))
    return out


def explicit_panic_block(an, b):
    """block b ends in a call that never returns (panic!/assert! failure path)"""
    t = an.blocks[b]["term"]
    return t["k"] == "call" and t["target"] is None


def discharge_panic(crate, s):
    """True when the facts show that this site cannot panic"""
    an = s.an
    fx = crate.fx(an.path)
    ev = s.ev
    b = s.b
    if s.kind == "panic" or s.kind.startswith("diverge"):
        # reachable only if the block is reachable under the facts
        return len(fx.worlds_at(b)) == 0 and b in fx.worlds_in
    if s.kind.startswith("assert:"):
        c = ev["cond"]
        if c[0] == "const" and c[1] == "bool" and bool(c[2]) == bool(ev["expected"]):
            return True
        kind = ev["kind"]
        d = ev.get("detail") or {}
        if kind == "overflow":
            op, a, c = d.get("op"), d.get("a"), d.get("b")
            return no_overflow(crate, an, fx, b, op, a, c)
        if kind == "bounds":
            return fx.holds(b, lambda rel: rel.lt(d["index"], d["len"]))
        if kind in ("div_zero", "rem_zero"):
            x = d.get("a")
            return fx.holds(b, lambda rel: rel.lt(("const", "usize", 0), x)) or \
                (x[0] == "const" and isinstance(x[2], int) and x[2] != 0)
        return False
    if s.kind.startswith("unwrap:"):
        X = ev["args"][0]
        want = PANICKING_CALLS[ev["key"]]
        if fx.holds(b, lambda rel: rel.variant(X) == want):
            return True
        if X[0] == "call" and X[1] == "core::iter::traits::iterator::Iterator::max" :
            return False
        return always_variant(crate, an, fx, X, want)
    if s.kind == "index":
        from .mem import bounded
        fn = ev["fn"]
        ta = fn.get("targs", [])
        if len(ta) >= 2 and ta[1]["s"] == "usize" and (ta[0]["k"] == "slice" or (ta[0]["k"] == "adt" and ta[0]["name"] == "Vec")):
            C = strip_ref(an.arg_for_call(ev["args"][0], ev["vers"], True, {"k": "ref"}))
            return bool(bounded(crate, an, fx, b, ev["args"][1], C, vers=ev["vers"]))
        if len(ta) >= 2 and ta[1]["k"] == "adt" and ta[1].get("path", "").startswith("core::ops::range::") and \
                (ta[0]["k"] == "slice" or (ta[0]["k"] == "adt" and ta[0]["name"] == "Vec")):
            # slicing: &c[a..b] panics unless a <= b <= len; &c[a..] unless a <= len; &c[..b] unless b <= len
            from .core import mk_len
            C = strip_ref(an.arg_for_call(ev["args"][0], ev["vers"], True, {"k": "ref"}))
            L = mk_len(C, an)
            R = ev["args"][1]
            nm = ta[1]["name"]
            if nm == "RangeFull":
                return True
            if not (R[0] == "agg" and R[1] == "adt"):
                return False
            ops = R[3]

            def le(x, y):
                if x[0] == "const" and x[2] == 0:
                    return True
                return fx.holds(b, lambda rel: rel.le(x, y))
            if nm == "RangeTo" and len(ops) == 1:
                return le(ops[0], L)
            if nm == "RangeFrom" and len(ops) == 1:
                return le(ops[0], L)
            if nm == "Range" and len(ops) == 2:
                return le(ops[0], ops[1]) and le(ops[1], L)
            if nm == "RangeToInclusive" and len(ops) == 1:
                return fx.holds(b, lambda rel: rel.lt(ops[0], L))
            return False
        return False
    return False


def no_overflow(crate, an, fx, b, op, a, c):
    """the checked arithmetic a <op> c cannot overflow under the facts at b"""
    if op == "Add":
        # a * N + d with a < N, d < N and N * N representable (L-ROWMAJOR)
        for m, d in ((a, c), (c, a)):
            if m[0] == "bin" and m[1] == "Mul":
                for x, N in ((m[2], m[3]), (m[3], m[2])):
                    if square_representable(crate, an, N) and fx.holds(b, lambda rel, x=x, N=N, d=d: rel.lt(x, N) and rel.lt(d, N)):
                        return True
    if op in ("Add",):
        # x + k does not overflow when x < y for some y (x <= MAX-1) and k == 1;
        # more generally when both operands are bounded by values whose sum is representable
        for x, k in ((a, c), (c, a)):
            if k[0] == "const" and isinstance(k[2], int) and k[2] == 1:
                if fx.holds(b, lambda rel, x=x: any(rel.lt(x, y) for y in rel.universe((x,)) if y != x)):
                    return True
        return False
    if op == "Sub":
        return fx.holds(b, lambda rel: rel.le(c, a))
    if op in ("Shl", "Shr"):
        if c[0] == "const" and isinstance(c[2], int) and 0 <= c[2] < 64:
            return True
        if c[0] == "bin" and c[1] == "BitAnd" and any(x[0] == "const" and isinstance(x[2], int) and 0 <= x[2] < 64 for x in (c[2], c[3])):
            return True
        return False
    if op == "Mul":
        # L-ROWMAJOR: a * N with a < N does not overflow when N * N is representable
        for x, N in ((a, c), (c, a)):
            if square_representable(crate, an, N) and fx.holds(b, lambda rel, x=x, N=N: rel.le(x, N)):
                return True
        return False
    return False


def square_representable(crate, an, N):
    """N is the `order`-like scalar field of a struct every value of which was constructed with a
    checked N * N (its length template contains the checked square of that field)"""
    from .mem import sq_of
    if not (N[0] == "mem" and N[3] is None):
        return False
    ri = an.region_info.get(N[1])
    if not ri or not ri["chain"] or len(ri["chain"]) != 1:
        return False
    S, G = ri["chain"][0]
    if S not in crate.prog.adts:
        return False
    for (fp, g, kind, tmpl) in crate.inv.len_templates(S):
        if g == G and kind == "scalar" and _has_sq_hole(tmpl):
            return True
    return False


def _has_sq_hole(t):
    from .mem import sq_of
    if not isinstance(t, tuple) or not t:
        return False
    if sq_of(t) == ("HOLE",):
        return True
    return any(_has_sq_hole(x) for x in t if isinstance(x, tuple))


def always_variant(crate, an, fx, X, want):
    """X is the result of a crate function that only ever returns `want`"""
    if X[0] == "site":
        ev = fx.an_call_at(X[1])
        if ev is None or ev["fn"] is None:
            return False
        fn = ev["fn"]
        target = fn.get("resolved") or fn["path"]
        return always_returns(crate, target, want)
    return False


def always_returns(crate, fpath, want):
    _always = crate.__dict__.setdefault("_always_cache", {})
    key = (fpath, want)
    if key in _always:
        return _always[key]
    res = False
    if fpath in crate.prog.fns:
        an = crate.an(fpath)
        vals = []
        for (b, i), t in an.stmt_terms.items():
            st = an.blocks[b]["stmts"][i]
            if st["place"]["local"] == 0 and not st["place"]["proj"]:
                vals.append(t)
        res = bool(vals) and all(t[0] == "agg" and t[1] == "adt" and t[2][1] == want for t in vals)
        # the return place must not be written by a call
        for ev in an.events:
            if ev["k"] == "call":
                d = an.blocks[ev["b"]]["term"]["dest"]
                if d["local"] == 0:
                    res = False
    _always[key] = res
    return res
