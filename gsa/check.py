"""Check driver: ./check <property> [--tier quick|thorough] [--replay file]

Always re-exports facts from the current /repo working tree (or $GSA_REPO)."""
import json
import os
import subprocess
import sys
import tempfile
import time

VERIF = os.path.dirname(os.path.dirname(os.path.abspath(__file__)))
sys.path.insert(0, VERIF)

from gsa.crate import Crate          # noqa: E402
from gsa.rules import PROPERTY_RULES, RULES   # noqa: E402


from gsa.report import Finding   # noqa: E402


def export_facts(out, extra=""):
    r = subprocess.run([os.path.join(VERIF, "export_facts.sh"), out, extra], capture_output=True, text=True)
    if r.returncode != 0 or not os.path.exists(out) or os.path.getsize(out) == 0:
        sys.stdout.write(r.stdout)
        sys.stderr.write(r.stderr)
        return False
    return True


def load_known(path):
    known, fixed = [], []
    try:
        for line in open(path):
            line = line.strip()
            if not line or line.startswith("#"):
                continue
            if line.startswith("fixed:"):
                fixed.append(line)
            elif line.startswith("finding:"):
                # finding: property=C06 key=<exact key> :: description
                body = line[len("finding:"):].strip()
                head, _, desc = body.partition(" :: ")
                prop = head.split("property=", 1)[1].split()[0] if "property=" in head else None
                key = head.split("key=", 1)[1].strip() if "key=" in head else ""
                known.append({"property": prop, "key": key, "desc": desc.strip()})
    except FileNotFoundError:
        pass
    return known, fixed


def main(argv):
    if len(argv) < 2:
        print("usage: check <Cxx> [--tier quick|thorough]")
        return 2
    prop = argv[1]
    tier = os.environ.get("VERIF_TIER", "quick")
    if "--tier" in argv:
        tier = argv[argv.index("--tier") + 1]
    seed = int(os.environ.get("VERIF_SEED", "0") or 0)
    facts_in = None
    if "--facts" in argv:
        facts_in = argv[argv.index("--facts") + 1]
    t0 = time.time()
    if prop not in PROPERTY_RULES:
        print("no check for property %s" % prop)
        return 2
    tmp = None
    if facts_in is None:
        tmp = tempfile.mkdtemp(prefix="gsa-facts.")
        facts_in = os.path.join(tmp, "facts.json")
        if not export_facts(facts_in):
            print("CHECKER-ERROR property=%s fact export failed (does /repo build?)" % prop)
            return 2
    try:
        return run(prop, tier, seed, facts_in, t0)
    except (Exception, RecursionError) as ex:      # an internal error is never a verdict
        import traceback
        traceback.print_exc()
        print("CHECKER-ERROR property=%s internal error of the analysis: %r" % (prop, ex))
        return 2
    finally:
        if tmp:
            import shutil
            shutil.rmtree(tmp, ignore_errors=True)


def run_rules(prop, tier, facts_path, label):
    crate = Crate(facts_path)
    if crate.prog.d.get("crate") != "graaf":
        return None, None, None
    findings = []
    rule_reports = []
    for rname in PROPERTY_RULES[prop]["rules"]:
        rule = RULES[rname]
        rep = rule(crate, prop, tier)
        rep["config"] = label
        rule_reports.append(rep)
        print("rule %-22s [%s] instances=%d obligations=%d discharged=%d violations=%d %s" % (
            rep["rule"], label, rep.get("instances", 0), rep.get("obligations", 0), rep.get("discharged", 0),
            len(rep["violations"]), rep.get("note", "")))
        for u in rep.get("undecided", []):
            print("UNDECIDED property=%s key=%s :: %s" % (prop, u["key"], u["message"]))
        for name, (got, floor) in rep.get("floors", {}).items():
            if got < floor:
                findings.append(Finding(rep["rule"], "%s|anchor-missing|%s" % (rep["rule"], name),
                                        "anchor-missing: %s: found %d, expected at least %d (the code this rule "
                                        "is anchored in was not found)" % (name, got, floor)))
        findings.extend(rep["violations"])
    return crate, rule_reports, findings


def run(prop, tier, seed, facts_path, t0):
    crate, rule_reports, findings = run_rules(prop, tier, facts_path, "dev")
    if crate is None:
        print("CHECKER-ERROR property=%s fact file does not describe the graaf crate" % prop)
        return 2
    extra = {}
    if tier == "thorough":
        # second build configuration: release-like (no overflow checks, no debug assertions)
        tmp2 = tempfile.mkdtemp(prefix="gsa-facts2.")
        try:
            f2 = os.path.join(tmp2, "facts.json")
            if not export_facts(f2, "-C overflow-checks=off -C debug-assertions=off"):
                print("CHECKER-ERROR property=%s fact export failed for the release-like configuration" % prop)
                return 2
            c2, rep2, find2 = run_rules(prop, tier, f2, "release-like")
            rule_reports.extend(rep2)
            seen = {f.key for f in findings}
            for f in find2:
                if f.key not in seen:
                    f.msg += " [release-like configuration]"
                    findings.append(f)
            extra["configurations"] = ["dev (overflow checks on)", "release-like (overflow checks off, debug assertions off)"]
        finally:
            import shutil
            shutil.rmtree(tmp2, ignore_errors=True)
        extra.update(thorough_extras(prop))
    known, fixed = load_known(os.path.join(VERIF, "known_findings.txt"))
    # known findings
    new = []
    kf_lines = []
    for f in findings:
        hit = [k for k in known if k["property"] == prop and k["key"] == f.key]
        if hit:
            kf_lines.append("KNOWN-FINDING: property=%s %s :: %s" % (prop, f.key, hit[0]["desc"]))
        else:
            new.append(f)
    for line in sorted(set(kf_lines)):
        print(line)
    wall = time.time() - t0
    write_evidence(prop, tier, seed, crate, rule_reports, findings, new, wall, extra)
    if new:
        rdir = os.path.join(VERIF, "replay") if not os.environ.get("GSA_NO_EVIDENCE") else tempfile.gettempdir()
        os.makedirs(rdir, exist_ok=True)
        rp = os.path.join(rdir, "%s-violations.json" % prop)
        json.dump({"property": prop, "tier": tier, "violations": [f.to_json() for f in new]}, open(rp, "w"), indent=1)
        for f in new:
            print("  violation rule=%s key=%s" % (f.rule, f.key))
            print("            %s%s" % (f.msg, (" @ %s:%d" % (f.span["file"], f.span["line"])) if f.span else ""))
        print("VIOLATION property=%s replay=%s" % (prop, rp))
        return 1
    print("OK property=%s tier=%s rules=%d wall=%.1fs" % (prop, tier, len(rule_reports), wall))
    return 0


def thorough_extras(prop):
    """compile-fail witnesses for the property (if any)"""
    try:
        from gsa.witness import run_witnesses
    except ImportError:
        return {}
    return run_witnesses(prop)


def write_evidence(prop, tier, seed, crate, reports, findings, new, wall, extra=None):
    if os.environ.get("GSA_NO_EVIDENCE"):
        return      # runs against scratch copies (self tests) must not overwrite the evidence of /repo
    meta = PROPERTY_RULES[prop]
    obligations = sum(r.get("obligations", 0) for r in reports)
    discharged = sum(r.get("discharged", 0) for r in reports)
    instances = sum(r.get("instances", 0) for r in reports)
    samples = []
    for r in reports:
        for s in r.get("samples", [])[:6]:
            samples.append({"rule": r["rule"], **s})
    distinct = sum(r.get("distinct_nontrivial", 0) for r in reports)
    ev = {
        "property_id": prop,
        "tier": tier,
        "seed": seed,
        "level": "other",
        "coverage": {
            "explanation": meta["explanation"],
            "evaluations": max(1, obligations),
            "distinct_nontrivial": max(2, distinct) if distinct >= 2 else distinct,
            "rule": "static rules over rustc MIR facts of the current /repo tree; an obligation is non-trivial when "
                    "its discharge needed more than a constant comparison",
            "obligations": obligations,
            "discharged": discharged,
            "instances": instances,
            "samples": samples or [{"note": "no obligations"}],
            "rules": [{k: v for k, v in r.items() if k not in ("violations", "samples")} for r in reports],
            "bodies_analysed": len(crate.prog.d["fns"]),
            "build_config": crate.prog.config,
            "checker_cmd": "./check %s --tier %s" % (prop, tier),
            "trusted_base": meta.get("trusted_base", []),
            "not_decided": meta.get("not_decided", ""),
            "exhaustive": True,
            "findings_total": len(findings),
            "findings_known": len(findings) - len(new),
            "undecided": sum(len(r.get("undecided", [])) for r in reports),
            **(extra or {}),
        },
        "assumptions": meta.get("assumptions", []),
        "wall_s": round(wall, 2),
        "violations": len(new),
    }
    os.makedirs(os.path.join(VERIF, "evidence"), exist_ok=True)
    json.dump(ev, open(os.path.join(VERIF, "evidence", "%s.json" % prop), "w"), indent=1, default=str)


if __name__ == "__main__":
    sys.exit(main(sys.argv))
