"""Control-flow graph, dominators, post-dominators and natural loops of one
exported MIR body (normal edges only; unwind/cleanup blocks are ignored)."""


class Cfg:
    def __init__(self, f):
        self.f = f
        blocks = f["blocks"]
        n = len(blocks)
        self.n = n
        dead = set()
        for i, b in enumerate(blocks):
            if b["cleanup"]:
                dead.add(i)
            elif b["term"]["k"] == "unreachable" and not b["stmts"]:
                dead.add(i)
        self.dead = dead
        self.succ = [[] for _ in range(n)]   # list of (target, label)
        for i, b in enumerate(blocks):
            if i in dead:
                continue
            t = b["term"]
            k = t["k"]
            out = []
            if k == "goto":
                out.append((t["target"], ("goto",)))
            elif k == "switch":
                for v, tg in t["targets"]:
                    out.append((tg, ("sw", v)))
                out.append((t["otherwise"], ("sw_other", tuple(v for v, _ in t["targets"]))))
            elif k == "call":
                if t["target"] is not None:
                    out.append((t["target"], ("ret",)))
            elif k == "assert":
                out.append((t["target"], ("ok",)))
            elif k == "drop":
                out.append((t["target"], ("drop",)))
            self.succ[i] = [(tg, lab) for tg, lab in out if tg not in dead]
        # reachability from entry
        seen = set()
        order = []
        stack = [(0, iter(self.succ[0]))]
        seen.add(0)
        while stack:
            node, it = stack[-1]
            adv = False
            for tg, _ in it:
                if tg not in seen:
                    seen.add(tg)
                    stack.append((tg, iter(self.succ[tg])))
                    adv = True
                    break
            if not adv:
                order.append(node)
                stack.pop()
        self.reach = seen
        self.rpo = list(reversed(order))
        self.rpo_idx = {b: i for i, b in enumerate(self.rpo)}
        self.pred = [[] for _ in range(n)]
        for b in self.rpo:
            for tg, lab in self.succ[b]:
                self.pred[tg].append((b, lab))
        self.idom = self._dominators(self.rpo, lambda b: [p for p, _ in self.pred[b]], 0)
        self._dom_depth = {}
        # dominator tree children
        self.dom_children = {b: [] for b in self.rpo}
        for b in self.rpo:
            if b != 0:
                self.dom_children[self.idom[b]].append(b)
        self._compute_df()
        self._compute_loops()
        self._compute_postdom()

    # -- dominators (Cooper/Harvey/Kennedy) --------------------------------
    @staticmethod
    def _dominators(rpo, preds, entry):
        idx = {b: i for i, b in enumerate(rpo)}
        idom = {entry: entry}
        changed = True
        while changed:
            changed = False
            for b in rpo:
                if b == entry:
                    continue
                new = None
                for p in preds(b):
                    if p not in idom or p not in idx:
                        continue
                    if new is None:
                        new = p
                    else:
                        a, c = p, new
                        while a != c:
                            while idx[a] > idx[c]:
                                a = idom[a]
                            while idx[c] > idx[a]:
                                c = idom[c]
                        new = a
                if new is not None and idom.get(b) != new:
                    idom[b] = new
                    changed = True
        return idom

    def dominates(self, a, b):
        """block a dominates block b (reflexive)."""
        if a not in self.reach or b not in self.reach:
            return False
        while True:
            if a == b:
                return True
            if b == 0:
                return False
            b = self.idom[b]

    def _compute_df(self):
        df = {b: set() for b in self.rpo}
        for b in self.rpo:
            ps = [p for p, _ in self.pred[b]]
            if len(ps) >= 2:
                for p in ps:
                    r = p
                    while r != self.idom[b]:
                        df[r].add(b)
                        r = self.idom[r]
        self.df = df

    def _compute_loops(self):
        # natural loops from back edges (target dominates source)
        self.back_edges = []
        loops = {}
        for b in self.rpo:
            for tg, _ in self.succ[b]:
                if self.dominates(tg, b):
                    self.back_edges.append((b, tg))
                    body = loops.setdefault(tg, {tg})
                    stack = [b]
                    while stack:
                        x = stack.pop()
                        if x not in body:
                            body.add(x)
                            stack.extend(p for p, _ in self.pred[x])
        self.loops = loops  # header -> set(blocks)

    def loop_of(self, b):
        """innermost loop header containing b, or None."""
        best = None
        for h, body in self.loops.items():
            if b in body:
                if best is None or len(body) < len(self.loops[best]):
                    best = h
        return best

    def loops_containing(self, b):
        return sorted([h for h, body in self.loops.items() if b in body],
                      key=lambda h: len(self.loops[h]))

    def _compute_postdom(self):
        # post-dominators w.r.t. normal return: virtual exit = -1
        rets = [b for b in self.rpo if self.f["blocks"][b]["term"]["k"] == "return"]
        self.returns = rets
        nodes = set()
        stack = list(rets)
        while stack:
            x = stack.pop()
            if x in nodes:
                continue
            nodes.add(x)
            stack.extend(p for p, _ in self.pred[x])
        self.can_return = nodes
        EXIT = -1
        rsucc = {EXIT: rets}
        for b in nodes:
            rsucc[b] = [p for p, _ in self.pred[b] if p in nodes]
        # reverse postorder on the reverse graph
        seen = {EXIT}
        order = []
        stack = [(EXIT, iter(rsucc[EXIT]))]
        while stack:
            node, it = stack[-1]
            adv = False
            for tg in it:
                if tg not in seen:
                    seen.add(tg)
                    stack.append((tg, iter(rsucc[tg])))
                    adv = True
                    break
            if not adv:
                order.append(node)
                stack.pop()
        rrpo = list(reversed(order))

        def rpreds(b):
            if b == EXIT:
                return []
            out = [tg for tg, _ in self.succ[b] if tg in nodes]
            if b in rets:
                out.append(EXIT)
            return out
        self.ipdom = self._dominators(rrpo, rpreds, EXIT)

    def postdominates(self, a, b):
        """a post-dominates b on paths to a normal return."""
        if b not in self.can_return or a not in self.can_return:
            return False
        while True:
            if a == b:
                return True
            if b == -1:
                return False
            nb = self.ipdom.get(b)
            if nb is None or nb == b:
                return False
            b = nb

    def reachable_from(self, start, avoid=()):
        """blocks reachable from block `start` (inclusive) without entering `avoid`."""
        seen = set()
        stack = [start]
        while stack:
            x = stack.pop()
            if x in seen or x in avoid:
                continue
            seen.add(x)
            stack.extend(tg for tg, _ in self.succ[x])
        return seen
