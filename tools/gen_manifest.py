#!/usr/bin/env python3
"""Regenerate /verif/MANIFEST.json from the rule registry (gsa/rules.py)."""
import json, os, sys
sys.path.insert(0, os.path.dirname(os.path.dirname(os.path.abspath(__file__))))
from gsa.rules import PROPERTY_RULES

NA = {
    "C09": "Tarjan: the property is the equality of a computed partition with the reachability equivalence; its mechanism is "
           "index/low-link bookkeeping over maps, a value-level inductive argument with no structural necessary condition "
           "that wrong variants do not also satisfy. Static analysis in reach cannot decide it; its memory behaviour (no "
           "unsafe code) is covered under C13.",
    "C10": "Johnson75: completeness and uniqueness of a circuit enumeration depend on the blocked-set / B-list dynamics; "
           "nothing in the shape of the code separates right from wrong. Its B-list indexing (defect F9, repaired) is covered "
           "under C13.",
}
TECH = {
    "C01": "dominance/fact analysis of insertion guards over MIR (GUARD, NOPANIC-AFTER-WRITE, TOTAL, ENCAPS) + crate-wide "
           "bit-matrix write discipline (BITS)",
    "C02": "effect/purity analysis, panic-site discharge, id-source taint and truth-table comparison of derived queries with "
           "their definitions over MIR (PURE, TOTAL, IDSRC, DEFN) + bit-matrix read discipline (BITS)",
    "C03": "typestate/schema conformance of the lazy-deletion Dijkstra iterator over MIR dominance + must-facts",
    "C04": "schema conformance of the BFS iterator over MIR dominance + must-facts",
    "C05": "schema conformance of the predecessor iterators and shortest_path over MIR dominance + must-facts",
    "C06": "schema conformance of the stack-DFS iterators over MIR dominance + must-facts (EXHAUST known finding)",
    "C07": "relaxation-unit guard dominance over MIR + exhaustive evaluation of the extracted round-counter skeleton "
           "(ARC-COVERAGE) + flag dataflow",
    "C08": "loop-nesting / guard dominance of the Floyd-Warshall update (incl. no pruning test on the way to it) and row-major "
           "layout agreement over MIR",
    "C11": "purity, id-source taint, worker-thread structure analysis and bit-matrix write discipline (cell-wise, or word-OR "
           "under a dominating equal-order check) over MIR",
    "C12": "id-source taint, monotone-flag, unsafe-obligation analysis and truth-table comparison of predicate closures with "
           "their definitions, single-cell bit-read discipline over MIR",
    "C13": "unsafe-operation inventory with bounds/initialisation obligations discharged by dominance facts, struct/worklist "
           "invariants, contiguity contract and closure-capture import; leak-source pairing",
    "C14": "must-pass-through admissibility analysis of generator returns + worker-thread structure + bit-matrix write "
           "discipline + exact (non-wrapping) id arithmetic over MIR",
    "C15": "nondeterminism-source scan, seed taint, admissibility must-pass, one-insertion-per-branch analysis and integer "
           "interval arithmetic on next_f64's constants, seed-arithmetic totality (no overflow assert on seed-derived values) over MIR",
    "C16": "shape validation of From impls (guarded insertion / validate-before-return / running maximum) over MIR",
    "C17": "join/ownership/partition-template analysis of worker threads, path rule `a failed pair test is published before the "
           "next one` with constant propagation, over MIR + seed taint",
    "C18": "layout agreement (row-major index, chunks(order), checked square, initialising loop) + full-scan dataflow of "
           "eccentricities/diameter/is_connected (no restricting adaptor or sub-slice) + argmin-scan shape of center / selection "
           "shape of periphery over MIR",
    "C19": "loop-progress (mark-before-continue) analysis + panic-site and unsafe-obligation discharge + delegation check "
           "of search over MIR",
    "C20": "field-coverage / field-wise analysis of comparison, hash and clone impls, ownership of field types, canonical "
           "length template of the bit matrix over all construction sites",
}

checks = []
for pid in sorted(PROPERTY_RULES):
    m = PROPERTY_RULES[pid]
    checks.append({
        "property_id": pid,
        "quick_cmd": "./check %s --tier quick" % pid,
        "thorough_cmd": "./check %s --tier thorough" % pid,
        "evidence_file": "/verif/evidence/%s.json" % pid,
        "replay_cmd_template": "./check %s --tier quick" % pid,
        "engine": "gsa",
        "level_claimed": {
            "category": "other",
            "text": "Static analysis of the type-checked program (rustc MIR) of the current tree: the named structural clauses are "
                    "decided on every path of every function they are anchored in, for all inputs; the behavioural remainder of "
                    "the property is not decided. " + m["explanation"],
            "design_ref": "DESIGN.md §3, §4 (%s)" % pid,
        },
        "level_note": "Decides: rules %s. Not decided: %s. Trusted base: %s." % (
            ", ".join(m["rules"]), m.get("not_decided", "-"), "; ".join(m.get("trusted_base", []))),
        "technique": TECH[pid],
    })

manifest = {
    "version": 1,
    "setup_cmd": "cd /verif/driver && CARGO_NET_OFFLINE=true cargo build --release --offline",
    "hooks": {
        "guard": "bsdrks_graaf_verif",
        "enable": "no hooks are compiled into /repo: the checks read rustc's MIR of the unmodified library target "
                  "(cargo +nightly check under RUSTC_WORKSPACE_WRAPPER=/verif/driver/target/release/gsa-driver)",
        "baseline_off_cmd": "cd /repo && cargo test --workspace --no-fail-fast --offline",
        "source_commits": [],
        "add_only": True,
    },
    "engines": [
        {"name": "gsa-driver", "path": "/verif/driver", "serves_properties": sorted(PROPERTY_RULES),
         "kind_free_text": "rustc_private driver exporting MIR, types, impls and trait-solver facts as JSON"},
        {"name": "gsa", "path": "/verif/gsa", "serves_properties": sorted(PROPERTY_RULES),
         "kind_free_text": "Python rule engines: CFG/dominators, regions + points-to, SSA terms, must-facts, invariants, rules"},
    ],
    "checks": checks,
    "not_applicable": [{"property_id": k, "reason": v} for k, v in sorted(NA.items())],
    "notes": "Technique family: static analysis only. Genuine defects found and repaired are listed in known_findings.txt "
             "(fixed: lines) with their /repo commits; F2 (DFS) is a recorded known finding. See DESIGN.md.",
}
json.dump(manifest, open(os.path.join(os.path.dirname(os.path.dirname(os.path.abspath(__file__))), "MANIFEST.json"), "w"), indent=1)
print("MANIFEST.json written: %d checks, %d not applicable" % (len(checks), len(NA)))
