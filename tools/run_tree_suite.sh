#!/bin/bash
# usage: run_tree_suite.sh <worktree> [props...]  -- run checks against a scratch tree, print verdict per property
T="$1"; shift
PROPS="${@:-C01 C02 C03 C04 C05 C06 C07 C08 C11 C12 C13 C14 C15 C16 C17 C18 C19 C20}"
F=$(mktemp /tmp/facts-tree.XXXXXX.json)
GSA_REPO="$T" /verif/export_facts.sh "$F" || { echo "export failed"; exit 3; }
for p in $PROPS; do
  out=$(cd /verif && GSA_REPO="$T" GSA_NO_EVIDENCE=1 ./check $p --facts "$F" 2>&1); rc=$?
  echo "$p exit=$rc"
  if [ $rc -ne 0 ]; then echo "$out" | grep -v "^rule\|^OK" | head -40; fi
done
rm -f "$F"
