//! gsa-driver: exports type-checked MIR facts of one crate as JSON.
//!
//! Used as RUSTC_WORKSPACE_WRAPPER under `cargo +nightly check`. For the crate
//! named by GSA_CRATE (default "graaf") it writes GSA_OUT (one JSON document).
//! It never runs the analysed code; it only reads rustc's tables.
#![feature(rustc_private)]
#![allow(clippy::all)]

extern crate rustc_abi;
extern crate rustc_driver;
extern crate rustc_hir;
extern crate rustc_infer;
extern crate rustc_interface;
extern crate rustc_middle;
extern crate rustc_span;
extern crate rustc_trait_selection;

mod json;

use json::J;
use rustc_driver::{Callbacks, Compilation};
use rustc_hir::def::DefKind;
use rustc_hir::def_id::{DefId, LocalDefId, LOCAL_CRATE};
use rustc_infer::infer::TyCtxtInferExt;
use rustc_interface::interface::Compiler;
use rustc_middle::mir::{
    self, AggregateKind, AssertKind, BasicBlockData, Body, Operand, Place,
    ProjectionElem, Rvalue, StatementKind, TerminatorKind,
};
use rustc_middle::ty::{self, Instance, Ty, TyCtxt, TypingEnv};
use rustc_span::{ExpnKind, Span};
use rustc_trait_selection::infer::InferCtxtExt;

struct Cb;

impl Callbacks for Cb {
    fn after_analysis<'tcx>(
        &mut self,
        _c: &Compiler,
        tcx: TyCtxt<'tcx>,
    ) -> Compilation {
        let want =
            std::env::var("GSA_CRATE").unwrap_or_else(|_| "graaf".to_string());
        let name = tcx.crate_name(LOCAL_CRATE);
        if name.as_str() == want {
            if let Ok(out) = std::env::var("GSA_OUT") {
                let doc = export(tcx);
                let mut s = String::with_capacity(1 << 24);
                doc.write(&mut s);
                std::fs::write(&out, s).expect("gsa-driver: cannot write GSA_OUT");
            }
        }
        Compilation::Continue
    }
}

fn main() {
    let argv: Vec<String> = std::env::args().collect();
    // RUSTC_WORKSPACE_WRAPPER: argv[1] is the path of the real rustc.
    let mut args = vec!["rustc".to_string()];
    args.extend(argv.iter().skip(2).cloned());
    rustc_driver::run_compiler(&args, &mut Cb);
}

// ---------------------------------------------------------------------------

fn span_j(tcx: TyCtxt<'_>, span: Span) -> J {
    let sm = tcx.sess.source_map();
    let call = span.source_callsite();
    let lo = sm.lookup_char_pos(call.lo());
    let hi = sm.lookup_char_pos(call.hi());
    let file = format!("{}", lo.file.name.prefer_local_unconditionally());
    let mut exp = Vec::new();
    if span.from_expansion() {
        for d in span.macro_backtrace() {
            match d.kind {
                ExpnKind::Macro(_, name) => {
                    exp.push(J::s(format!("macro:{}", name)))
                }
                ExpnKind::Desugaring(k) => {
                    exp.push(J::s(format!("desugar:{:?}", k)))
                }
                ExpnKind::AstPass(k) => {
                    exp.push(J::s(format!("astpass:{:?}", k)))
                }
                ExpnKind::Root => {}
            }
        }
    }
    J::obj(vec![
        ("file", J::s(file)),
        ("line", J::n(lo.line as i128)),
        ("col", J::n(lo.col.0 as i128)),
        ("eline", J::n(hi.line as i128)),
        ("ecol", J::n(hi.col.0 as i128)),
        ("exp", J::Arr(exp)),
    ])
}

fn path_of(tcx: TyCtxt<'_>, did: DefId) -> String {
    // Crate-qualified, untrimmed, stable across import changes.
    let krate = tcx.crate_name(did.krate);
    let dp = tcx.def_path(did).to_string_no_crate_verbose();
    format!("{}{}", krate, dp)
}

fn ty_j<'tcx>(tcx: TyCtxt<'tcx>, t: Ty<'tcx>) -> J {
    ty_jd(tcx, t, 0)
}

fn ty_jd<'tcx>(tcx: TyCtxt<'tcx>, t: Ty<'tcx>, depth: usize) -> J {
    let s = J::s(format!("{}", t));
    if depth > 6 {
        return J::obj(vec![("k", J::s("deep")), ("s", s)]);
    }
    let d = depth + 1;
    match *t.kind() {
        ty::Bool => J::obj(vec![("k", J::s("bool")), ("s", s)]),
        ty::Char => J::obj(vec![("k", J::s("char")), ("s", s)]),
        ty::Int(_) | ty::Uint(_) => {
            J::obj(vec![("k", J::s("int")), ("s", s)])
        }
        ty::Float(_) => J::obj(vec![("k", J::s("float")), ("s", s)]),
        ty::Str => J::obj(vec![("k", J::s("str")), ("s", s)]),
        ty::Never => J::obj(vec![("k", J::s("never")), ("s", s)]),
        ty::Adt(def, args) => J::obj(vec![
            ("k", J::s("adt")),
            ("path", J::s(path_of(tcx, def.did()))),
            ("name", J::s(tcx.item_name(def.did()).to_string())),
            (
                "args",
                J::Arr(args.types().map(|a| ty_jd(tcx, a, d)).collect()),
            ),
            ("s", s),
        ]),
        ty::RawPtr(to, m) => J::obj(vec![
            ("k", J::s("rawptr")),
            ("mut", J::Bool(m.is_mut())),
            ("to", ty_jd(tcx, to, d)),
            ("s", s),
        ]),
        ty::Ref(_, to, m) => J::obj(vec![
            ("k", J::s("ref")),
            ("mut", J::Bool(m.is_mut())),
            ("to", ty_jd(tcx, to, d)),
            ("s", s),
        ]),
        ty::Tuple(ts) => J::obj(vec![
            ("k", J::s("tuple")),
            ("elems", J::Arr(ts.iter().map(|a| ty_jd(tcx, a, d)).collect())),
            ("s", s),
        ]),
        ty::Slice(e) => J::obj(vec![
            ("k", J::s("slice")),
            ("elem", ty_jd(tcx, e, d)),
            ("s", s),
        ]),
        ty::Array(e, n) => J::obj(vec![
            ("k", J::s("array")),
            ("elem", ty_jd(tcx, e, d)),
            ("len", J::s(format!("{}", n))),
            ("s", s),
        ]),
        ty::Param(p) => J::obj(vec![
            ("k", J::s("param")),
            ("name", J::s(p.name.to_string())),
            ("s", s),
        ]),
        ty::FnDef(def, args) => J::obj(vec![
            ("k", J::s("fndef")),
            ("path", J::s(path_of(tcx, def))),
            (
                "args",
                J::Arr(args.types().map(|a| ty_jd(tcx, a, d)).collect()),
            ),
            ("s", s),
        ]),
        ty::Closure(def, _) => J::obj(vec![
            ("k", J::s("closure")),
            ("path", J::s(path_of(tcx, def))),
            ("s", s),
        ]),
        ty::FnPtr(..) => J::obj(vec![("k", J::s("fnptr")), ("s", s)]),
        ty::Dynamic(..) => J::obj(vec![("k", J::s("dyn")), ("s", s)]),
        ty::Alias(..) => J::obj(vec![("k", J::s("alias")), ("s", s)]),
        _ => J::obj(vec![("k", J::s("other")), ("s", s)]),
    }
}

struct Cx<'a, 'tcx> {
    tcx: TyCtxt<'tcx>,
    body: &'a Body<'tcx>,
    env: TypingEnv<'tcx>,
}

impl<'a, 'tcx> Cx<'a, 'tcx> {
    fn place(&self, p: &Place<'tcx>) -> J {
        let tcx = self.tcx;
        let mut proj = Vec::new();
        let mut cur = mir::PlaceTy::from_ty(self.body.local_decls[p.local].ty);
        for elem in p.projection.iter() {
            let j = match elem {
                ProjectionElem::Deref => J::obj(vec![("k", J::s("deref"))]),
                ProjectionElem::Field(f, fty) => {
                    let mut name = format!("{}", f.index());
                    if let ty::Adt(def, _) = cur.ty.kind() {
                        let v = match cur.variant_index {
                            Some(v) => Some(v),
                            None if def.is_struct() || def.is_union() => {
                                Some(rustc_abi::FIRST_VARIANT)
                            }
                            None => None,
                        };
                        if let Some(v) = v {
                            let vd = def.variant(v);
                            if f.index() < vd.fields.len() {
                                name = vd.fields[f].name.to_string();
                            }
                        }
                    }
                    J::obj(vec![
                        ("k", J::s("field")),
                        ("idx", J::n(f.index() as i128)),
                        ("name", J::s(name)),
                        ("ty", ty_j(tcx, fty)),
                    ])
                }
                ProjectionElem::Downcast(name, v) => J::obj(vec![
                    ("k", J::s("downcast")),
                    (
                        "variant",
                        J::s(name.map(|n| n.to_string()).unwrap_or_default()),
                    ),
                    ("idx", J::n(v.index() as i128)),
                ]),
                ProjectionElem::Index(l) => J::obj(vec![
                    ("k", J::s("index")),
                    ("local", J::n(l.index() as i128)),
                ]),
                ProjectionElem::ConstantIndex {
                    offset,
                    min_length,
                    from_end,
                } => J::obj(vec![
                    ("k", J::s("constindex")),
                    ("offset", J::n(offset as i128)),
                    ("min_length", J::n(min_length as i128)),
                    ("from_end", J::Bool(from_end)),
                ]),
                ProjectionElem::Subslice { from, to, from_end } => {
                    J::obj(vec![
                        ("k", J::s("subslice")),
                        ("from", J::n(from as i128)),
                        ("to", J::n(to as i128)),
                        ("from_end", J::Bool(from_end)),
                    ])
                }
                other => J::obj(vec![
                    ("k", J::s("otherproj")),
                    ("s", J::s(format!("{:?}", other))),
                ]),
            };
            proj.push(j);
            cur = cur.projection_ty(tcx, elem);
        }
        J::obj(vec![
            ("local", J::n(p.local.index() as i128)),
            ("proj", J::Arr(proj)),
        ])
    }

    fn fn_ref(&self, def: DefId, gargs: ty::GenericArgsRef<'tcx>) -> J {
        let tcx = self.tcx;
        let mut o = vec![
            ("path", J::s(path_of(tcx, def))),
            ("pretty", J::s(tcx.def_path_str_with_args(def, gargs))),
            ("name", J::s(tcx.item_name(def).to_string())),
            ("local", J::Bool(def.is_local())),
            (
                "targs",
                J::Arr(gargs.types().map(|a| ty_j(tcx, a)).collect()),
            ),
        ];
        let dk = tcx.def_kind(def);
        if matches!(dk, DefKind::Fn | DefKind::AssocFn) {
            let sig = tcx.fn_sig(def).skip_binder();
            o.push(("unsafe", J::Bool(sig.safety().is_unsafe())));
        } else {
            o.push(("unsafe", J::Bool(false)));
        }
        o.push(("defkind", J::s(format!("{:?}", dk))));
        if let Some(tr) = tcx.trait_of_assoc(def) {
            o.push(("trait", J::s(path_of(tcx, tr))));
        }
        if let Some(im) = tcx.impl_of_assoc(def) {
            let st = tcx.type_of(im).instantiate_identity().skip_norm_wip();
            o.push(("impl_self", ty_j(tcx, st)));
            if let Some(tr) = tcx.impl_opt_trait_ref(im) {
                let tr = tr.instantiate_identity().skip_norm_wip();
                o.push(("impl_trait", J::s(path_of(tcx, tr.def_id))));
            }
        }
        // Resolve trait calls where the receiver type is known.
        if matches!(dk, DefKind::Fn | DefKind::AssocFn) {
            if let Ok(Some(inst)) =
                Instance::try_resolve(tcx, self.env, def, gargs)
            {
                let rd = inst.def_id();
                if rd != def {
                    o.push(("resolved", J::s(path_of(tcx, rd))));
                    o.push((
                        "resolved_pretty",
                        J::s(tcx.def_path_str_with_args(rd, inst.args)),
                    ));
                    o.push(("resolved_local", J::Bool(rd.is_local())));
                }
            }
        }
        J::obj(o)
    }

    fn operand(&self, op: &Operand<'tcx>) -> J {
        let tcx = self.tcx;
        match op {
            Operand::Copy(p) => {
                J::obj(vec![("k", J::s("copy")), ("place", self.place(p))])
            }
            Operand::Move(p) => {
                J::obj(vec![("k", J::s("move")), ("place", self.place(p))])
            }
            Operand::Constant(c) => {
                let t = c.const_.ty();
                let mut o = vec![
                    ("k", J::s("const")),
                    ("ty", ty_j(tcx, t)),
                    ("s", J::s(format!("{}", c.const_))),
                ];
                match *t.kind() {
                    ty::FnDef(def, gargs) => {
                        o.push(("fn", self.fn_ref(def, gargs)));
                    }
                    ty::Closure(def, _) => {
                        o.push(("closure", J::s(path_of(tcx, def))));
                    }
                    ty::Bool
                    | ty::Char
                    | ty::Int(_)
                    | ty::Uint(_)
                    | ty::Float(_) => {
                        if let Some(si) =
                            c.const_.try_eval_scalar_int(tcx, self.env)
                        {
                            let sz = si.size();
                            let bits = si.to_bits(sz);
                            o.push(("bits", J::s(format!("{}", bits))));
                            o.push(("size", J::n(sz.bytes() as i128)));
                            if let ty::Int(_) = t.kind() {
                                let v = sz.sign_extend(bits);
                                o.push(("int", J::s(format!("{}", v))));
                            } else if !matches!(t.kind(), ty::Float(_)) {
                                o.push(("int", J::s(format!("{}", bits))));
                            }
                        }
                    }
                    ty::Ref(_, inner, _)
                        if matches!(
                            inner.kind(),
                            ty::Bool | ty::Int(_) | ty::Uint(_)
                        ) =>
                    {
                        // `&<literal>` promoted to a constant: read the
                        // literal from the promoted body `_1 = const X;
                        // _0 = &_1`.
                        if let mir::Const::Unevaluated(uv, _) = c.const_ {
                            if let Some(pi) = uv.promoted {
                                let bodies = tcx.promoted_mir(uv.def);
                                if let Some(pb) = bodies.get(pi) {
                                    let mut lit = None;
                                    let mut n = 0;
                                    for bb in pb.basic_blocks.iter() {
                                        for st in bb.statements.iter() {
                                            if let StatementKind::Assign(bx) =
                                                &st.kind
                                            {
                                                n += 1;
                                                if let Rvalue::Use(
                                                    Operand::Constant(ic),
                                                    ..,
                                                ) = &bx.1
                                                {
                                                    if let Some(si) = ic
                                                        .const_
                                                        .try_eval_scalar_int(
                                                            tcx, self.env,
                                                        )
                                                    {
                                                        lit = Some((
                                                            si,
                                                            ic.const_.ty(),
                                                        ));
                                                    }
                                                }
                                            }
                                        }
                                    }
                                    if let (Some((si, lt)), true) =
                                        (lit, n <= 2)
                                    {
                                        let sz = si.size();
                                        let bits = si.to_bits(sz);
                                        let v = if let ty::Int(_) = lt.kind()
                                        {
                                            format!(
                                                "{}",
                                                sz.sign_extend(bits)
                                            )
                                        } else {
                                            format!("{}", bits)
                                        };
                                        o.push(("ref_int", J::s(v)));
                                        o.push((
                                            "ref_ty",
                                            ty_j(tcx, lt),
                                        ));
                                    }
                                }
                            }
                        }
                    }
                    _ => {}
                }
                J::obj(o)
            }
            #[allow(unreachable_patterns)]
            other => J::obj(vec![
                ("k", J::s("otherop")),
                ("s", J::s(format!("{:?}", other))),
            ]),
        }
    }

    fn rvalue(&self, rv: &Rvalue<'tcx>) -> J {
        let tcx = self.tcx;
        match rv {
            Rvalue::Use(op, ..) => {
                J::obj(vec![("k", J::s("use")), ("op", self.operand(op))])
            }
            Rvalue::CopyForDeref(p) => J::obj(vec![
                ("k", J::s("use")),
                (
                    "op",
                    J::obj(vec![("k", J::s("copy")), ("place", self.place(p))]),
                ),
            ]),
            Rvalue::Repeat(op, n) => J::obj(vec![
                ("k", J::s("repeat")),
                ("op", self.operand(op)),
                ("n", J::s(format!("{}", n))),
            ]),
            Rvalue::Ref(_, bk, p) => J::obj(vec![
                ("k", J::s("ref")),
                ("mut", J::Bool(matches!(bk, mir::BorrowKind::Mut { .. }))),
                ("place", self.place(p)),
            ]),
            Rvalue::RawPtr(kind, p) => J::obj(vec![
                ("k", J::s("rawptr")),
                ("mut", J::Bool(format!("{:?}", kind).contains("Mut"))),
                ("place", self.place(p)),
            ]),
            Rvalue::Cast(kind, op, t) => J::obj(vec![
                ("k", J::s("cast")),
                ("kind", J::s(format!("{:?}", kind))),
                ("op", self.operand(op)),
                ("ty", ty_j(tcx, *t)),
            ]),
            Rvalue::BinaryOp(op, ab) => J::obj(vec![
                ("k", J::s("binop")),
                ("op", J::s(format!("{:?}", op))),
                ("a", self.operand(&ab.0)),
                ("b", self.operand(&ab.1)),
            ]),
            Rvalue::UnaryOp(op, a) => J::obj(vec![
                ("k", J::s("unop")),
                ("op", J::s(format!("{:?}", op))),
                ("a", self.operand(a)),
            ]),
            Rvalue::Discriminant(p) => J::obj(vec![
                ("k", J::s("discriminant")),
                ("place", self.place(p)),
            ]),
            Rvalue::Aggregate(kind, ops) => {
                let mut o = vec![("k", J::s("aggregate"))];
                match &**kind {
                    AggregateKind::Tuple => o.push(("agg", J::s("tuple"))),
                    AggregateKind::Array(_) => o.push(("agg", J::s("array"))),
                    AggregateKind::Adt(did, vidx, _, _, _) => {
                        o.push(("agg", J::s("adt")));
                        o.push(("path", J::s(path_of(tcx, *did))));
                        let def = tcx.adt_def(*did);
                        let vd = def.variant(*vidx);
                        o.push(("variant", J::s(vd.name.to_string())));
                        o.push(("vidx", J::n(vidx.index() as i128)));
                        o.push((
                            "fields",
                            J::Arr(
                                vd.fields
                                    .iter()
                                    .map(|f| J::s(f.name.to_string()))
                                    .collect(),
                            ),
                        ));
                    }
                    AggregateKind::Closure(did, _) => {
                        o.push(("agg", J::s("closure")));
                        o.push(("path", J::s(path_of(tcx, *did))));
                    }
                    AggregateKind::RawPtr(..) => {
                        o.push(("agg", J::s("rawptr")))
                    }
                    other => {
                        o.push(("agg", J::s("other")));
                        o.push(("s", J::s(format!("{:?}", other))));
                    }
                }
                o.push((
                    "ops",
                    J::Arr(ops.iter().map(|x| self.operand(x)).collect()),
                ));
                J::obj(o)
            }
            Rvalue::ThreadLocalRef(d) => J::obj(vec![
                ("k", J::s("threadlocal")),
                ("path", J::s(path_of(tcx, *d))),
            ]),
            other => J::obj(vec![
                ("k", J::s("other")),
                ("s", J::s(format!("{:?}", other))),
            ]),
        }
    }

    fn block(&self, bb: &BasicBlockData<'tcx>) -> J {
        let tcx = self.tcx;
        let mut stmts = Vec::new();
        for st in &bb.statements {
            let sp = span_j(tcx, st.source_info.span);
            match &st.kind {
                StatementKind::Assign(b) => {
                    let (p, rv) = &**b;
                    stmts.push(J::obj(vec![
                        ("k", J::s("assign")),
                        ("place", self.place(p)),
                        ("rv", self.rvalue(rv)),
                        ("span", sp),
                    ]));
                }
                StatementKind::SetDiscriminant {
                    place,
                    variant_index,
                } => {
                    stmts.push(J::obj(vec![
                        ("k", J::s("setdiscr")),
                        ("place", self.place(place)),
                        ("vidx", J::n(variant_index.index() as i128)),
                        ("span", sp),
                    ]));
                }
                StatementKind::StorageLive(_)
                | StatementKind::StorageDead(_)
                | StatementKind::Nop
                | StatementKind::FakeRead(..)
                | StatementKind::PlaceMention(..)
                | StatementKind::AscribeUserType(..)
                | StatementKind::Coverage(..)
                | StatementKind::ConstEvalCounter => {}
                other => {
                    stmts.push(J::obj(vec![
                        ("k", J::s("otherstmt")),
                        ("s", J::s(format!("{:?}", other))),
                        ("span", sp),
                    ]));
                }
            }
        }
        let term = bb.terminator();
        let sp = span_j(tcx, term.source_info.span);
        let t = match &term.kind {
            TerminatorKind::Goto { target } => J::obj(vec![
                ("k", J::s("goto")),
                ("target", J::n(target.index() as i128)),
            ]),
            TerminatorKind::SwitchInt { discr, targets } => {
                let mut ts = Vec::new();
                for (v, t) in targets.iter() {
                    ts.push(J::Arr(vec![
                        J::s(format!("{}", v)),
                        J::n(t.index() as i128),
                    ]));
                }
                J::obj(vec![
                    ("k", J::s("switch")),
                    ("discr", self.operand(discr)),
                    ("targets", J::Arr(ts)),
                    ("otherwise", J::n(targets.otherwise().index() as i128)),
                ])
            }
            TerminatorKind::Return => J::obj(vec![("k", J::s("return"))]),
            TerminatorKind::Unreachable => {
                J::obj(vec![("k", J::s("unreachable"))])
            }
            TerminatorKind::UnwindResume => {
                J::obj(vec![("k", J::s("resume"))])
            }
            TerminatorKind::UnwindTerminate(_) => {
                J::obj(vec![("k", J::s("abort"))])
            }
            TerminatorKind::Drop {
                place,
                target,
                unwind,
                ..
            } => J::obj(vec![
                ("k", J::s("drop")),
                ("place", self.place(place)),
                ("target", J::n(target.index() as i128)),
                ("unwind", unwind_j(unwind)),
            ]),
            TerminatorKind::Call {
                func,
                args,
                destination,
                target,
                unwind,
                ..
            } => J::obj(vec![
                ("k", J::s("call")),
                ("func", self.operand(func)),
                (
                    "args",
                    J::Arr(args.iter().map(|a| self.operand(&a.node)).collect()),
                ),
                ("dest", self.place(destination)),
                (
                    "target",
                    match target {
                        Some(t) => J::n(t.index() as i128),
                        None => J::Null,
                    },
                ),
                ("unwind", unwind_j(unwind)),
            ]),
            TerminatorKind::Assert {
                cond,
                expected,
                msg,
                target,
                unwind,
            } => {
                let (kind, detail) = match &**msg {
                    AssertKind::BoundsCheck { len, index } => (
                        "bounds",
                        J::obj(vec![
                            ("len", self.operand(len)),
                            ("index", self.operand(index)),
                        ]),
                    ),
                    AssertKind::Overflow(op, a, b) => (
                        "overflow",
                        J::obj(vec![
                            ("op", J::s(format!("{:?}", op))),
                            ("a", self.operand(a)),
                            ("b", self.operand(b)),
                        ]),
                    ),
                    AssertKind::OverflowNeg(a) => {
                        ("overflow_neg", J::obj(vec![("a", self.operand(a))]))
                    }
                    AssertKind::DivisionByZero(a) => {
                        ("div_zero", J::obj(vec![("a", self.operand(a))]))
                    }
                    AssertKind::RemainderByZero(a) => {
                        ("rem_zero", J::obj(vec![("a", self.operand(a))]))
                    }
                    AssertKind::MisalignedPointerDereference { .. } => {
                        ("ub_check", J::Null)
                    }
                    AssertKind::NullPointerDereference => ("ub_check", J::Null),
                    AssertKind::InvalidEnumConstruction(_) => {
                        ("ub_check", J::Null)
                    }
                    _ => ("other", J::Null),
                };
                J::obj(vec![
                    ("k", J::s("assert")),
                    ("cond", self.operand(cond)),
                    ("expected", J::Bool(*expected)),
                    ("kind", J::s(kind)),
                    ("detail", detail),
                    ("target", J::n(target.index() as i128)),
                    ("unwind", unwind_j(unwind)),
                ])
            }
            TerminatorKind::FalseEdge { real_target, .. } => J::obj(vec![
                ("k", J::s("goto")),
                ("target", J::n(real_target.index() as i128)),
            ]),
            TerminatorKind::FalseUnwind { real_target, .. } => J::obj(vec![
                ("k", J::s("goto")),
                ("target", J::n(real_target.index() as i128)),
            ]),
            other => J::obj(vec![
                ("k", J::s("otherterm")),
                ("s", J::s(format!("{:?}", other))),
            ]),
        };
        J::obj(vec![
            ("stmts", J::Arr(stmts)),
            ("term", t),
            ("tspan", sp),
            ("cleanup", J::Bool(bb.is_cleanup)),
        ])
    }
}

fn unwind_j(u: &mir::UnwindAction) -> J {
    match u {
        mir::UnwindAction::Cleanup(b) => J::n(b.index() as i128),
        _ => J::Null,
    }
}

fn export_fn<'tcx>(tcx: TyCtxt<'tcx>, ldid: LocalDefId) -> Option<J> {
    let did = ldid.to_def_id();
    let dk = tcx.def_kind(did);
    if !matches!(dk, DefKind::Fn | DefKind::AssocFn | DefKind::Closure) {
        return None;
    }
    let body: &Body<'tcx> = tcx.optimized_mir(did);
    let env = TypingEnv::post_analysis(tcx, did);
    let cx = Cx { tcx, body, env };

    let mut o = vec![
        ("path", J::s(path_of(tcx, did))),
        ("pretty", J::s(tcx.def_path_str(did))),
        ("kind", J::s(format!("{:?}", dk))),
        ("span", span_j(tcx, tcx.def_span(did))),
        ("arg_count", J::n(body.arg_count as i128)),
    ];
    if matches!(dk, DefKind::Fn | DefKind::AssocFn) {
        o.push(("name", J::s(tcx.item_name(did).to_string())));
        let sig = tcx.fn_sig(did).skip_binder();
        o.push(("unsafe", J::Bool(sig.safety().is_unsafe())));
        o.push(("vis", J::s(format!("{:?}", tcx.visibility(did)))));
        let ev = tcx.effective_visibilities(());
        o.push(("reachable", J::Bool(ev.is_reachable(ldid))));
    } else {
        o.push(("name", J::s("{closure}")));
        o.push(("unsafe", J::Bool(false)));
    }
    // Parent (closures: enclosing body owner).
    if dk == DefKind::Closure {
        let parent = tcx.parent(did);
        o.push(("parent", J::s(path_of(tcx, parent))));
        let caps = tcx.closure_captures(ldid);
        let mut cj = Vec::new();
        for c in caps {
            cj.push(J::obj(vec![
                ("name", J::s(c.to_string(tcx))),
                ("mode", J::s(format!("{:?}", c.info.capture_kind))),
                ("ty", ty_j(tcx, c.place.ty())),
            ]));
        }
        o.push(("captures", J::Arr(cj)));
    }
    // Owning impl / trait.
    let owner = if dk == DefKind::Closure {
        tcx.typeck_root_def_id(did)
    } else {
        did
    };
    if let Some(im) = tcx.impl_of_assoc(owner) {
        let st = tcx.type_of(im).instantiate_identity().skip_norm_wip();
        o.push(("impl_self", ty_j(tcx, st)));
        o.push(("impl_path", J::s(path_of(tcx, im))));
        o.push(("impl_derived", J::Bool(tcx.is_automatically_derived(im))));
        if let Some(tr) = tcx.impl_opt_trait_ref(im) {
            let tr = tr.instantiate_identity().skip_norm_wip();
            o.push(("impl_trait", J::s(path_of(tcx, tr.def_id))));
            o.push(("impl_trait_pretty", J::s(format!("{}", tr))));
        }
    } else if let Some(tr) = tcx.trait_of_assoc(owner) {
        o.push(("trait_default_of", J::s(path_of(tcx, tr))));
    }
    o.push(("root", J::s(path_of(tcx, owner))));
    // Predicates in scope (strings + structured trait bounds on params).
    let preds = tcx.predicates_of(owner).instantiate_identity(tcx);
    let mut pj = Vec::new();
    for (p, _) in preds.predicates.iter().zip(preds.spans.iter()) {
        let p = p.skip_norm_wip();
        let mut po = vec![("s", J::s(format!("{}", p)))];
        if let Some(tp) = p.as_trait_clause() {
            let tp = tp.skip_binder();
            po.push(("kind", J::s("trait")));
            po.push(("trait", J::s(path_of(tcx, tp.def_id()))));
            po.push(("self", ty_j(tcx, tp.self_ty())));
        } else if let Some(pp) = p.as_projection_clause() {
            let pp = pp.skip_binder();
            po.push(("kind", J::s("projection")));
            po.push(("self", ty_j(tcx, pp.self_ty())));
            po.push(("item", J::s(path_of(tcx, pp.def_id()))));
            po.push(("term", J::s(format!("{}", pp.term))));
        }
        pj.push(J::obj(po));
    }
    o.push(("predicates", J::Arr(pj)));

    // Locals.
    let mut names: Vec<Option<String>> = vec![None; body.local_decls.len()];
    let mut upvar_names = Vec::new();
    for vdi in &body.var_debug_info {
        if let mir::VarDebugInfoContents::Place(p) = vdi.value {
            if p.projection.is_empty() {
                names[p.local.index()] = Some(vdi.name.to_string());
            } else {
                upvar_names.push(J::obj(vec![
                    ("name", J::s(vdi.name.to_string())),
                    ("place", cx.place(&p)),
                ]));
            }
        }
    }
    o.push(("upvars", J::Arr(upvar_names)));
    let mut lj = Vec::new();
    for (i, ld) in body.local_decls.iter_enumerated() {
        lj.push(J::obj(vec![
            ("ty", ty_j(tcx, ld.ty)),
            (
                "name",
                match &names[i.index()] {
                    Some(n) => J::s(n.clone()),
                    None => J::Null,
                },
            ),
            ("mut", J::Bool(ld.mutability.is_mut())),
        ]));
    }
    o.push(("locals", J::Arr(lj)));
    let mut bj = Vec::new();
    for bb in body.basic_blocks.iter() {
        bj.push(cx.block(bb));
    }
    o.push(("blocks", J::Arr(bj)));
    Some(J::obj(o))
}

fn candidate_types<'tcx>(tcx: TyCtxt<'tcx>) -> Vec<(String, Ty<'tcx>)> {
    // graaf's own digraph representations (by item name, found in the crate).
    let mut out = Vec::new();
    for ldid in tcx.hir_crate_items(()).definitions() {
        let did = ldid.to_def_id();
        if tcx.def_kind(did) != DefKind::Struct {
            continue;
        }
        let name = tcx.item_name(did).to_string();
        let adt = tcx.adt_def(did);
        let generics = tcx.generics_of(did);
        let n_ty = generics.own_params.len();
        if n_ty == 0 {
            let t = Ty::new_adt(tcx, adt, ty::List::empty());
            out.push((name, t));
        } else if n_ty == 1 {
            for (wn, wt) in
                [("isize", tcx.types.isize), ("usize", tcx.types.usize)]
            {
                let args = tcx.mk_args(&[wt.into()]);
                // Only accept when the sole param is a type param.
                if matches!(
                    generics.own_params[0].kind,
                    ty::GenericParamDefKind::Type { .. }
                ) {
                    let t = Ty::new_adt(tcx, adt, args);
                    out.push((format!("{}<{}>", name, wn), t));
                }
            }
        }
    }
    out
}

fn export<'tcx>(tcx: TyCtxt<'tcx>) -> J {
    let mut fns = Vec::new();
    for ldid in tcx.hir_body_owners() {
        if let Some(f) = export_fn(tcx, ldid) {
            fns.push(f);
        }
    }
    // ADTs.
    let mut adts = Vec::new();
    let mut statics = Vec::new();
    let mut traits = Vec::new();
    for ldid in tcx.hir_crate_items(()).definitions() {
        let did = ldid.to_def_id();
        match tcx.def_kind(did) {
            DefKind::Struct | DefKind::Enum | DefKind::Union => {
                let adt = tcx.adt_def(did);
                let mut fields = Vec::new();
                for v in adt.variants() {
                    for f in &v.fields {
                        let fty = tcx
                            .type_of(f.did)
                            .instantiate_identity()
                            .skip_norm_wip();
                        fields.push(J::obj(vec![
                            ("variant", J::s(v.name.to_string())),
                            ("name", J::s(f.name.to_string())),
                            ("vis", J::s(format!("{:?}", f.vis))),
                            ("public", J::Bool(f.vis.is_public())),
                            ("ty", ty_j(tcx, fty)),
                        ]));
                    }
                }
                let self_ty =
                    tcx.type_of(did).instantiate_identity().skip_norm_wip();
                let env = TypingEnv::post_analysis(tcx, did);
                let freeze = self_ty.is_freeze(tcx, env);
                let ev = tcx.effective_visibilities(());
                adts.push(J::obj(vec![
                    ("path", J::s(path_of(tcx, did))),
                    ("name", J::s(tcx.item_name(did).to_string())),
                    ("kind", J::s(format!("{:?}", tcx.def_kind(did)))),
                    ("fields", J::Arr(fields)),
                    ("freeze", J::Bool(freeze)),
                    ("reachable", J::Bool(ev.is_reachable(ldid))),
                    ("span", span_j(tcx, tcx.def_span(did))),
                ]));
            }
            DefKind::Static { mutability, .. } => {
                let sty =
                    tcx.type_of(did).instantiate_identity().skip_norm_wip();
                statics.push(J::obj(vec![
                    ("path", J::s(path_of(tcx, did))),
                    ("mut", J::Bool(mutability.is_mut())),
                    ("ty", ty_j(tcx, sty)),
                ]));
            }
            DefKind::Trait => {
                traits.push((did, path_of(tcx, did)));
            }
            _ => {}
        }
    }
    // Trait impls.
    let mut impls = Vec::new();
    for (tr, ims) in tcx.all_local_trait_impls(()).iter() {
        for im in ims {
            let imd = im.to_def_id();
            let st = tcx.type_of(imd).instantiate_identity().skip_norm_wip();
            let mut items = Vec::new();
            for it in tcx.associated_items(imd).in_definition_order() {
                let Some(itname) = it.opt_name() else { continue };
                items.push(J::obj(vec![
                    ("name", J::s(itname.to_string())),
                    ("kind", J::s(format!("{:?}", it.kind))),
                    ("path", J::s(path_of(tcx, it.def_id))),
                    (
                        "ty",
                        if it.is_type() {
                            J::s(format!(
                                "{}",
                                tcx.type_of(it.def_id)
                                    .instantiate_identity()
                                    .skip_norm_wip()
                            ))
                        } else {
                            J::Null
                        },
                    ),
                ]));
            }
            impls.push(J::obj(vec![
                ("trait", J::s(path_of(tcx, *tr))),
                ("trait_local", J::Bool(tr.is_local())),
                ("self", ty_j(tcx, st)),
                ("path", J::s(path_of(tcx, imd))),
                ("derived", J::Bool(tcx.is_automatically_derived(imd))),
                ("items", J::Arr(items)),
                ("span", span_j(tcx, tcx.def_span(imd))),
            ]));
        }
    }
    // Implements matrix: local trait x candidate type.
    let cands = candidate_types(tcx);
    let infcx = tcx
        .infer_ctxt()
        .build(ty::TypingMode::non_body_analysis());
    let mut matrix = Vec::new();
    for (tdid, tpath) in &traits {
        let g = tcx.generics_of(*tdid);
        // Only traits whose sole generic parameter is Self.
        if g.own_params.len() != 1 || g.parent.is_some() {
            continue;
        }
        let mut row = Vec::new();
        for (cn, ct) in &cands {
            let r = infcx.type_implements_trait(
                *tdid,
                [*ct],
                ty::ParamEnv::empty(),
            );
            if r.must_apply_modulo_regions() {
                row.push(J::s(cn.clone()));
            }
        }
        matrix.push(J::obj(vec![
            ("trait", J::s(tpath.clone())),
            ("name", J::s(tcx.item_name(*tdid).to_string())),
            ("implementors", J::Arr(row)),
        ]));
    }
    let opts = &tcx.sess.opts;
    J::obj(vec![
        ("crate", J::s(tcx.crate_name(LOCAL_CRATE).to_string())),
        (
            "config",
            J::obj(vec![
                ("overflow_checks", J::Bool(tcx.sess.overflow_checks())),
                ("debug_assertions", J::Bool(opts.debug_assertions)),
                ("ub_checks", J::Bool(tcx.sess.ub_checks())),
                (
                    "pointer_width",
                    J::n(tcx.data_layout.pointer_size().bits() as i128),
                ),
                ("test_cfg", J::Bool(tcx.sess.is_test_crate())),
            ]),
        ),
        (
            "candidates",
            J::Arr(cands.iter().map(|(n, _)| J::s(n.clone())).collect()),
        ),
        ("implements", J::Arr(matrix)),
        ("adts", J::Arr(adts)),
        ("statics", J::Arr(statics)),
        ("impls", J::Arr(impls)),
        ("fns", J::Arr(fns)),
    ])
}
