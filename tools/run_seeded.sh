#!/bin/bash
# Re-runs every seeded change under /verif/seeded and every behaviour-preserving patch under
# /verif/selftest/equivalent against the current checks; prints a detection table.
cd /verif
for d in seeded/*/; do
  n=$(basename $d)
  exp=alarm; grep -q "NOT CAUGHT" $d/meta.json 2>/dev/null && exp=silent
  res=$(tools/run_patch_suite.sh /verif/$d/patch.diff $exp 2>&1 | tail -1)
  echo "$n :: $res"
done
for p in selftest/equivalent/*.patch; do
  res=$(tools/run_patch_suite.sh /verif/$p silent 2>&1 | tail -1)
  echo "$(basename $p) :: $res"
done
