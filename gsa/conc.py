"""CONC: worker-thread structure of the parallel operations (DESIGN §3.8)."""
from .panics import panic_sites, discharge_panic

SPAWN_KEYS = {"std::thread::functions::spawn": 0, "std::thread::scoped::Scope::spawn": 1}
JOIN_KEYS = {"std::thread::join_handle::JoinHandle::join", "std::thread::scoped::ScopedJoinHandle::join"}
AP_KEY = "std::thread::functions::available_parallelism"


def family(crate, root):
    """the function `root` and all closures nested in it"""
    out = []
    for p in crate.fn_paths():
        f = crate.prog.fns[p]
        if f.get("root") == root or p == root:
            out.append(p)
    return out


def worker_closures(crate, root):
    """closure paths handed to thread::spawn / Scope::spawn inside the family of root:
    [(spawning fn path, block, spawn key, closure path)]"""
    out = []
    for p in family(crate, root):
        an = crate.an(p)
        for ev in an.events:
            if ev["k"] == "call" and ev["key"] in SPAWN_KEYS:
                a = ev["args"][SPAWN_KEYS[ev["key"]]]
                if a[0] == "agg" and a[1] == "closure":
                    out.append((p, ev["b"], ev["key"], a[2]))
                else:
                    out.append((p, ev["b"], ev["key"], None))
    return out


_pf = {}


def fn_panic_free(crate, path, stack=()):
    """no panic can start in this body or in any crate function it calls"""
    if path in _pf:
        return _pf[path]
    if path in stack:
        return True, "recursion"
    if path not in crate.prog.fns:
        return False, "unknown callee %s" % path
    an = crate.an(path)
    res = (True, "")
    for s in panic_sites(an):
        if not discharge_panic(crate, s):
            res = (False, "%s at %s:%d (%s)" % (s.kind, s.span["file"], s.span["line"], crate.prog.pretty.get(path, path)))
            break
    if res[0]:
        for ev in an.events:
            if ev["k"] != "call" or ev["fn"] is None:
                continue
            fn = ev["fn"]
            tgt = fn.get("resolved") if fn.get("resolved_local") else (fn["path"] if fn["local"] and "trait" not in fn else None)
            if fn["local"] and "trait" in fn and not fn.get("resolved"):
                res = (False, "unresolved trait call %s" % ev["key"])
                break
            if tgt is not None:
                ok, why = fn_panic_free(crate, tgt, stack + (path,))
                if not ok:
                    res = (False, why)
                    break
            # closures passed to std adaptors run inside them
            for a in ev["args"]:
                if a[0] == "agg" and a[1] == "closure":
                    ok, why = fn_panic_free(crate, a[2], stack + (path,))
                    if not ok:
                        res = (False, why)
                        break
            if not res[0]:
                break
    _pf[path] = res
    return res


def workers_panic_free(crate, root):
    ws = worker_closures(crate, root)
    if not ws:
        return False, "no worker closure found"
    for (p, b, key, c) in ws:
        if c is None:
            return False, "spawned value is not a closure literal"
        ok, why = fn_panic_free(crate, c)
        if not ok:
            return False, why
    return True, "%d workers" % len(ws)
