"""Rule registry: property -> rules (DESIGN §3/§4)."""
from .report import Finding, span_s
from .dump import short


def term_s(t, n=160):
    s = short(t) if isinstance(t, tuple) else str(t)
    return s if len(s) <= n else s[:n] + "…"


# ---------------------------------------------------------------------------
def rule_mem(crate, prop, tier):
    from .mem import run_mem, site_key
    results, unused = run_mem(crate)
    viol = []
    samples = []
    by_how = {}
    fns = set()
    for s in results:
        fns.add(s.fn)
        how = s.how if isinstance(s.how, str) else s.how[0]
        by_how[how] = by_how.get(how, 0) + 1
        if not s.status:
            detail = [term_s(x) for x in s.how[1:]] if not isinstance(s.how, str) else []
            viol.append(Finding("MEM", "MEM|" + site_key(crate, s),
                                "unsafe operation without a discharged obligation: %s (%s)" % (how, "; ".join(detail)),
                                s.span, {"how": how, "detail": detail}))
    interesting = [s for s in results if s.status and s.how not in ("VIA-ADD", "CONST")]
    for s in interesting[:: max(1, len(interesting) // 12)][:12]:
        samples.append({"site": site_key(crate, s), "where": span_s(s.span), "discharged_by": s.how})
    for e in unused:
        # a trusted entry that matches nothing is stale, not a violation of the property
        pass
    trusted = [s for s in results if s.how == "TRUSTED"]
    return {
        "rule": "MEM", "instances": len(fns), "obligations": len(results),
        "discharged": sum(1 for s in results if s.status), "violations": viol, "samples": samples,
        "by_strategy": by_how, "trusted_sites": sorted({site_key(crate, s) for s in trusted}),
        "trusted_unused": [e["fn"] + "|" + e["kind"] + "|" + e["root"] for e in unused],
        "distinct_nontrivial": len({site_key(crate, s) for s in interesting}),
        "floors": {"bodies analysed": (len(crate.prog.d["fns"]), 300)},
        "note": "functions with unsafe operations=%d trusted=%d" % (len(fns), len(trusted)),
    }


def rule_mem_subset(names):
    def f(crate, prop, tier):
        r = rule_mem(crate, prop, tier)
        keep = [v for v in r["violations"] if any(("::" + n + "|") in v.key or ("::" + n + "::") in v.key for n in names)]
        r = dict(r)
        r["violations"] = keep
        r["rule"] = "MEM(" + ",".join(names) + ")"
        r["floors"] = {}
        return r
    return f


def _schema(name):
    def f(crate, prop, tier):
        from . import schema
        return getattr(schema, name)(crate, prop, tier)
    return f


def rule_exhaust_for(names):
    def f(crate, prop, tier):
        from .schema import rule_exhaust
        return rule_exhaust(crate, prop, tier, only=names)
    return f


def _guard(name, *a):
    def f(crate, prop, tier):
        from . import guard
        r = getattr(guard, name)
        if a:
            r = r(*a)
        return r(crate, prop, tier)
    return f


def _mod(mod, name, *a):
    def f(crate, prop, tier):
        import importlib
        m = importlib.import_module("gsa." + mod)
        r = getattr(m, name)
        if a:
            r = r(*a)
        return r(crate, prop, tier)
    return f


OPS = ["complement", "converse", "union", "filter_vertices"]
PREDS = ["is_semicomplete", "is_tournament", "is_complete", "is_regular", "is_simple", "is_balanced", "is_symmetric", "is_oriented",
         "is_subdigraph", "is_superdigraph", "is_spanning_subdigraph"]

RULES = {
    "PURE": _mod("rules2", "rule_pure", None),
    "PURE-OPS": _mod("rules2", "rule_pure", OPS),
    "IDSRC": _mod("rules2", "rule_idsrc", None),
    "IDSRC-OPS": _mod("rules2", "rule_idsrc", OPS),
    "IDSRC-PRED": _mod("rules2", "rule_idsrc", PREDS),
    "FROM-VALID": _mod("rules2", "rule_from_valid"),
    "ADMISSIBLE-DET": _mod("rules2", "rule_admissible", False),
    "ADMISSIBLE-SEEDED": _mod("rules2", "rule_admissible", True),
    "ONE-PER-PAIR": _mod("rules2", "rule_one_per_pair"),
    "NONDET": _mod("rules2", "rule_nondet"),
    "UNIT-INTERVAL": _mod("rules2", "rule_unit_interval"),
    "EXACT-IDS": _mod("rules2", "rule_exact_ids"),
    "SEED-TOTAL": _mod("rules2", "rule_seed_total"),
    "ER-DRAW": _mod("rules2", "rule_er_draw"),
    "FILTER-VERTS": _mod("rules2", "rule_filter_verts"),
    "RELAX-AGREE": _mod("bfm", "rule_relax_agree"),
    "FW-SHAPE": _mod("relax", "rule_fw_shape"),
    "DM-QUERIES": _mod("relax", "rule_dm_queries"),
    "LAYOUT": _mod("relax", "rule_layout"),
    "TERMINATE": _mod("relax", "rule_terminate"),
    "CONC": _mod("conc", "rule_conc", None),
    "CONC-OPS": _mod("conc", "rule_conc", ["complement", "union"]),
    "CONC-PRED": _mod("conc", "rule_conc", ["is_semicomplete"]),
    "CONC-QUERY": _mod("conc", "rule_conc", ["degree_sequence"]),
    "CONC-COMPLETE": _mod("conc", "rule_conc", ["complete"]),
    "CONC-SEEDED": _mod("conc", "rule_conc", ["erdos_renyi", "random_tournament"]),
    "DEFN-QUERIES": _mod("defn", "rule_defn", "queries"),
    "DEFN-PREDS": _mod("defn", "rule_defn", "preds"),
    "FIELDS": _mod("rules3", "rule_fields"),
    "LEAK": _mod("rules3", "rule_leak"),
    "MEM-SEARCH": _mod("rules", "rule_mem_subset", ["search_by"]),
    "MEM-AMAP-PRED": _mod("rules", "rule_mem_subset", ["is_semicomplete", "is_tournament"]),
    "MEM": rule_mem,
    "GUARD": _guard("rule_guard"),
    "NOPANIC-AFTER-WRITE": _guard("rule_nopanic_after_write"),
    "TOTAL-REMOVE": _guard("rule_total", ["remove_arc"], 5),
    "TOTAL": _guard("rule_total", None, 21),
    "ENCAPS": _guard("rule_encaps"),
    "BITS": _guard("rule_bits"),
    "BITSET": _guard("rule_bitset"),
    "OPS-WRITES": _guard("rule_ops_writes"),
    "NARROW-ALGO": _guard("rule_narrow", "algo"),
    "NARROW-GEN": _guard("rule_narrow", "gen"),
    "NARROW-REPR": _guard("rule_narrow", "repr"),
    "EXHAUST-DJ": rule_exhaust_for(["::Dijkstra", "::DijkstraDist"]),
    "EXHAUST-BFS": rule_exhaust_for(["::Bfs", "::BfsDist"]),
    "EXHAUST-PRED": rule_exhaust_for(["::BfsPred", "::DijkstraPred"]),
    "EXHAUST-DFS": rule_exhaust_for(["::Dfs", "::DfsDist", "::DfsPred"]),
    "SCHEMA-BFS": _schema("rule_schema_bfs"),
    "SCHEMA-DFS": _schema("rule_schema_dfs"),
    "SCHEMA-DJ": _schema("rule_schema_dj"),
    "SCHEMA-PRED": _schema("rule_schema_pred"),
}

COMMON_ASSUMPTIONS = [
    "the digraph type parameter of an algorithm ranges over graaf's own representations (a foreign impl of the "
    "operation traits that lies about its vertex set is out of scope)",
    "order() of a shared-borrowed graaf digraph is stable for the duration of the borrow (all representations are "
    "Freeze; checked)",
    "target pointer width is 64 (read from the compiler session)",
    "rustc's MIR construction, type checker and trait solver are correct; the fact exporter reports them faithfully",
    "the semantics table of std functions (gsa/effects.py) is correct",
]

SCHEMA_TB = ["rustc MIR + trait solver", "gsa-driver fact exporter", "gsa/effects.py std semantics table",
             "the textbook invariant proofs of BFS/DFS/Dijkstra (DESIGN appendix B) connect the obligations to the property"]

TB = ["rustc MIR + trait solver", "gsa-driver fact exporter", "gsa/effects.py std semantics table"]

PROPERTY_RULES = {
    "C02": {
        "rules": ["PURE", "TOTAL", "IDSRC", "DEFN-QUERIES", "CONC-QUERY", "BITS"],
        "explanation": "Queries cannot change the digraph: the five representations are Freeze and in every body that receives a "
                       "digraph by shared reference no store, raw-pointer write or *const->*mut cast targets memory behind that "
                       "reference (PURE). The 21 documented-total queries (has_arc, has_edge, has_walk, arc_weight, remove_arc) "
                       "have every panic-capable site (index, unwrap, overflow assert, explicit panic) in them and their crate "
                       "callees discharged for arbitrary arguments (TOTAL). AdjacencyMap's own &self methods never use a count "
                       "(order/size/position) as a vertex id (IDSRC). Derived queries agree with their definition over the "
                       "primitive ones (DEFN): has_edge is has_arc(u,v) AND has_arc(v,u) as a truth table over its call atoms, "
                       "degree = indegree + outdegree, is_pendant = (degree == 1), default is_sink/is_source = (out/indegree == 0), "
                       "is_isolated = is_sink AND is_source, sinks/sources filter vertices() by is_sink/is_source, the "
                       "semidegree/outdegree sequences map vertices() to (indegree, outdegree) / outdegree. The threaded "
                       "AdjacencyList::degree_sequence splits the rows with chunks(div_ceil(order, t)) inside thread::scope and "
                       "its workers write only their own histogram (CONC). has_walk tests has_arc on every consecutive pair: all() "
                       "over walk.iter().zip(walk.iter().skip(1)) / walk.windows(2), or a cursor loop from as_ptr to as_ptr + (len-1) "
                       "that advances by exactly one vertex, tests has_arc(*p, *(p+1)) in every iteration, and is left with false "
                       "exactly on a failed pair and true at the end (DEFN, has_walk clause). Queries of AdjacencyMatrix read the bit "
                       "matrix cell by cell (word i >> 6 masked with 1 << (i & 63) for the same i), or in loops over its words; a fixed "
                       "number of words masked with range masks outside any loop cannot cover a row of arbitrary width (BITS).",
        "trusted_base": TB + ["lemma L-ROWMAJOR for the bit-matrix cell index"],
        "not_decided": "the value of the primitive queries themselves (order, size, has_arc, indegree, outdegree, neighbours, "
                       "the threaded degree_sequence): value-level; a derived query rewritten so that it "
                       "no longer calls the primitive queries is reported as not decided, not as a violation",
        "assumptions": COMMON_ASSUMPTIONS,
    },
    "C07": {
        "rules": ["RELAX-AGREE"],
        "explanation": "BellmanFordMoore::distances, decided over relaxation units and arc visits (inline code or a local "
                       "closure, raw pointers or indexing, any unrolling): every store into dist[] is dist[head] = dist[tail] + w "
                       "with tail, head, w read from one arc tuple, guarded by dist[tail] != isize::MAX and (dist[tail] + w) < "
                       "dist[head] (R1); the arc list is collected from arcs_weighted() through item-preserving adaptors only (no filter / skip / "
                       "take); in every round every arc index 0..arcs_len is visited - the counter skeleton of the round "
                       "(guards i + c < len, visits arcs[i + k], advance i += s, tail) is extracted from the MIR and evaluated "
                       "exhaustively for arcs_len = 0..12 (R2, ARC-COVERAGE); every storing relaxation raises the `changed` flag, "
                       "which is reset per round and tested (R3); rounds are `1..order`; the final pass examines every arc, returns "
                       "None only under the strict test with the unreached guard and Some only after the whole pass (R4; a None that no "
                       "strict comparison dist[..] > sum dominates is a violation also when no final pass exists, e.g. `if updated`); new() "
                       "checks s < order, fills isize::MAX and sets dist[s] = 0 (R5).",
        "trusted_base": TB + ["lemma L-PERIODIC: a round whose counter advances by a constant s <= 4 behaves periodically in "
                              "arcs_len, so arcs_len = 0..12 covers every residue and two full periods"],
        "not_decided": "that order-1 rounds suffice and that the distances are exact (inductive value-level argument)",
        "assumptions": COMMON_ASSUMPTIONS,
    },
    "C08": {
        "rules": ["FW-SHAPE", "LAYOUT"],
        "explanation": "FloydWarshall::distances: the update dist[a][c] = dist[a][b] + dist[b][c] has the intermediate vertex b "
                       "in the outermost of three complete loops (F1), both operands are tested != isize::MAX (F2), the store is "
                       "guarded by sum < dist[a][c] of the written cell (F3), no other test than those, or a coincidence of two loop "
                       "indices, can bypass the update inside the triple loop (F5: no pruning), weights go to cell (u, v) and 0 to (i, i) for all "
                       "arcs / vertices (F4); every cell is addressed row-major as row*order+col, consistent with "
                       "DistanceMatrix::{Index, IndexMut, eccentricities, new} (LAYOUT).",
        "trusted_base": TB,
        "not_decided": "the matrix values",
        "assumptions": COMMON_ASSUMPTIONS,
    },
    "C11": {
        "rules": ["PURE-OPS", "IDSRC-OPS", "CONC-OPS", "BITS", "FILTER-VERTS", "OPS-WRITES"],
        "explanation": "complement / converse / union / filter_vertices: operands are unchanged (PURE on these methods and "
                       "their closures); AdjacencyMap's implementations never use 0..order, a position or a count as a vertex "
                       "id (IDSRC); the threaded AdjacencyList::{complement, union} and AdjacencyMap::union join every worker "
                       "before returning, workers write only their own partition slots, and the row partition matches a proven "
                       "tiling template (CONC/TILE; AdjacencyMap::union's merge path is a trusted entry). BITS: an operation of "
                       "AdjacencyMatrix writes the bit matrix only cell by cell (i >> 6, 1 << (i & 63)); whole words are combined only "
                       "as `a |= b` on the same word of two matrices under a check that their orders are equal (a word-wise union of "
                       "matrices of different orders puts arcs at the wrong cells). Counts (order/size) are tracked into closures through "
                       "their captures (IDSRC), worker scratch containers are row-local (CONC, row-local-scratch). filter_vertices scans the "
                       "vertex set of self and gives every scanned vertex that satisfies the predicate a row under that test alone "
                       "(FILTER-VERTS: a result built from the arcs only loses isolated kept vertices).",
        "trusted_base": TB + ["lemma L-TILE", "tables/trusted_tiles.json"],
        "not_decided": "that the arc set is the set-theoretic one; involution/commutativity; validity of literal-built results of "
                       "the contiguous types (value-level set reasoning through iterator chains)",
        "assumptions": COMMON_ASSUMPTIONS,
    },
    "C12": {
        "rules": ["IDSRC-PRED", "CONC-PRED", "MEM-AMAP-PRED", "DEFN-PREDS", "BITS"],
        "explanation": "Only the structural sites of the predicates are decided: AdjacencyMap::{is_semicomplete, is_tournament} "
                       "never index positional storage by vertex id and contain no undischarged unsafe site; the shared early-"
                       "exit flag of the parallel AdjacencyList::is_semicomplete is only ever stored `false` (monotone), its "
                       "workers are scoped and read rows through bounds-discharged pointers. Predicates written over the "
                       "primitive queries are compared with their definition (DEFN): the pair test of is_semicomplete is "
                       "has_arc(u,v) OR has_arc(v,u) and of is_tournament XOR (truth tables over the call atoms), applied by "
                       "all() over u in 0..order, v in u+1..order; is_symmetric / is_oriented test has_arc(v,u) / its negation for "
                       "every arc (u,v); is_balanced tests indegree(u) == outdegree(u) for all vertices; is_spanning_subdigraph and "
                       "is_subdigraph require d.has_arc(u,v) for every arc of self; is_superdigraph(d) = d.is_subdigraph(self). "
                       "A predicate of AdjacencyMatrix that reads the bit matrix directly masks a word only with the bit of a cell that "
                       "lives in that word (BITS, bit-read clause). is_tournament / is_semicomplete / is_symmetric / is_oriented are not "
                       "decided from order / size / degree counts alone (digraphs with equal counts differ in them): an implementation "
                       "that never reads the adjacency of a pair is a violation (from-counts); likewise is_regular / is_balanced decided from "
                       "order, size and outdegrees (row lengths) alone, without any indegree information or head of an arc.",
        "trusted_base": TB + ["lemma L-TILE"],
        "not_decided": "is_complete, is_regular, is_simple, the AdjacencyList/AdjacencyMap pair scans written over raw rows, the "
                       "vertex-set clauses of sub/spanning subdigraph: value-level",
        "assumptions": COMMON_ASSUMPTIONS,
    },
    "C14": {
        "rules": ["ADMISSIBLE-DET", "CONC-COMPLETE", "BITS", "EXACT-IDS"],
        "explanation": "For the 33 deterministic generator impls every path to a normal return passes the admissibility test "
                       "(order > 0, wheel order >= 4, m > 0 and n > 0) or a delegation to Self::empty/trivial that performs it; "
                       "bit-matrix generators set cells only through single-bit read-modify-writes (BITS); "
                       "the parallel AdjacencyList::complete joins all workers, partitions rows by the proven template and "
                       "re-sorts by vertex. Vertex ids are computed with exact arithmetic: a wrapping_* operation in a generator is "
                       "accepted only where the facts exclude the wrap-around (EXACT-IDS).",
        "trusted_base": TB + ["lemma L-TILE"],
        "not_decided": "the arc sets of the generators (the core of the property): closed-form arithmetic, value-level",
        "assumptions": COMMON_ASSUMPTIONS,
    },
    "C15": {
        "rules": ["NONDET", "ADMISSIBLE-SEEDED", "ONE-PER-PAIR", "CONC-SEEDED", "UNIT-INTERVAL", "SEED-TOTAL", "ER-DRAW", "BITS"],
        "explanation": "No library body reaches an ambient source of nondeterminism (time, hash-order containers, thread ids, "
                       "env, OS RNG) and the CPU count flows into a PRNG seed only in the two documented AdjacencyMap "
                       "generators (NONDET); every seeded generator checks order > 0 and p in [0, 1] before returning "
                       "(ADMISSIBLE); random_tournament makes exactly one draw per pair u < v and inserts u->v on one outcome "
                       "and v->u on the other, random_recursive_tree draws the parent as x % u (ONE-PER-PAIR); the threaded "
                       "AdjacencyMap generators join their workers and partition rows by the proven template (CONC); "
                       "Xoshiro256StarStar::next_f64 lies in [0, 1) by integer interval arithmetic on its constants: "
                       "from_bits(1023 << 52 | (x & (2^52 - 1))) - 1.0, or an integer below C divided by C (UNIT-INTERVAL). No "
                       "overflow-checked arithmetic is applied to a value derived from the seed, in the generators or their worker "
                       "closures: every seed is accepted (SEED-TOTAL). Every erdos_renyi decides an arc exactly by `next_f64() < p` "
                       "(strict, p the parameter), or delegates to another erdos_renyi (ER-DRAW): with next_f64 in [0, 1) this gives the "
                       "extremes p = 0 and p = 1.",
        "trusted_base": TB,
        "not_decided": "the distribution of the draws (statistical quality), that `next_f64() < p` realises probability p",
        "assumptions": COMMON_ASSUMPTIONS,
    },
    "C16": {
        "rules": ["FROM-VALID", "GUARD"],
        "explanation": "Each of the 25 From impls into a representation has one of three validated shapes: (a) Self::empty(source "
                       "order) followed by a complete loop over source.arcs() inserting exactly (tail, head) through the "
                       "guarded add_arc / add_arc_weighted (weight constant 1); (b) a struct literal followed, before any "
                       "return, by a complete validation loop asserting tail != head and head-in-range for every arc; (c) "
                       "order = running max(id) + 1 accumulated in the loop that inserts (u, v) under u != v.",
        "trusted_base": TB,
        "not_decided": "round-trip identity as a value",
        "assumptions": COMMON_ASSUMPTIONS,
    },
    "C17": {
        "rules": ["CONC", "NONDET"],
        "explanation": "For the 8 callers of available_parallelism: the thread count is map_or(1, NonZero::get) (>= 1); every "
                       "thread::spawn handle is kept and joined by a complete loop before any normal return, scoped spawns are "
                       "inside thread::scope (JOIN); workers write shared memory only at their own partition index / through an "
                       "exclusive &mut capture / under a Mutex / as a monotone `false` store (WRITES); in a worker that shares such a "
                       "flag, every path that starts where a pair has just failed both membership tests stores `false` before the "
                       "next pair is tested or the worker returns (flag-published-on-failure, a path rule with constant propagation "
                       "of the two test results); a scratch container created before a worker's row loop, refilled and read inside it, is "
                       "emptied on every path of the iteration before it is read (row-local-scratch); a strided worker "
                       "(start..n).step_by(s) is accepted only when workers are started for start = 0..s-1; the row partition matches "
                       "start = k*c or step_by(c), end = min(n, start + c), c = div_ceil(n, t), or chunks(c) (TILE); the CPU count "
                       "reaches PRNG seeds only in the two allowed generators (NONDET).",
        "trusted_base": TB + ["lemma L-TILE", "tables/trusted_tiles.json (AdjacencyMap::union merge path)"],
        "not_decided": "equality with the single-threaded definition as a value; AdjacencyMap::union's merge-path tiling",
        "assumptions": COMMON_ASSUMPTIONS,
    },
    "C18": {
        "rules": ["LAYOUT", "DM-QUERIES"],
        "explanation": "Layout and fill: (u, v) is addressed as dist[u*order+v] in Index/IndexMut, rows are "
                       "dist.chunks(order), new() allocates a checked order*order cells and writes `infinity` to every one. "
                       "Full scans: eccentricities maps every row of dist.chunks(order) to row.iter().max().unwrap_or(&infinity), "
                       "diameter is max over eccentricities() (unwrap_or(&infinity)), is_connected is all(e != infinity) over "
                       "eccentricities(); none of the three (nor a closure of theirs) contains a restricting adaptor (skip, take, "
                       "step_by, filter, find, ...) or a sub-slice, so every cell can influence the result. center is one complete "
                       "loop over eccentricities().enumerate() in which e.cmp(&min) dominates every latch (no vertex is skipped), the "
                       "vertex is pushed exactly on Less / Equal, the list cleared and the minimum (started at infinity) updated "
                       "exactly on Less, and the list is returned; periphery is enumerate().filter_map(|(i, e)| (e == diameter())"
                       ".then_some(i)).",
        "trusted_base": TB,
        "not_decided": "the comparison semantics of W; a query rewritten away from these spellings without restricting adaptors is "
                       "reported as not decided",
        "assumptions": COMMON_ASSUMPTIONS,
    },
    "C19": {
        "rules": ["TERMINATE", "MEM-SEARCH"],
        "explanation": "PredecessorTree::search_by: every iteration that continues marks a vertex that was tested unmarked "
                       "(at most len iterations), every return of search(s, t) is the result of search_by(s, |v, _| v == t) (no shortcut "
                       "around the walk), the raw visited[] accesses are bounds-discharged, "
                       "and apart from reading pred[s] for the start vertex no panic site of the walk is left undischarged.",
        "trusted_base": TB,
        "not_decided": "'returns Some exactly when ...' and the shape of the returned path: value-level",
        "assumptions": COMMON_ASSUMPTIONS,
    },
    "C20": {
        "rules": ["FIELDS", "GUARD", "ENCAPS", "BITS"],
        "explanation": "For the five representations: Clone/PartialEq/Eq/PartialOrd/Ord/Hash exist once each, eq/cmp/"
                       "partial_cmp read every field of both operands, hash and clone every field of self, clone is field-wise; "
                       "fields own their data (no Rc/Arc/reference/raw pointer/interior mutability); no bit outside the "
                       "order*order cells is ever set and only the analysed mutators write the containers (GUARD + ENCAPS); "
                       "every construction site of AdjacencyMatrix gives `blocks` exactly div_ceil(order*order, 64) words and every "
                       "write into it is a single-bit read-modify-write (canonical storage: FIELDS canonical-length, BITS); a "
                       "hand-written eq / cmp / hash next to derived ones must itself touch the operands only through their fields.",
        "trusted_base": TB + ["BTreeSet/BTreeMap/Vec equality, ordering and hashing are those of their contents (std)"],
        "not_decided": "'equal exactly when' over all pairs of construction histories",
        "assumptions": COMMON_ASSUMPTIONS,
    },
    "C01": {
        "rules": ["GUARD", "NOPANIC-AFTER-WRITE", "TOTAL-REMOVE", "ENCAPS", "BITS"],
        "explanation": "For every function taking `&mut <representation>` (11 today) each arc-insertion site must be dominated "
                       "by tail != head, tail < order and head < order (GUARD; AdjacencyMap: tail != head and both endpoints "
                       "become keys on every path, ADMIT); the insertion is BTreeSet/BTreeMap::insert or `|=` (IDEMPOTENT, "
                       "toggle is the one `^=`), the stored weight is the weight argument, block index and bit mask address "
                       "the same cell u*order+v; no panic site is reachable after a modification (a rejected call leaves "
                       "the digraph unchanged); remove_arc cannot panic for any arguments (TOTAL); all fields of the five "
                       "structs are private and no reachable function returns a mutable handle into them (ENCAPS); every "
                       "write into AdjacencyMatrix::blocks anywhere in the crate is a single-bit read-modify-write (BITS).",
        "trusted_base": ["rustc MIR + trait solver", "gsa-driver fact exporter", "gsa/effects.py std semantics table",
                         "BTreeSet/BTreeMap give de-duplication and ascending iteration (std)"],
        "not_decided": "that a sequence of accepted calls yields exactly the model's arc set; ascending order of arcs()/vertices() "
                       "(consequences of the ordered containers' semantics)",
        "assumptions": COMMON_ASSUMPTIONS,
    },
    "C03": {
        "rules": ["EXHAUST-DJ", "SCHEMA-DJ", "BITSET"],
        "explanation": "Dijkstra and DijkstraDist are checked against the lazy-deletion schema on every path of new/next/"
                       "distances: None only on the empty-heap edge (J1), min-heap on Reverse<key> (J2), every push is "
                       "dominated by a strict `new < dist[v]` test, stores that key into dist[v] and the key is popped "
                       "key + arc weight (J3), an entry is emitted only under `popped key == dist[vertex]` (J4), the "
                       "neighbour scan is complete and exhausted before the popped vertex is yielded (J5), sources get dist 0 and key "
                       "Reverse(0) (J6), yielded values are "
                       "the popped ones and distances() folds them into a usize::MAX-filled vector (J7). The heap is only pushed to and "
                       "popped from: any other mutation, including replacing it by assignment (a rebuild from dist[]), is a violation "
                       "(worklist-edited). Bit sets address word x >> k with bit x & (2^k - 1) (BITSET, crate-wide).",
        "trusted_base": SCHEMA_TB,
        "not_decided": "optimality and emission order as values (they follow from J2-J4 by the standard proof, which is not "
                       "mechanised); behaviour on path sums that overflow usize",
        "assumptions": COMMON_ASSUMPTIONS + ["the iterator is worklist-driven with lazy deletion (design choice encoded in the schema)"],
    },
    "C04": {
        "rules": ["EXHAUST-BFS", "SCHEMA-BFS", "BITSET"],
        "explanation": "Bfs and BfsDist are checked against the BFS schema: None only on the empty-queue edge (B1), a vertex "
                       "is enqueued only under a dominating `not visited` test and marked on the same path (B2), the scan "
                       "of out_neighbors(dequeued vertex) is complete and exhausted before the vertex is yielded (B3), FIFO "
                       "pop_front/push_back (B4), every source is "
                       "enqueued and marked by new (B5), the dequeued element is the one yielded, level = parent level + 1, "
                       "distances() stores the yielded level at the yielded vertex in a usize::MAX-filled vector (B6). A visited set kept "
                       "as a bit set addresses word x >> k with bit x & (2^k - 1) (BITSET, crate-wide: a narrower mask makes vertices share "
                       "a bit).",
        "trusted_base": SCHEMA_TB,
        "not_decided": "equality of the yielded set with the reachable set as a value (follows from B1-B5 by induction on hop distance)",
        "assumptions": COMMON_ASSUMPTIONS + ["mark-on-enqueue BFS (design choice encoded in the schema)"],
    },
    "C05": {
        "rules": ["EXHAUST-PRED", "SCHEMA-BFS", "SCHEMA-DJ", "SCHEMA-PRED", "TERMINATE", "BITSET"],
        "explanation": "BfsPred and DijkstraPred inherit the BFS / Dijkstra schema; in addition the predecessor pushed with a "
                       "vertex is Some(the popped vertex whose out-neighbour scan produced it) (P1), predecessors()/"
                       "shortest_path()/cycles() store the yielded predecessor at the yielded vertex (P2), shortest_path "
                       "returns a path only under a successful predicate test on the yielded vertex, stops at the first "
                       "such vertex and returns None only on the exhaustion edge (P3); cycles() closes a chain of v only "
                       "with an out-neighbour of v. shortest_path() and cycles() read the path back with PredecessorTree::"
                       "search_by / search, whose walk along the predecessor links is the visited-set walk checked by TERMINATE "
                       "(every continuing iteration marks a vertex tested unmarked; no other exit than target / end of chain / "
                       "revisit; search delegates to search_by).",
        "trusted_base": SCHEMA_TB,
        "not_decided": "minimality of the returned path among several targets and elementariness of cycles() as values",
        "assumptions": COMMON_ASSUMPTIONS,
    },
    "C06": {
        "rules": ["EXHAUST-DFS", "SCHEMA-DFS", "BITSET"],
        "explanation": "Dfs, DfsDist and DfsPred are checked against the explicit-stack DFS schema: a stale stack entry must "
                       "not end the iteration (D1, EXHAUST), a vertex is yielded only under a `not visited` test and after "
                       "being marked (D2), every out-neighbour of the popped vertex is scanned (to exhaustion, before the yield) and "
                       "pushed unless visited (D3), Vec::pop/push LIFO (D4), pushed predecessor = popped vertex, pushed depth = popped "
                       "depth + 1, seeds are exactly the sources with None / 0 (D5); predecessors()/distances() record every item of "
                       "the traversal (a skip/take/filter/... on self is a violation).",
        "trusted_base": SCHEMA_TB,
        "not_decided": "the preorder as a value; D1 is violated on the current tree (known finding F2, pinned by four existing tests)",
        "assumptions": COMMON_ASSUMPTIONS + ["mark-on-pop stack DFS (design choice encoded in the schema)"],
    },
    "C13": {
        "rules": ["MEM", "LEAK"],
        "explanation": "Every unsafe operation of the library (raw pointer offset/dereference, get_unchecked, "
                       "unwrap_unchecked, set_len, ptr::read/write, int-to-pointer casts, calls of unsafe fns) is "
                       "inventoried from MIR and must carry a discharged bounds / initialisation / variant obligation: "
                       "by a dominating guard, a range, a struct length invariant checked at every construction site, a "
                       "worklist or yield invariant checked at every push/return site, the contiguity contract of the "
                       "digraph type, a row-major/bit-block lemma, imported capture-site facts for closures, or one "
                       "entry of the reviewed trust table (tables/trusted_sites.json). An undischarged site is a "
                       "violation naming function, operation and root variable.",
        "trusted_base": ["rustc MIR + trait solver", "gsa-driver fact exporter", "gsa/effects.py std semantics table",
                         "lemmas L-ROWMAJOR, L-BITS, L-PTRWALK (DESIGN appendix A)", "tables/trusted_sites.json",
                         "contiguity contract for generator literals (DESIGN §3.1 INV)"],
        "not_decided": "the trusted sites (merge-path arithmetic, walking pointer, nested-Vec row lengths), stack depth "
                       "of recursive algorithms, behaviour under foreign trait impls",
        "assumptions": COMMON_ASSUMPTIONS,
    },
}

# NARROW (added after round 6): one scope per group of properties
_NARROW_TEXT = (" No integer is converted with `as` to a narrower type unless its value is provably representable "
                "(NARROW: a masked / reduced / bit-count value; the pinned tree has no narrowing conversion at all, so a packed "
                "u32 heap key or vertex id is reported where it is introduced).")
for _pid, _rule in (("C03", "NARROW-ALGO"), ("C04", "NARROW-ALGO"), ("C05", "NARROW-ALGO"), ("C06", "NARROW-ALGO"), ("C07", "NARROW-ALGO"),
                    ("C08", "NARROW-ALGO"), ("C18", "NARROW-ALGO"), ("C19", "NARROW-ALGO"), ("C14", "NARROW-GEN"), ("C15", "NARROW-GEN"),
                    ("C01", "NARROW-REPR"), ("C02", "NARROW-REPR"), ("C11", "NARROW-REPR"), ("C12", "NARROW-REPR"),
                    ("C16", "NARROW-REPR"), ("C20", "NARROW-REPR")):
    PROPERTY_RULES[_pid]["rules"] = PROPERTY_RULES[_pid]["rules"] + [_rule]
    PROPERTY_RULES[_pid]["explanation"] += _NARROW_TEXT

# clause texts added after rounds 6 and 7 / campaigns R19-R26 (appended so that the generated tables stay in step)
_ADDENDA = {
    "BITS": " Every shift by a non-constant amount in the bit matrix has an amount provably below the word width (shift-amount); "
            "the words of a matrix built as a literal are all zero (then written bit by bit), a copy, or a word-wise |, &, ^ of the "
            "words of two matrices (literal-words).",
    "BITSET": " Bit sets may address with x / 2^k and x % 2^k as well; every non-constant shift amount outside the bit matrix is "
              "provably below the word width. When next() does not match a schema's shape the schema verdict stays UNDECIDED, but "
              "a bulk edit (drain, retain, truncate, clear, sort, ..) of a container field of the traversal inside next() is "
              "still a violation (worklist-edited). Only next() (and private helpers inlined into it) pops the worklist of a "
              "traversal; a method that drains it itself is reported (worklist-popped-outside-next). A scan of out_neighbors*() "
              "through take / skip / step_by / take_while / skip_while is reported whatever the shape (scan-restricted).",
}
_PROP_ADDENDA = {
    "C16": " In the Self::empty(order) + add_arc conversions every exit returns the digraph that was created with the source's order "
           "and filled; an early return of another constructor's result is a violation (returns-the-filled-digraph).",
    "C02": " has_walk reaches its pairwise test only for sequences of at least two vertices (walk-min-length). A degree query (min/max in/out/total degree) answers from size() and the order alone only on branches where every digraph with those counts has that answer (size-shortcut, evaluated against the definitions for orders 1..4).",
    "C05": " shortest_path applies the target predicate to vertices in the order the traversal yields them; a scan over "
           "positions, a range or vertices() is a violation (P3-target-in-yield-order).",
    "C08": " The diagonal loop and the three loops of the triple loop range over vertices() or 0..order (F4-diagonal-domain, "
           "F1-all-vertices).",
    "C11": " complement / converse / union / filter_vertices never write in bulk (extend, append) into a field of a local "
           "representation value, bypassing add_arc (OPS-WRITES). An AdjacencyMap method does not compare the orders of two maps "
           "and then produce its result without looking at one of them (IDSRC order-compared-as-vertex-set). The cut points of AdjacencyMap::union's merge run from 0 to the combined row count in non-decreasing steps (CONC merge-partition-points, the pushed closed form evaluated for 1 <= t <= n <= 40).",
    "C12": " IDSRC covers the blanket impls of graaf::op and every predicate of the property; is_spanning_subdigraph does not "
           "compare the two vertex sequences through zip() (spanning-vertex-sets-equal) and scans the arcs of self against "
           "d, not the converse (is_spanning_subdigraph-direction). The closed form that is_tournament / is_semicomplete / "
           "is_complete compare size() with is n(n-1)/2 resp. n(n-1) (evaluated as a term for orders 1..64). A predicate answers from size() and the order alone only on branches where every digraph with those counts has that answer (size-shortcut: `max - size <= 2 => semicomplete` fails at order 3, size 4).",
    "C14": " A per-worker scratch container is not carried from one row to the next (shrinking edits count; a remove that is "
           "followed on every path by the insert of the same key is balanced).",
    "C15": " next_f64 may also be (integer expression of the draw) as f64 * C, evaluated at its largest value in IEEE double "
           "arithmetic (u64::MAX as f64 is 2^64). A seeded generator does not hand out work through an atomic read-modify-write "
           "while its workers own PRNG streams (NONDET dynamic-work-in-seeded-generator). In `(0..a).chain(a + 1..n)` the "
           "skipped vertex is the row being filled (ER-DRAW row-heads-skip-the-row). The AdjacencyMatrix generators write the bit matrix one bit at a time (BITS): a word-wise fill with PRNG output sets diagonal cells.",
    "C18": " is_connected returns true only on paths that looked at the matrix (connected-without-scan).",
    "C20": " A hand-written eq / cmp that walks the operands' fields through zip() without comparing their lengths is not "
           "field-wise (fieldwise); on every path on which a hand-written eq can return true the equality of every field has "
           "been established (eq-compares-every-field).",
    "C19": " search_by calls the target predicate with the predecessor entry as stored, not with an Option that was filtered or "
           "mapped on the way (predicate-sees-stored-entry). Inside the walk, the only exit ahead of the predicate call is the link lookup itself: every vertex the walk stands on is put to the predicate before the walk can end there (predicate-decides-every-visited-vertex).",
    "C17": " A per-worker scratch container is not carried from one row to the next; a result row is written only after row u of "
           "each operand was read or is known not to exist (rows-merged); row chunks zipped with per-worker state have one "
           "item per chunk on the other side (zip-covers-chunks). The cut points of AdjacencyMap::union's merge run from 0 to the combined row count in non-decreasing steps for every thread count (merge-partition-points).",
}
for _pid, _d in PROPERTY_RULES.items():
    for _r, _txt in _ADDENDA.items():
        if _r in _d["rules"]:
            _d["explanation"] += _txt
    if _pid in _PROP_ADDENDA:
        _d["explanation"] += _PROP_ADDENDA[_pid]

# C13 leans on the representation invariants (every stored endpoint is a vertex) that the mutators and the conversions establish:
# the rules that check those construction sites are part of its verdict
PROPERTY_RULES["C13"]["rules"] = PROPERTY_RULES["C13"]["rules"] + ["GUARD", "FROM-VALID"]
PROPERTY_RULES["C13"]["explanation"] += (" The row / word accesses indexed by a stored head are discharged by the representation "
                                         "invariant `every stored endpoint is a vertex`; the rules that establish it at the mutators "
                                         "(GUARD) and at the conversions from arbitrary input (FROM-VALID) are therefore part of this "
                                         "check.")
