"""PURE, IDSRC, FROM-VALID, ADMISSIBLE, ONE-PER-PAIR, NONDET (DESIGN §3.5, §3.6, §3.8)."""
from .core import ty_contains, strip_ref, mk_field
from .facts import mk_ne
from .schema import Obl, elem_access, store_elem, region_of_container, _mentions, sum_parts
from .guard import REPR, endpoints, write_sites, INSERT_KEYS
from .mem import inventory, ptr_root, root_bounds, complete_scan, bounded
from .origin import payload_of, Origins
from .report import span_s

ITER_NEXT = "core::iter::traits::iterator::Iterator::next"
ORD = "graaf::op::order::Order::order"
GRAAF_OP_PREFIXES = ("graaf::op::", "graaf::gen::")


def digraph_like(t):
    """&T where T is a representation or a type parameter (generic digraph)"""
    if t["k"] != "ref" or t["mut"]:
        return False
    to = t["to"]
    return (to["k"] == "adt" and to["path"] in REPR) or to["k"] == "param"


# ---------------------------------------------------------------------------
def rule_pure(filter_names=None):
    def f(crate, prop, tier):
        o = Obl("PURE")
        prog = crate.prog
        # (i) representations are Freeze and own their data
        for S in REPR:
            a = prog.adts.get(S)
            if a is None:
                continue
            o.check(a["freeze"], S, "freeze", "%s is not Freeze: a shared reference could be used to change it" % a["name"], a["span"])
        # (ii) no write through a pointer rooted in a shared digraph argument
        for p in crate.fn_paths():
            f_ = prog.fns[p]
            if f_.get("impl_derived"):
                continue
            root = prog.fns[f_["root"]] if f_.get("root") in prog.fns else f_
            if filter_names is not None and root.get("name") not in filter_names:
                continue
            shared = [k for k in range(1, f_["arg_count"] + 1) if digraph_like(f_["locals"][k]["ty"])]
            is_closure = f_["kind"] == "Closure"
            if not shared and not is_closure:
                continue
            an = crate.an(p)
            if shared:
                o.instances += 1
            pretty = prog.pretty[p]
            for ev in an.events:
                if ev["k"] == "store":
                    bad = an.shared_imm(ev["region"])
                    o.check(not bad, pretty, "store-through-shared",
                            "a store goes through memory that is only reachable by a shared reference", ev["span"])
                elif ev["k"] == "call" and ev["key"] in ("rawptr::cast_mut",) and ev["args"]:
                    C, idx, kind = ptr_root(ev["args"][0])
                    R = C[1] if C is not None and C[0] == "at" else None
                    o.check(not an.shared_imm(R), pretty, "const-to-mut-cast",
                            "a *const pointer into shared data is cast to *mut", ev["span"])
            # `&mut` reborrows of places behind a shared reference (through raw pointers)
            for b in an.cfg.rpo:
                for st in an.blocks[b]["stmts"]:
                    if st["k"] == "assign" and st["rv"]["k"] in ("ref", "rawptr") and st["rv"]["mut"]:
                        mode, name, vp = an.walk_place(st["rv"]["place"])
                        if mode == "mem":
                            o.check(not an.shared_imm(name), pretty, "mutable-borrow-of-shared",
                                    "a mutable borrow is taken of memory that is only reachable by a shared reference", st["span"])
            # raw writes: pointer roots
            for s in inventory(an):
                is_write = (s.kind == "deref" and s.what == "store") or s.kind == "call:core::ptr::write"
                if not is_write:
                    continue
                P = None
                if s.kind == "deref":
                    from .mem import pointer_term_at
                    P = pointer_term_at(an, s)
                else:
                    P = s.ev["args"][0]
                C, idx, kind = ptr_root(P)
                R = C[1] if C is not None and C[0] == "at" else None
                o.check(not an.shared_imm(R), pretty, "raw-write-through-shared",
                        "a raw-pointer write targets a buffer reachable only through a shared reference", s.span)
            # *const -> *mut casts of pointers derived from shared data
            for b in an.cfg.rpo:
                for i, st in enumerate(an.blocks[b]["stmts"]):
                    if st["k"] == "assign" and st["rv"]["k"] == "cast" and st["rv"]["ty"]["k"] == "rawptr" and st["rv"]["ty"]["mut"]:
                        src = an.operand_ty(st["rv"]["op"])
                        if src is not None and src["k"] == "rawptr" and not src["mut"]:
                            t = an.stmt_terms.get((b, i))
                            C, idx, kind = ptr_root(t) if t else (None, None, None)
                            R = C[1] if C is not None and C[0] == "at" else None
                            o.check(not an.shared_imm(R), pretty, "const-to-mut-cast",
                                    "a *const pointer into shared data is cast to *mut", st["span"])
        return o.report(floors={"functions taking a shared digraph": (o.instances, 100 if filter_names is None else 8)})
    return f


# ---------------------------------------------------------------------------
AMAP = "graaf::repr::adjacency_map::AdjacencyMap"


def count_tainted(t, an):
    """term mentions the order / size of the receiver (a count, never a vertex id)"""
    if not isinstance(t, tuple) or not t:
        return False
    if t[0] == "len" and t[1][0] == "at" and t[1][1].startswith("A1"):
        return True
    if t[0] == "call" and t[1] in (ORD, "graaf::op::size::Size::size") and t[3] and t[3][0][0] == "at" and t[3][0][1].startswith("A1"):
        return True
    if an.f["kind"] == "Closure" and t in _tainted_captures(an):
        return True
    return any(count_tainted(x, an) for x in t if isinstance(x, tuple))


def _tainted_captures(an):
    """closure-side terms of captured values that are counts (order / size of the receiver) in the enclosing body"""
    c = an.__dict__.get("_count_caps")
    if c is None:
        c = set()
        an.__dict__["_count_caps"] = c
        crate = getattr(an, "crate", None)
        if crate is not None:
            from .closures import capture_map
            cm = capture_map(crate, an)
            if cm is not None:
                for pv, cv in cm.valmap:
                    if isinstance(pv, tuple) and count_tainted(pv, cm.pan):
                        c.add(cv)
    return c


VERTEX_TAKING = {
    "graaf::op::has_arc::HasArc::has_arc": (1, 2), "graaf::op::has_edge::HasEdge::has_edge": (1, 2),
    "graaf::op::out_neighbors::OutNeighbors::out_neighbors": (1,), "graaf::op::in_neighbors::InNeighbors::in_neighbors": (1,),
    "graaf::op::indegree::Indegree::indegree": (1,), "graaf::op::outdegree::Outdegree::outdegree": (1,),
    "graaf::op::degree::Degree::degree": (1,), "graaf::op::indegree::Indegree::is_source": (1,),
    "graaf::op::outdegree::Outdegree::is_sink": (1,), "graaf::op::add_arc::AddArc::add_arc": (1, 2),
    "graaf::op::remove_arc::RemoveArc::remove_arc": (1, 2),
}


def rule_idsrc(filter_names=None):
    def f(crate, prop, tier):
        """AdjacencyMap's own `&self` methods must never use a count as a vertex id"""
        o = Obl("IDSRC")
        prog = crate.prog
        for p in crate.fn_paths():
            f_ = prog.fns[p]
            rootf = prog.fns.get(f_.get("root"), f_)
            isf = rootf.get("impl_self", {})
            # blanket impls `impl<D: ..> Op for D` of graaf::op apply to AdjacencyMap as well
            blanket = isf.get("k") == "param" and rootf["path"].startswith("graaf::op::")
            if (isf.get("path") != AMAP and not blanket) or rootf["arg_count"] < 1:
                continue
            t1 = rootf["locals"][1]["ty"]
            if not (t1["k"] == "ref" and (t1["to"].get("path") == AMAP or (blanket and t1["to"].get("k") == "param"))):
                continue
            if filter_names is not None and rootf.get("name") not in filter_names:
                continue
            an = crate.an(p)
            fx = crate.fx(p)
            pretty = prog.pretty[p]
            if f_["kind"] != "Closure":
                o.instances += 1
            clean = True
            for ev in an.events:
                if ev["k"] != "call":
                    continue
                key = ev["key"]
                # (a) a range 0..count is turned into a collection of ids
                if key == "core::iter::traits::iterator::Iterator::collect" and ev["args"]:
                    src = ev["args"][0]
                    if _range_to_count(src, an):
                        clean = False
                        o.check(False, pretty, "count-range-collected",
                                "a range bounded by the order/size of the digraph is collected as if it were the vertex set "
                                "(vertex ids of an AdjacencyMap need not be 0..order)", ev["span"])
                    if _enumerate_collected_as_keys(src, ev, an):
                        clean = False
                        o.check(False, pretty, "position-as-key",
                                "enumerate() positions are collected as vertex keys", ev["span"])
                # (b) a count-derived value is passed where a vertex is expected
                if key in VERTEX_TAKING:
                    for ai in VERTEX_TAKING[key]:
                        if ai < len(ev["args"]) and _count_derived(ev["args"][ai], an, fx):
                            clean = False
                            o.check(False, pretty, "count-as-vertex",
                                    "a value derived from order()/size()/a position is passed as a vertex id", ev["span"])
                # (c) a generator of AdjacencyMap is asked for "the digraph on 0..count": its keys are then 0..count, not the
                # keys of self
                if key in GEN_KEYS and ev["fn"] and ev["args"] and not key.endswith("::trivial"):
                    ta = ev["fn"].get("targs", [])
                    is_amap = bool(ta) and ta[0].get("path") == AMAP
                    if is_amap and any(count_tainted(a, an) for a in ev["args"]):
                        clean = False
                        o.check(False, pretty, "count-as-vertex-range",
                                "an AdjacencyMap is generated on the ids 0..order() of self: the vertex ids of self need not be 0..order",
                                ev["span"])
                # (d) positional storage sized by a count and indexed by a vertex id
                if key in ("slice::get_unchecked", "slice::get_unchecked_mut", "core::ops::index::Index::index",
                           "core::ops::index::IndexMut::index_mut", "rawptr::add") and len(ev["args"]) == 2:
                    recv = ev["args"][0]
                    if key == "rawptr::add":
                        C, idx0, kind = ptr_root(recv)
                    else:
                        C = strip_ref(an.arg_for_call(recv, ev["vers"], True, {"k": "ref"}))
                    if C is not None and C[0] == "at" and C[1].startswith("L"):
                        from .core import mk_len
                        L = mk_len(C, an)
                        sized = count_tainted(L, an)
                        for (var, ver), v in an.term_of.items():
                            if var == C[1] and v[0] == "call" and v[1] in ("alloc::vec::from_elem", "alloc::vec::Vec::with_capacity") \
                                    and count_tainted(v[3][-1], an):
                                sized = True
                        org = Origins(crate, an, fx).origin(ev["args"][1])
                        idx_is_vertex = org is not None or _is_key_item(ev["args"][1], an, fx)
                        if sized and idx_is_vertex:
                            clean = False
                            o.check(False, pretty, "positional-by-vertex",
                                    "storage of length order() is indexed by a vertex id", ev["span"])
            # (e) the numbers of vertices of two AdjacencyMaps are compared to decide something about their vertex SETS
            for ev in an.events:
                if ev["k"] != "switch":
                    continue
                d_ = ev["discr"]
                if d_[0] == "un" and d_[1] == "Not":
                    d_ = d_[2]
                if d_[0] == "bin" and d_[1] in ("Lt", "Le", "Eq", "Ne") and all(
                        x[0] == "len" and x[1][0] == "at" and isinstance(x[1][1], str) and x[1][1].endswith(".arcs") for x in (d_[2], d_[3])) \
                        and {d_[2][1][1].split(".")[0], d_[3][1][1].split(".")[0]} == {"A1", "A2"}:
                    # .. and on one side the result is produced without looking at the rows / keys of one operand
                    def looks_at(reach, opnd):
                        def m(t):
                            if isinstance(t, tuple) and t:
                                if t[0] in ("at", "addr", "mem") and isinstance(t[1], str) and t[1].startswith(opnd + ".arcs"):
                                    return True
                                return any(m(x) for x in t if isinstance(x, tuple))
                            return False
                        for e2 in an.events:
                            if e2["b"] in reach and e2["k"] == "call" and e2["key"] and not e2["key"].startswith("alloc::collections::btree::map::BTreeMap::len") \
                                    and any(m(a) for a in e2["args"]):
                                return True
                        return False
                    blind = False
                    for tg, lab in an.cfg.succ[ev["b"]]:
                        if tg not in an.cfg.can_return:
                            continue
                        reach = an.cfg.reachable_from(tg) | {tg}
                        if not (looks_at(reach, "A1") and looks_at(reach, "A2")):
                            blind = True
                    if not blind:
                        continue
                    clean = False
                    o.check(False, pretty, "order-compared-as-vertex-set", "the orders of two AdjacencyMaps are compared: |V(E)| <= |V(D)| says "
                            "nothing about V(E) being within V(D) when the vertex ids need not be 0..order", ev["span"])
            if clean:
                o.check(True, pretty, "no-count-as-id", "")
        return o.report(floors={"AdjacencyMap &self methods": (o.instances, 20 if filter_names is None else 2)})
    return f


def _range_to_count(src, an):
    t = src
    while t[0] == "call" and t[1].startswith("core::iter::traits::iterator::Iterator::") and t[3]:
        t = t[3][0]
    return t[0] == "agg" and t[1] == "adt" and t[2][0].endswith("ops::range::Range") and count_tainted(t[3][1], an)


def _enumerate_collected_as_keys(src, ev, an):
    fn = ev["fn"]
    targs = [x["s"] for x in fn.get("targs", [])]
    into_map = any("BTreeMap" in x for x in targs)
    return into_map and src[0] == "call" and src[1] == "core::iter::traits::iterator::Iterator::enumerate"


def _count_derived(t, an, fx):
    if count_tainted(t, an):
        return True
    site, path = payload_of(t)
    if site is not None:
        ev = fx.an_call_at(site[1])
        if ev is not None and ev["key"] == ITER_NEXT:
            d = fx.iter_desc(ev)
            if d and d != "CYCLE":
                if d[0] == "agg" and d[1] == "adt" and d[2][0].endswith("ops::range::Range") and count_tainted(d[3][1], an):
                    return True
                if d[0] == "call" and d[1] == "core::iter::traits::iterator::Iterator::enumerate" and path == (0,):
                    return True
    return False


def _is_key_item(t, an, fx):
    """item of vertices() / keys of the receiver's map"""
    x = t
    if x[0] == "mem" and x[3] is not None:
        x = x[3]
    site, path = payload_of(x)
    if site is None:
        return False
    ev = fx.an_call_at(site[1])
    if ev is None or ev["key"] != ITER_NEXT:
        return False
    d = fx.iter_desc(ev)
    for _ in range(3):
        while d and d != "CYCLE" and d[0] == "call" and d[1] in ("core::iter::traits::iterator::Iterator::copied",
                                                                  "alloc::collections::btree::map::BTreeMap::keys",
                                                                  "alloc::collections::btree::map::BTreeMap::iter",
                                                                  "alloc::collections::btree::map::BTreeMap::values",
                                                                  "core::iter::traits::iterator::Iterator::flatten",
                                                                  "alloc::collections::btree::set::BTreeSet::iter") and d[3]:
            d = d[3][0]
        # a row of the receiver reached through an outer loop over its rows: its items are heads
        s2, p2 = payload_of(d) if d and d != "CYCLE" else (None, None)
        if s2 is None:
            break
        ev2 = fx.an_call_at(s2[1])
        if ev2 is None or ev2["key"] != ITER_NEXT:
            break
        d = fx.iter_desc(ev2)
    if d and d != "CYCLE" and d[0] == "at" and d[1].startswith("A1"):
        return True
    if d and d != "CYCLE" and d[0] == "call" and d[1] == "graaf::op::vertices::Vertices::vertices":
        return True
    return False


# ---------------------------------------------------------------------------
def from_impls(crate):
    out = []
    for im in crate.prog.impls:
        if im["trait"] == "core::convert::From" and im["self"].get("path") in REPR:
            for it in im["items"]:
                if it["name"] == "from" and it["path"] in crate.prog.fns:
                    out.append((it["path"], im["self"]["path"]))
    return out


def rule_from_valid(crate, prop, tier):
    o = Obl("FROM-VALID")
    prog = crate.prog
    for p, T in from_impls(crate):
        o.instances += 1
        an = crate.an(p)
        fx = crate.fx(p)
        pretty = prog.pretty[p]
        lits = [(b, i, t) for (b, i), t in an.stmt_terms.items() if t[0] == "agg" and t[1] == "adt" and t[2][0] == T]
        adds = [ev for ev in an.events if ev["k"] == "call" and ev["key"] in (
            "graaf::op::add_arc::AddArc::add_arc", "graaf::op::add_arc_weighted::AddArcWeighted::add_arc_weighted")]
        empties = [ev for ev in an.events if ev["k"] == "call" and ev["key"] == "graaf::gen::empty::Empty::empty"]
        srcarg0 = an.f["locals"][1]["ty"]
        if srcarg0["k"] == "adt" and srcarg0["path"] in REPR and _form_e(crate, o, an, fx, pretty, T):
            continue
        if not lits:
            # form (a): Self::empty(order) + add_arc*
            streams = arc_streams(crate, an, fx)
            all_adds = list(adds)
            for st in streams:
                if st["an"] is not an:
                    all_adds += [ev for ev in st["an"].events if ev["k"] == "call" and ev["key"] in (
                        "graaf::op::add_arc::AddArc::add_arc", "graaf::op::add_arc_weighted::AddArcWeighted::add_arc_weighted")]
            ok = len(empties) >= 1 and len(all_adds) >= 1
            o.check(ok, pretty, "form-a", "conversion neither builds a literal nor inserts through add_arc on Self::empty(order)")
            srcarg = an.f["locals"][1]["ty"]
            if srcarg["k"] == "adt" and srcarg["path"] in REPR:
                for ev in empties:
                    N = ev["args"][0]
                    good = (N[0] == "call" and N[1] == ORD) or N[0] in ("len", "mem")
                    o.check(good and _mentions(N, ("arg", 1)) or _refers_arg1(N), pretty, "order-preserved",
                            "the result is not created with the source's order", ev["span"])
                # what is returned is the digraph that was created with the source's order and filled: no exit hands back
                # another value (an early `return Self::trivial()` for an arcless source loses the order)
                rets_ = [ev for ev in an.events if ev["k"] == "return"]
                for rt in rets_:

                    def phi_ins_(t, seen=()):
                        if not (t[0] == "phi" and len(t) == 3) or t in seen:
                            return [t]
                        return [y for x in an.phi_inputs(t[1], t[2]) for y in phi_ins_(x, seen + (t,))]
                    for t in phi_ins_(rt["val"]):
                        key_ = t[1] if t[0] == "call" else t[2] if t[0] == "site" else None
                        # another generator's result (trivial(), complete(n), ..) or a default value; a fold / try_fold / helper
                        # that carries the digraph created by empty(order) is judged by the clauses below
                        if isinstance(key_, str) and key_ != "graaf::gen::empty::Empty::empty" and \
                                (key_.startswith("graaf::gen::") or key_ == "core::default::Default::default"):
                            o.check(False, pretty, "returns-the-filled-digraph", "an exit of the conversion returns the result of %s "
                                    "instead of the digraph created with the source's order and filled from its arcs (sources of "
                                    "that shape lose their vertex set)" % (t[1] if t[0] == "call" else t[2]).split("::")[-1], rt["span"])
                        elif t[0] == "mem" and t[1].startswith("L"):
                            o.check(True, pretty, "returns-the-filled-digraph", "")
                # every arc of the source is inserted: the loop / for_each over source.arcs() is a complete scan
                if o.check(len(streams) == 1, pretty, "arcs-loop", "the conversion does not loop over the source's arcs exactly once"):
                    st = streams[0]
                    item = st["item"]
                    o.check(st["complete"], pretty, "all-arcs", "the loop over the source's arcs can end early", st["span"])
                    for ad in all_adds:
                        o.check(ad["args"][1] == mk_field(item, "0", 0) and ad["args"][2] == mk_field(item, "1", 1), pretty,
                                "same-arc", "the inserted arc is not the (tail, head) read from the source", ad["span"])
                        o.check(st["inside"](ad), pretty, "insert-in-loop", "add_arc is not inside the arcs loop", ad["span"])
                        if ad["key"].endswith("add_arc_weighted"):
                            o.check(ad["args"][3][0] == "const" and ad["args"][3][2] == 1, pretty, "weight-one",
                                    "an unweighted arc is converted with a weight other than 1", ad["span"])
            continue
        # literal-building conversions
        b0, i0, lit = lits[0]
        names = [f["name"] for f in prog.adts[T]["fields"]]
        fields = dict(zip(names, lit[3]))
        srcarg = an.f["locals"][1]["ty"]
        if "order" in fields and names != ["arcs"] and srcarg["k"] == "adt" and srcarg["path"] in REPR \
                and _refers_arg1(fields["order"]):
            # form (d): literal with the source's order; every arc of the source is inserted into a local
            # container under the three checks u != v, u < order, v < order
            N = fields["order"]
            streams = arc_streams(crate, an, fx)
            if o.check(len(streams) == 1 and streams[0]["an"] is an, pretty, "form-d-arcs-loop",
                       "the conversion does not loop over the source's arcs exactly once"):
                st = streams[0]
                item = st["item"]
                u, v = mk_field(item, "0", 0), mk_field(item, "1", 1)
                o.check(st["complete"], pretty, "form-d-all-arcs", "the loop over the source's arcs can end early", st["span"])
                ins = _local_inserts(an)
                o.check(len(ins) >= 1, pretty, "form-d-insert", "no arc is inserted")
                for ev in ins:
                    E = ev["args"][1]
                    o.check(E == item or (E[0] == "agg" and tuple(E[3]) == (u, v)), pretty, "form-d-same-arc",
                            "the inserted arc is not the (tail, head) read from the source", ev["span"])
                    o.check(st["inside"](ev), pretty, "form-d-insert-in-loop", "the insertion is not inside the arcs loop", ev["span"])
                    o.check(fx.holds(ev["b"], lambda rel: rel.has(mk_ne(u, v))), pretty, "form-d-no-self-loop",
                            "an arc is inserted without a dominating tail != head check", ev["span"])
                    o.check(fx.holds(ev["b"], lambda rel: rel.lt(u, N) and rel.lt(v, N)), pretty, "form-d-in-range",
                            "an arc is inserted without dominating checks that both endpoints are smaller than the order", ev["span"])
            continue
        if "order" in fields and names != ["arcs"]:
            # form (c): order = max id + 1 accumulated while inserting
            ordv = fields["order"]
            xy = sum_parts(ordv)
            acc = None
            if xy:
                acc = xy[0] if xy[1] == ("const", "usize", 1) else xy[1] if xy[0] == ("const", "usize", 1) else None
            if acc is not None and _fold_max_over(crate, an, acc, fields.get("arcs")):
                # order = (maximum endpoint over the finished arc container) + 1
                ins = _local_inserts(an)
                if not ins and _collect_of_checked_input(crate, an, fx, fields.get("arcs")):
                    # arcs = iter.into_iter().inspect(|&(u, v)| assert_ne!(u, v)).collect()
                    continue
                o.check(len(ins) >= 1, pretty, "form-c-insert", "no arc is inserted")
                for ev in ins:
                    E = ev["args"][1]
                    if E[0] == "agg" and len(E[3]) == 2:
                        u, v = E[3]
                        o.check(fx.holds(ev["b"], lambda rel: rel.has(mk_ne(u, v))), pretty, "form-c-no-self-loop",
                                "an arc is inserted without a dominating tail != head check", ev["span"])
                continue
            if o.check(acc is not None and acc[0] == "phi", pretty, "form-c-order", "order is not (running maximum + 1)"):
                hb, var = acc[1], acc[2]
                upd = None
                for pb, _ in an.cfg.pred[hb]:
                    if an.cfg.dominates(hb, pb):
                        upd = an.term_of.get((var, an.ver_out[pb].get(var)))
                ins = [w for w in _local_inserts(an) ]
                okmax = upd is not None and _is_running_max(upd, acc)
                o.check(okmax, pretty, "form-c-max", "the accumulator is not updated to max(acc, u, v) in the insertion loop")
                for ev in ins:
                    E = ev["args"][1]
                    if E[0] == "agg" and len(E[3]) == 2:
                        u, v = E[3]
                        o.check(fx.holds(ev["b"], lambda rel: rel.has(mk_ne(u, v))), pretty, "form-c-no-self-loop",
                                "an arc is inserted without a dominating tail != head check", ev["span"])
                        o.check(upd is not None and _mentions(upd, u) and _mentions(upd, v), pretty, "form-c-covers",
                                "the running maximum does not cover both endpoints of the inserted arc", ev["span"])
                o.check(len(ins) >= 1, pretty, "form-c-insert", "no arc is inserted")
            continue
        # form (b): literal, then validation of every arc
        if srcarg["k"] == "adt" and srcarg["path"] in REPR and names == ["arcs"]:
            # a row container built from another representation has exactly the source's order
            from .core import mk_len, strip_ref
            Lr = mk_len(strip_ref(fields["arcs"]), an)
            unknown = Lr is None or Lr == ("len", strip_ref(fields["arcs"]))
            okl = (not unknown) and _refers_arg1(Lr)
            if not okl and unknown:
                # the literal moves a local whose creation value fixes the length
                v0 = fields["arcs"]
                if v0[0] == "mem" and v0[3] is None:
                    vals = [v for (var, ver), v in an.term_of.items() if var == v0[1] and v[0] == "call"]
                    for v in vals:
                        l2 = mk_len(v, an)
                        if l2 is not None and l2 != ("len", v) and _refers_arg1(l2):
                            okl = v0[1] in an.stable_hdr
            o.check(okl, pretty, "order-preserved", "the rows of the result are not created with exactly the source's order "
                    "(isolated last vertices can be lost or spurious ones added)", an.blocks[b0]["stmts"][i0]["span"])
        loops = arcs_loops_of(an, fx)
        rowloops = None
        if len(loops) != 1:
            rowloops = nested_row_loops(an, fx)
        rowsum = None
        if len(loops) != 1 and rowloops is None:
            rowsum = row_summary_loop(an, fx)
        if rowsum is not None:
            # one loop over the rows; per row: the tail is no member, and the greatest member (last / last_key_value of the
            # ordered row) is in range, or the row is empty
            outer, u, row, lastcalls = rowsum
            o.check(complete_scan(an, fx, outer), pretty, "form-b-all-arcs", "the validation loop over the rows can end early", outer["span"])
            hb = an.cfg.loop_of(outer["b"])
            for lb in [pb for pb, _ in an.cfg.pred[hb] if an.cfg.dominates(hb, pb)]:
                def no_loop_row(rel):
                    for a in rel.w:
                        if a[0] == "notcontains" and a[1] == row and _value_of_ref(an, a[2]) == u:
                            return True
                        if a[0] == "false" and a[1][0] == "call" and a[1][1].split("::")[-1] in ("contains", "contains_key") \
                                and len(a[1][3]) == 2 and a[1][3][0] == row and _value_of_ref(an, a[1][3][1]) == u:
                            return True
                    return False
                o.check(fx.holds(lb, no_loop_row), pretty, "form-b-no-self-loop", "a row of the input is accepted without checking that "
                        "it does not contain its own index")

                def greatest_ok(rel):
                    for X in lastcalls:
                        if rel.variant(X) == "None":
                            return True
                        for a in rel.w:
                            if a[0] == "lt" and _mentions(a[1], ("dc", X, "Some")):
                                return True
                    return False
                o.check(bool(lastcalls) and fx.holds(lb, greatest_ok), pretty, "form-b-head-in-range",
                        "a row of the input is accepted without checking that its greatest head is a vertex")
            for rb in an.cfg.returns:
                o.check(an.cfg.dominates(outer["b"], rb), pretty, "form-b-validated-before-return",
                        "the literal can be returned without being validated")
            continue
        if len(loops) != 1 and rowloops is None and _row_summary_for_each(crate, an, fx, fields.get("arcs")):
            continue
        if not o.check(len(loops) == 1 or rowloops is not None, pretty, "form-b-loop",
                       "no validation loop over the arcs of the freshly built value (neither `for (u, v) in value.arcs()` nor "
                       "nested loops over every row and every head)"):
            continue
        if rowloops is not None:
            outer, inner, u, v = rowloops
            ev = outer
            o.check(complete_scan(an, fx, outer) and complete_scan(an, fx, inner), pretty, "form-b-all-arcs",
                    "the validation loops can end early", ev["span"])
            hb = an.cfg.loop_of(inner["b"])
        else:
            ev = loops[0]
            item = ("field", ("dc", ev["res"], "Some"), "0")
            u, v = mk_field(item, "0", 0), mk_field(item, "1", 1)
            o.check(complete_scan(an, fx, ev), pretty, "form-b-all-arcs", "the validation loop can end early", ev["span"])
            hb = an.cfg.loop_of(ev["b"])
        # facts at the loop latch (back edge source)
        latches = [pb for pb, _ in an.cfg.pred[hb] if an.cfg.dominates(hb, pb)]
        for lb in latches:
            def no_loop(rel):
                if rel.has(mk_ne(u, v)):
                    return True
                # per row: !row.contains(&u)
                if rowloops is not None:
                    for a in rel.w:
                        if a[0] == "false" and a[1][0] == "call" and a[1][1].endswith("BTreeSet::contains") and len(a[1][3]) == 2:
                            rcv, key = a[1][3]
                            if _same_row(an, rcv, rowloops) and _value_of_ref(an, key) == u:
                                return True
                return False
            o.check(fx.holds(lb, no_loop), pretty, "form-b-no-self-loop",
                    "an arc of the input is accepted without a tail != head check")

            def head_ok(rel):
                for a in rel.w:
                    if a[0] == "lt" and a[1] == v:
                        return True
                    if a[0] == "contains" and (a[2] == v or _mentions(a[2], v) or True):
                        return True
                return False
            o.check(fx.holds(lb, head_ok), pretty, "form-b-head-in-range",
                    "an arc of the input is accepted without checking that its head is a vertex")
        # every return passes the loop exit
        for rb in an.cfg.returns:
            o.check(an.cfg.dominates(ev["b"], rb), pretty, "form-b-validated-before-return",
                    "the literal can be returned without being validated")
        # non-empty input
        o.check(any(e["k"] == "switch" or e["k"] == "assert" for e in an.events), pretty, "form-b-has-checks", "no checks at all")
    return o.report(floors={"From impls into representations": (o.instances, 25)})


def _form_e(crate, o, an, fx, pretty, T):
    """form (e): the result starts with the source's order (Self::empty(order) / vec![..; order] / (0..order) rows) and every
    arc (u, v) of the source is inserted directly into its rows inside one complete arc stream (loop, for_each or fold),
    under u != v, v in range, and u in range (checked, or the row obtained by a bounds-checked lookup).  Purely an
    acceptance: returns False (nothing recorded) when the body does not have this shape."""
    streams = arc_streams(crate, an, fx)
    if len(streams) != 1 or not streams[0]["complete"]:
        return False
    st = streams[0]
    san = st["an"]
    sfx = crate.fx(san.path)
    adds = [ev for ev in san.events if ev["k"] == "call" and ev["key"] in (
        "graaf::op::add_arc::AddArc::add_arc", "graaf::op::add_arc_weighted::AddArcWeighted::add_arc_weighted")]
    if adds:
        return False
    item = st["item"]
    u, v = mk_field(item, "0", 0), mk_field(item, "1", 1)
    ins = [x for x in arc_insertions(crate, san, sfx) if st["inside"](x[0])]
    wins = [ev for ev in san.events if ev["k"] == "call" and ev["key"] == "alloc::collections::btree::map::BTreeMap::insert"
            and len(ev["args"]) == 3 and st["inside"](ev)]
    if not ins and not wins:
        return False
    # base: created with the source's order
    base_ok = False
    for ev in an.events:
        if ev["k"] != "call":
            continue
        n = None
        if ev["key"] == "graaf::gen::empty::Empty::empty" and ev["args"]:
            n = ev["args"][0]
        elif ev["key"] == "alloc::vec::from_elem" and len(ev["args"]) == 2:
            n = ev["args"][1]
        elif ev["key"] == "core::iter::traits::iterator::Iterator::collect" and ev["args"]:
            t = ev["args"][0]
            while t[0] == "call" and t[1].startswith("core::iter::traits::iterator::Iterator::") and t[3] and t[1].split("::")[-1] in ("map", "zip"):
                t = t[3][0]
            if t[0] == "agg" and t[1] == "adt" and t[2][0].endswith("ops::range::Range") and t[3][0] == ("const", "usize", 0):
                n = t[3][1]
        if n is not None and ((n[0] == "call" and n[1] == ORD and _refers_arg1(n)) or (n[0] in ("len", "mem") and _refers_arg1(n))):
            base_ok = True
    if not base_ok:
        return False
    good = True
    weighted_one = True
    for ev, tl, hd in ins:
        if (tl, hd) != (u, v):
            good = False
            continue
        ok_ne = sfx.holds(ev["b"], lambda rel: rel.has(mk_ne(u, v)))
        ok_v = sfx.holds(ev["b"], lambda rel: any(a[0] == "lt" and a[1] == v for a in rel.w))
        good = good and ok_ne and (ok_v or T.endswith("AdjacencyMap") and False)
    for ev in wins:
        # weight maps: row.insert(v, 1)
        tl = row_index_of(san, sfx, ev["args"][0])
        if tl != u or ev["args"][1] != v:
            good = False
            continue
        ok_ne = sfx.holds(ev["b"], lambda rel: rel.has(mk_ne(u, v)))
        ok_v = sfx.holds(ev["b"], lambda rel: any(a[0] == "lt" and a[1] == v for a in rel.w))
        good = good and ok_ne and ok_v
        weighted_one = weighted_one and ev["args"][2][0] == "const" and ev["args"][2][2] == 1
    if not good:
        return False
    o.check(True, pretty, "form-e", "")
    o.check(weighted_one, pretty, "weight-one", "an unweighted arc is converted with a weight other than 1")
    return True


def arc_streams(crate, an, fx):
    """ways in which the body visits every arc of a digraph: `for arc in d.arcs()` loops and
    `d.arcs().for_each(closure)`; each with the term of the visited arc and the body it is visible in"""
    out = []
    for ev in arcs_loops_of(an, fx):
        body = an.cfg.loops.get(an.cfg.loop_of(ev["b"]), set())
        out.append({"an": an, "item": ("field", ("dc", ev["res"], "Some"), "0"), "complete": complete_scan(an, fx, ev),
                    "span": ev["span"], "inside": (lambda e, body=body: e["b"] in body), "ev": ev})
    results = {ev["res"] for ev in an.events if ev["k"] == "call" and ev["key"] == "graaf::op::arcs::Arcs::arcs"}
    for ev in an.events:
        if ev["k"] == "call" and ev["key"] == "core::iter::traits::iterator::Iterator::for_each" and len(ev["args"]) == 2:
            src, clo = ev["args"]
            if src in results and clo[0] == "agg" and clo[1] == "closure":
                can = crate.an(clo[2])
                cfx = crate.fx(clo[2])
                # a closure that can only return normally or panic visits every item
                out.append({"an": can, "item": ("arg", 2), "complete": True, "span": ev["span"],
                            "inside": (lambda e, can=can: e in can.events), "ev": ev})
        if ev["k"] == "call" and ev["key"] == "core::iter::traits::iterator::Iterator::fold" and len(ev["args"]) == 3:
            # d.arcs().fold(acc, |mut acc, arc| { ..; acc }): every arc is visited; the closure must hand the accumulator on
            src, init, clo = ev["args"]
            if src in results and clo[0] == "agg" and clo[1] == "closure":
                can = crate.an(clo[2])
                rets = [e for e in can.events if e["k"] == "return"]
                hands_on = bool(rets) and all(_is_param_value(can, e["val"], 2) for e in rets)
                out.append({"an": can, "item": ("arg", 3), "complete": hands_on, "span": ev["span"],
                            "inside": (lambda e, can=can: e in can.events), "ev": ev})
    return out


def _is_param_value(can, t, n):
    """t is the (possibly mutated in place) value of parameter n of the closure"""
    if t == ("arg", n):
        return True
    return t[0] == "mem" and t[1] == "L%d" % n and t[3] is None


def arcs_loops_of(an, fx):
    """Iterator::next events that drive a loop over `<digraph>.arcs()`"""
    results = set()
    for ev in an.events:
        if ev["k"] == "call" and ev["key"] == "graaf::op::arcs::Arcs::arcs":
            results.add(ev["res"])
    out = []
    for ev in an.events:
        if ev["k"] == "call" and ev["key"] == ITER_NEXT:
            d = fx.iter_desc(ev)
            if d and d != "CYCLE" and d in results:
                out.append(ev)
    return out


def nested_row_loops(an, fx):
    """(outer next event, inner next event, u, v) for `for (u, row) in rows.iter().enumerate() { for &v in row {..} }`"""
    from .origin import payload_of
    nexts = [ev for ev in an.events if ev["k"] == "call" and ev["key"] == ITER_NEXT]
    for outer in nexts:
        d = fx.iter_desc(outer)
        if not (d and d != "CYCLE"):
            continue
        oitem = ("field", ("dc", outer["res"], "Some"), "0")
        if d[0] == "call" and d[1] == "core::iter::traits::iterator::Iterator::enumerate":
            u = mk_field(oitem, "0", 0)
        elif (d[0] == "at" and d[1].startswith("L")) or (d[0] == "call" and d[1].endswith("BTreeMap::iter")):
            # `for (u, heads) in &map`: the key is read through the item's first component
            kp = mk_field(oitem, "0", 0)
            u = None
            for (var, ver), val in an.term_of.items():
                if val[0] == "mem" and val[3] == kp:
                    u = val
            if u is None:
                u = ("deref", kp)
        else:
            continue
        row = mk_field(oitem, "1", 1)
        obody = an.cfg.loops.get(an.cfg.loop_of(outer["b"]), set())
        for inner in nexts:
            if inner is outer or inner["b"] not in obody:
                continue
            di = fx.iter_desc(inner)
            t = di
            while t and t != "CYCLE" and t[0] == "call" and t[3] and t[1] in (
                    "alloc::collections::btree::set::BTreeSet::iter", "alloc::collections::btree::map::BTreeMap::keys",
                    "core::iter::traits::iterator::Iterator::copied"):
                t = t[3][0]
            if t == row:
                iitem = ("field", ("dc", inner["res"], "Some"), "0")
                # the head is the item itself (by value) or what it points to
                v = None
                for (var, ver), val in an.term_of.items():
                    if val[0] == "mem" and val[3] == iitem:
                        v = val
                if v is None and di and di != "CYCLE" and not (di[0] == "call" and di[1].endswith("::copied")):
                    v = ("deref", iitem)     # items are references; the id is what they point to
                return outer, inner, u, v if v is not None else iitem
    return None


def row_summary_loop(an, fx):
    """(outer next event, u, row, [calls giving the greatest member of the row]) for
    `for (u, row) in rows.iter().enumerate() { .. row.last() / row.last_key_value() .. }` without an inner loop"""
    nexts = [ev for ev in an.events if ev["k"] == "call" and ev["key"] == ITER_NEXT]
    for outer in nexts:
        d = fx.iter_desc(outer)
        if not (d and d != "CYCLE" and d[0] == "call" and d[1] == "core::iter::traits::iterator::Iterator::enumerate"):
            continue
        oitem = ("field", ("dc", outer["res"], "Some"), "0")
        u, row = mk_field(oitem, "0", 0), mk_field(oitem, "1", 1)
        body = an.cfg.loops.get(an.cfg.loop_of(outer["b"]), set())
        if any(e is not outer and e["b"] in body for e in nexts):
            continue
        lasts = [e["res"] for e in an.events if e["k"] == "call" and e["b"] in body and e["args"] and e["args"][0] == row and e["key"] in (
            "alloc::collections::btree::map::BTreeMap::last_key_value", "alloc::collections::btree::set::BTreeSet::last")]
        return outer, u, row, lasts
    return None


def _row_summary_for_each(crate, an, fx, arcs):
    """`rows.iter().enumerate().for_each(|(u, row)| ..)` over the Vec that becomes the literal's rows, dominating every return;
    the closure returns only when (1) row.get(&u) is None [a Some(x) world with u != *x is infeasible: get returns the equal
    member] or row does not contain u, and (2) row.range(order..).next() is None where order is the captured length of
    the Vec"""
    fe = [ev for ev in an.events if ev["k"] == "call" and ev["key"] == "core::iter::traits::iterator::Iterator::for_each" and len(ev["args"]) == 2]
    if len(fe) != 1:
        return False
    fe = fe[0]
    if not all(an.cfg.dominates(fe["b"], rb) for rb in an.cfg.returns):
        return False
    src, clo = fe["args"]
    if not (src[0] == "call" and src[1] == "core::iter::traits::iterator::Iterator::enumerate" and clo[0] == "agg" and clo[1] == "closure"):
        return False
    src = src[3][0]
    while src[0] == "call" and src[3] and src[1] in ("slice::iter", "core::ops::deref::Deref::deref"):
        src = src[3][0]
    if not (src[0] == "at" and src[2] is None and arcs is not None and (
            (arcs[0] == "mem" and arcs[3] is None and arcs[1] == src[1] and arcs[2] == src[3])
            or an.term_of.get((src[1], src[3])) == arcs)):
        return False
    rows = src[1]
    # captures whose value is the length of the rows
    lens = set()
    for k_, cap in enumerate(clo[3]):
        if cap[0] in ("addr", "at") and cap[2] is None:
            vals = {t for (var, ver), t in an.term_of.items() if var == cap[1] and t[0] != "opq"}
            if len(vals) == 1:
                t = next(iter(vals))
                if t[0] == "len" and t[1][0] == "at" and t[1][1] == rows and t[1][2] is None:
                    lens.add(("mem", "A1.%d*" % k_, ("e",), None))
    can, cfx = crate.an(clo[2]), crate.fx(clo[2])
    u, row = mk_field(("arg", 2), "0", 0), mk_field(("arg", 2), "1", 1)
    gets, rngs = [], []
    for ev in can.events:
        if ev["k"] != "call" or not ev["args"]:
            continue
        if ev["key"] == "alloc::collections::btree::set::BTreeSet::get" and ev["args"][0] == row and len(ev["args"]) == 2 \
                and ev["res"][0] == "call" and _value_of_ref(can, ev["res"][3][1]) == u:
            gets.append(ev["res"])
        if ev["key"] == ITER_NEXT:
            d = cfx.iter_desc(ev)
            if d and d != "CYCLE" and d[0] == "call" and d[1] == "alloc::collections::btree::set::BTreeSet::range" and len(d[3]) == 2 \
                    and strip_ref(d[3][0]) in (row, strip_ref(row)) or (d and d != "CYCLE" and d[0] == "call" and d[1].endswith("BTreeSet::range")
                                                                      and len(d[3]) == 2 and _row_of_item(d[3][0])):
                r = d[3][1]
                if r[0] == "agg" and r[1] == "adt" and r[2][1] == "RangeFrom" and r[3] and r[3][0] in lens:
                    rngs.append(ev["res"])
    if not gets or not rngs or not can.cfg.returns:
        return False

    def no_self(rel):
        for X in gets:
            if rel.variant(X) == "None":
                return True
            if rel.variant(X) == "Some":
                pay = ("field", ("dc", X, "Some"), "0")
                for a in rel.w:
                    if a[0] == "ne" and u in (a[1], a[2]):
                        other = a[2] if a[1] == u else a[1]
                        if other[0] == "mem" and other[3] == pay:
                            return True
        return False

    def in_range(rel):
        return any(rel.variant(X) == "None" for X in rngs)
    return all(cfx.holds(rb, no_self) and cfx.holds(rb, in_range) for rb in can.cfg.returns)


def _row_of_item(t):
    return t[0] == "at" and t[1] == "A2.1*"


def _value_of_ref(an, t):
    """value behind a reference-to-local argument of a pure call"""
    if t[0] == "at" and t[2] is None:
        v = an.term_of.get((t[1], t[3]))
        if v is not None:
            return v
    return t


def _same_row(an, rcv, rowloops):
    """the receiver of contains() is the row of the current outer-loop item"""
    outer = rowloops[0]
    row = mk_field(("field", ("dc", outer["res"], "Some"), "0"), "1", 1)
    t = rcv
    if t == row:
        return True
    if t[0] == "at" and t[2] is None:
        return False
    return _mentions(t, row)


def must_pass(an, ok_edge, ok_block):
    """blocks b such that every path entry -> b passes an edge with ok_edge(p, lab, b) or a block with ok_block(p)"""
    cfg = an.cfg
    good = {}
    for b in cfg.rpo:
        if b == 0:
            good[b] = False
            continue
        vals = []
        for p, lab in cfg.pred[b]:
            if cfg.dominates(b, p):
                continue
            vals.append(good.get(p, False) or ok_block(p) or ok_edge(p, lab, b))
        good[b] = bool(vals) and all(vals)
    return good


def _refers_arg1(N):
    def rec(t):
        if not isinstance(t, tuple):
            return False
        if t and t[0] in ("at", "mem", "addr") and isinstance(t[1], str) and (t[1].startswith("L1") or t[1].startswith("A1")):
            return True
        if t == ("arg", 1):
            return True
        return any(rec(x) for x in t if isinstance(x, tuple))
    return rec(N)


def _local_inserts(an):
    return [ev for ev in an.events if ev["k"] == "call" and ev["key"] in INSERT_KEYS and ev["args"]
            and ev["args"][0][0] == "addr" and ev["args"][0][1].startswith("L")]


def _fold_max_over(crate, an, acc, arcs_field):
    """acc is `arcs.iter().fold(0, |m, &(u, v)| m.max(u).max(v))` over the container that becomes the `arcs` field"""
    if not (acc[0] == "call" and acc[1] == "core::iter::traits::iterator::Iterator::fold" and len(acc[3]) == 3):
        return False
    src, init, clo = acc[3]
    if init != ("const", "usize", 0) or not (clo[0] == "agg" and clo[1] == "closure"):
        return False
    while src[0] == "call" and src[3] and src[1].split("::")[-1] in ("iter", "into_iter", "deref", "copied"):
        src = src[3][0]
    if not (src[0] == "at" and arcs_field is not None and (
            (arcs_field[0] == "mem" and arcs_field[1] == src[1] and arcs_field[2] == src[3])
            or (src[2] is None and an.term_of.get((src[1], src[3])) == arcs_field))):
        return False
    can = crate.an(clo[2])
    rets = [e for e in can.events if e["k"] == "return"]
    if len(rets) != 1:
        return False
    leaves = []

    def flat(t):
        if t[0] == "max":
            flat(t[1])
            flat(t[2])
        else:
            leaves.append(t)
    flat(rets[0]["val"])
    want = {("arg", 2), ("mem", "A3.0", ("e",), None), ("mem", "A3.1", ("e",), None)}
    alt = {("arg", 2), ("field", ("arg", 3), "0"), ("field", ("arg", 3), "1")}
    return set(leaves) in (want, alt)


def _collect_of_checked_input(crate, an, fx, arcs):
    """arcs is `arg1.into_iter().inspect(C).collect()` where the closure C returns only when its item (u, v) has u != v"""
    def val(t):
        if t is not None and t[0] == "site":
            ev = fx.an_call_at(t[1])
            if ev is not None:
                return ("call", ev["key"], (), tuple(ev["args"]))
        return t
    t = val(arcs)
    if t is not None and t[0] == "mem" and t[3] is None:
        t = val(an.term_of.get((t[1], t[2])))
    if not (t and t[0] == "call" and t[1] == "core::iter::traits::iterator::Iterator::collect" and t[3]):
        return False
    t = val(t[3][0])
    if not (t and t[0] == "call" and t[1] == "core::iter::traits::iterator::Iterator::inspect" and len(t[3]) == 2):
        return False
    src, clo = val(t[3][0]), t[3][1]
    if src and src[0] == "call" and src[1] == "core::iter::traits::collect::IntoIterator::into_iter" and src[3]:
        src = src[3][0]
    if src != ("arg", 1) or not (clo[0] == "agg" and clo[1] == "closure"):
        return False
    can, cfx = crate.an(clo[2]), crate.fx(clo[2])
    u, v = ("mem", "A2.0", ("e",), None), ("mem", "A2.1", ("e",), None)
    return bool(can.cfg.returns) and all(cfx.holds(rb, lambda rel: rel.has(mk_ne(u, v))) for rb in can.cfg.returns)


def _is_running_max(t, acc):
    if t == acc:
        return True
    if t[0] == "max":
        return _is_running_max(t[1], acc) or _is_running_max(t[2], acc)
    return False


# ---------------------------------------------------------------------------
GEN_TRAITS = {
    "graaf::gen::biclique::Biclique": "biclique", "graaf::gen::circuit::Circuit": "circuit",
    "graaf::gen::complete::Complete": "complete", "graaf::gen::cycle::Cycle": "cycle",
    "graaf::gen::empty::Empty": "empty", "graaf::gen::erdos_renyi::ErdosRenyi": "erdos_renyi",
    "graaf::gen::path::Path": "path", "graaf::gen::random_recursive_tree::RandomRecursiveTree": "random_recursive_tree",
    "graaf::gen::random_tournament::RandomTournament": "random_tournament", "graaf::gen::star::Star": "star",
    "graaf::gen::wheel::Wheel": "wheel",
}
SEEDED = ("erdos_renyi", "random_recursive_tree", "random_tournament")
GEN_KEYS = {k + "::" + v for k, v in GEN_TRAITS.items()} | {"graaf::gen::empty::Empty::trivial"}


def generator_impls(crate, seeded=None):
    out = []
    for im in crate.prog.impls:
        nm = GEN_TRAITS.get(im["trait"])
        if nm is None:
            continue
        if seeded is True and nm not in SEEDED:
            continue
        if seeded is False and nm in SEEDED:
            continue
        for it in im["items"]:
            if it["name"] == nm and it["path"] in crate.prog.fns:
                out.append((it["path"], nm, im["self"]))
    return out


def param_locals(an, names):
    out = {}
    for k in range(1, an.f["arg_count"] + 1):
        nm = an.f["locals"][k].get("name")
        if nm in names:
            out[nm] = ("arg", k)
    return out


def rule_admissible(seeded):
    def f(crate, prop, tier):
        o = Obl("ADMISSIBLE")
        for p, nm, st in generator_impls(crate, seeded):
            o.instances += 1
            an = crate.an(p)
            fx = crate.fx(p)
            pretty = crate.prog.pretty[p]
            ps = param_locals(an, ("order", "m", "n", "p"))
            need = []
            if nm == "biclique":
                need = [("lt", ("const", "usize", 0), ps.get("m")), ("lt", ("const", "usize", 0), ps.get("n"))]
            elif nm == "wheel":
                need = [("lt", ("const", "usize", 3), ps.get("order"))]
            else:
                need = [("lt", ("const", "usize", 0), ps.get("order"))]
            if not o.check(all(x[2] is not None for x in need), pretty, "params", "cannot identify the order / m / n parameters"):
                continue
            delegations = {ev["b"]: ev for ev in an.events if ev["k"] == "call" and ev["key"] in GEN_KEYS}
            for (tag, lo, x) in need:
                def ok_edge(p_, lab, b_, lo=lo, x=x):
                    for a in fx.close(fx.edge_atoms(p_, lab, b_)):
                        if a[0] == "lt" and a[2] == x and a[1][0] == "const" and a[1][2] >= lo[2]:
                            return True
                        if a[0] == "le" and a[2] == x and a[1][0] == "const" and a[1][2] >= lo[2] + 1:
                            return True
                        if a[0] == "eq" and x in a[1:] and any(y[0] == "const" and isinstance(y[2], int) and y[2] > lo[2] for y in a[1:]):
                            return True
                        if a[0] == "ne" and x in a[1:] and lo[2] == 0 and any(y[0] == "const" and y[2] == 0 for y in a[1:]):
                            return True     # unsigned: x != 0 is x > 0
                    return False

                def ok_block(p_, x=x):
                    ev = delegations.get(p_)
                    if ev is None:
                        return False
                    if nm == "wheel":
                        return False
                    return ev["key"].endswith("::trivial") or x in ev["args"] or any(_mentions(a, x) for a in ev["args"])
                good = must_pass(an, ok_edge, ok_block)
                for rb in an.cfg.returns:
                    o.check(good.get(rb, False), pretty, "admissible:" + (an.f["locals"][x[1]].get("name") or "?"),
                            "a digraph can be returned without the admissibility check on `%s` (> %d) having passed on every path"
                            % (an.f["locals"][x[1]].get("name"), lo[2]), an.blocks[rb]["tspan"])
            for rb in an.cfg.returns:
                if nm == "erdos_renyi":
                    def fconst(t):
                        if t[0] == "constx" and t[1] == "f64":
                            try:
                                return float(t[2].replace("f64", "").replace("_", ""))
                            except ValueError:
                                return None
                        return None

                    def prob(rel, pp=ps.get("p")):
                        lo = hi = False
                        for a in rel.w:
                            if a[0] == "true" and a[1][0] == "call" and a[1][1] == "core::ops::range::RangeInclusive::contains":
                                return True
                            # hand-written 0.0 <= p && p <= 1.0 (both comparisons are false for NaN)
                            if a[0] == "le" and a[2] == pp and fconst(a[1]) == 0.0:
                                lo = True
                            if a[0] == "le" and a[1] == pp and fconst(a[2]) == 1.0:
                                hi = True
                        return lo and hi
                    okp = fx.holds(rb, prob)
                    if not okp:
                        for ev in delegations.values():
                            if ev["key"].endswith("erdos_renyi") and an.cfg.dominates(ev["b"], rb):
                                okp = True
                    o.check(okp, pretty, "admissible:p", "a digraph can be returned without the check p in [0, 1]",
                            an.blocks[rb]["tspan"])
        fl = 33 if seeded is False else 12 if seeded is True else 45
        return o.report(floors={"generator impls": (o.instances, fl)})
    return f


# ---------------------------------------------------------------------------
def row_index_of(an, fx, t, depth=0):
    """index i when t denotes (something reached from) element i of a container"""
    if depth > 8:
        return None
    c, i = elem_access(t)
    if c is not None:
        return i
    if t[0] == "elem" and len(t) == 3:
        return t[2]         # slice[i] on a captured slice reference
    if t[0] in ("call", "site"):
        ev0 = fx.an_call_at(t[1]) if t[0] == "site" else None
        key0 = t[1] if t[0] == "call" else (ev0["key"] if ev0 else None)
        args0 = t[3] if t[0] == "call" else (ev0["args"] if ev0 else ())
        if key0 == "alloc::collections::btree::map::BTreeMap::entry" and len(args0) == 2:
            return args0[1]         # the row of key k: map.entry(k)
        if key0 in ("alloc::collections::btree::map::BTreeMap::get_mut", "alloc::collections::btree::map::BTreeMap::get") and len(args0) == 2:
            return _value_of_ref(an, args0[1])
    if t[0] == "call" and t[3]:
        return row_index_of(an, fx, t[3][0], depth + 1)
    if t[0] == "field" or t[0] == "dc":
        return row_index_of(an, fx, t[1], depth + 1)
    if t[0] == "site":
        ev = fx.an_call_at(t[1])
        if ev is not None and ev["args"]:
            return row_index_of(an, fx, ev["args"][0], depth + 1)
    if t[0] == "addr" and t[2] is not None:
        return row_index_of(an, fx, t[2], depth + 1)
    if t[0] in ("addr", "at") and t[2] is None:
        vals = [v for (var, ver), v in an.term_of.items() if var == t[1] and v[0] != "opq"]
        if len(vals) == 1:
            return row_index_of(an, fx, vals[0], depth + 1)
    return None


def arc_insertions(crate, an, fx, toggles=False):
    """[(event, tail, head)] of arc insertions in a body (generator style)"""
    out = []
    for ev in an.events:
        if ev["k"] != "call" or not ev["args"]:
            continue
        key = ev["key"]
        if key == "graaf::op::add_arc::AddArc::add_arc" and len(ev["args"]) == 3:
            out.append((ev, ev["args"][1], ev["args"][2]))
        elif toggles and key == "graaf::repr::adjacency_matrix::AdjacencyMatrix::toggle" and len(ev["args"]) == 3:
            # flipping a cell inserts the arc when every cell is flipped at most once (the caller's obligation)
            out.append((ev, ev["args"][1], ev["args"][2]))
        elif toggles and key == "alloc::vec::Vec::push" and len(ev["args"]) == 2 and ev["fn"] and ev["fn"].get("targs") \
                and ev["fn"]["targs"][0].get("k") == "tuple" and len(ev["fn"]["targs"][0].get("elems", ())) == 2 \
                and ev["args"][0][0] == "addr" and _returned_local(an, ev["args"][0][1]):
            # a worker collects its oriented pairs in a list it returns; the caller inserts them
            from .core import mk_field
            E = ev["args"][1]
            if E[0] == "agg" and len(E[3]) == 2:
                out.append((ev, E[3][0], E[3][1]))
            else:
                out.append((ev, mk_field(E, "0", 0), mk_field(E, "1", 1)))
        elif key == "alloc::collections::btree::set::BTreeSet::insert" and len(ev["args"]) == 2:
            E = ev["args"][1]
            idx = row_index_of(an, fx, ev["args"][0])
            if idx is not None:
                out.append((ev, idx, E))
            elif E[0] == "agg" and len(E[3]) == 2:
                out.append((ev, E[3][0], E[3][1]))
            elif ev["fn"] and ev["fn"].get("targs") and ev["fn"]["targs"][0].get("k") == "tuple" \
                    and len(ev["fn"]["targs"][0].get("elems", ())) == 2:
                # a pair built elsewhere (e.g. chosen by an `if`)
                from .core import mk_field
                out.append((ev, mk_field(E, "0", 0), mk_field(E, "1", 1)))
    return out


def _returned_local(an, R):
    rets = [e for e in an.events if e["k"] == "return"]
    return bool(rets) and all(e["val"][0] == "mem" and e["val"][1] == R and e["val"][3] is None for e in rets)


def subst_phis(an, fx, t, pick, depth=0):
    """t with every phi replaced by the input that flows in from the predecessor selected by pick(pred block);
    None when a phi has no (or more than one) selected input"""
    from .core import mk_field
    if not isinstance(t, tuple) or not t:
        return t
    if t[0] == "phi" and len(t) == 3 and depth < 6:
        b, var = t[1], t[2]
        if not var.startswith("v"):
            return None
        sel = []
        for p_, _ in an.cfg.pred[b]:
            if p_ in an.ver_out and pick(p_):
                sel.append(subst_phis(an, fx, an.var_term(an.ver_out[p_], var), pick, depth + 1))
        sel = [x for x in sel if x is not None]
        if len(set(sel)) != 1:
            return None
        return sel[0]
    if t[0] == "field" and len(t) == 3:
        inner = subst_phis(an, fx, t[1], pick, depth)
        if inner is None:
            return None
        return mk_field(inner, t[2], int(t[2]) if str(t[2]).isdigit() else 0)
    out = []
    for x in t:
        if isinstance(x, tuple):
            y = subst_phis(an, fx, x, pick, depth)
            if y is None:
                return None
            out.append(y)
        else:
            out.append(x)
    return tuple(out)


def _is_closure_value(an, t, cpath):
    """t is (a reference to / the moved value of) the local that holds the closure cpath"""
    if t[0] == "agg" and t[1] == "closure":
        return t[2] == cpath
    if t[0] in ("addr", "at", "mem") and isinstance(t[1], str):
        vals = [v for (var, ver), v in an.term_of.items() if var == t[1] and v[0] == "agg" and v[1] == "closure"]
        return any(v[2] == cpath for v in vals)
    return False


def _inserts_its_pair(crate, fe):
    """for_each(|(t, h)| digraph.add_arc(t, h)) / insert((t, h)) / rows[t].insert(h)"""
    clo = fe["args"][1] if len(fe["args"]) == 2 else None
    if not (clo and clo[0] == "agg" and clo[1] == "closure"):
        return False
    can = crate.an(clo[2])
    cfx = crate.fx(clo[2])
    item = ("arg", 2)
    ins = arc_insertions(crate, can, cfx, toggles=True)
    return len(ins) == 1 and (ins[0][1], ins[0][2]) == (("field", item, "0"), ("field", item, "1"))


def _flat_pair_stream(crate, d):
    """d is `range.flat_map(|u| ((u + 1)..hi).map(move |v| (u, v)))`: a stream of the pairs u < v"""
    from .closures import capture_map
    if not (d[0] == "call" and d[1].endswith("Iterator::flat_map") and len(d[3]) == 2):
        return False
    src, cl = d[3]
    if not (src[0] == "agg" and src[1] == "adt" and src[2][0].endswith("ops::range::Range")):
        return False
    if not (cl[0] == "agg" and cl[1] == "closure"):
        return False
    an1 = crate.an(cl[2])
    rets = [e for e in an1.events if e["k"] == "return"]
    if len(rets) != 1:
        return False
    r1 = rets[0]["val"]
    if not (r1[0] == "call" and r1[1].endswith("Iterator::map") and len(r1[3]) == 2):
        return False
    rng, cl2 = r1[3]
    if not (rng[0] == "agg" and rng[1] == "adt" and rng[2][0].endswith("ops::range::Range")):
        return False
    xy = sum_parts(rng[3][0])
    if not (xy and ("const", "usize", 1) in xy and ("arg", 2) in xy):
        return False
    if not (cl2[0] == "agg" and cl2[1] == "closure"):
        return False
    an2 = crate.an(cl2[2])
    rets2 = [e for e in an2.events if e["k"] == "return"]
    if len(rets2) != 1:
        return False
    r2 = rets2[0]["val"]
    if not (r2[0] == "agg" and len(r2[3]) == 2 and r2[3][1] == ("arg", 2)):
        return False
    cm = capture_map(crate, an2)
    return cm is not None and any(pv == ("arg", 2) and cv == r2[3][0] for pv, cv in cm.valmap)


def rule_one_per_pair(crate, prop, tier):
    o = Obl("ONE-PER-PAIR")
    for p, nm, st in generator_impls(crate, True):
        if nm == "random_tournament":
            o.instances += 1
            pretty = crate.prog.pretty[p]
            # the pair loop may live in a worker closure
            bodies = [p] + [c for c in crate.fn_paths() if crate.prog.fns[c].get("root") == p and c != p]
            found = False
            for bp in bodies:
                an = crate.an(bp)
                fx = crate.fx(bp)
                draws = [ev for ev in an.events if ev["k"] == "call" and ev["key"] and ev["key"].endswith("Xoshiro256StarStar::next_bool")]
                if not draws:
                    continue
                found = True
                o.check(len(draws) == 1, pretty, "single-draw", "more than one direction draw per pair", draws[0]["span"])
                dr = draws[0]
                # each unordered pair is visited once and gets one insertion: a cell is flipped at most once
                ins = arc_insertions(crate, an, fx, toggles=True)
                # inner loop: v in (u+1)..order, outer: u
                inner = None
                for ev in an.events:
                    if ev["k"] == "call" and ev["key"] == ITER_NEXT and an.cfg.dominates(ev["b"], dr["b"]):
                        d = fx.iter_desc(ev)
                        if d and d != "CYCLE" and d[0] == "agg" and d[2][0].endswith("ops::range::Range"):
                            lo = d[3][0]
                            xy = sum_parts(lo)
                            if xy and ("const", "usize", 1) in xy:
                                uu = xy[0] if xy[1] == ("const", "usize", 1) else xy[1]
                                inner = (ev, uu, ("field", ("dc", ev["res"], "Some"), "0"))
                if inner is None:
                    # `for (u, v) in (0..order).flat_map(|u| ((u + 1)..order).map(move |v| (u, v)))`
                    for ev in an.events:
                        if ev["k"] == "call" and ev["key"] == ITER_NEXT and an.cfg.dominates(ev["b"], dr["b"]):
                            d = fx.iter_desc(ev)
                            if d and d != "CYCLE" and _flat_pair_stream(crate, d):
                                item = ("field", ("dc", ev["res"], "Some"), "0")
                                inner = (ev, ("field", item, "0"), ("field", item, "1"))
                mapped = None
                if inner is None and crate.prog.fns[bp]["kind"] == "Closure":
                    # the draw is made by a closure applied to every item of the pair stream:
                    # stream.for_each(|(u, v)| ..insert..)  or  stream.map(|(u, v)| oriented pair) consumed by extend / for_each / collect
                    IT_ = "core::iter::traits::iterator::Iterator::"
                    par = crate.prog.fns[bp].get("parent")
                    pan_, pfx_ = crate.an(par), crate.fx(par)
                    cons = [pev for pev in pan_.events if pev["k"] == "call" and any(a[0] == "agg" and a[1] == "closure" and a[2] == bp
                                                                                      for a in pev["args"])]
                    cons = [pev for pev in cons if pev["key"] and pev["key"].startswith(IT_)] or cons
                    if not cons:
                        # a closure bound to a local first (`let orient = |..| ..; stream.map(orient)`)
                        cons = [pev for pev in pan_.events if pev["k"] == "call" and pev["key"] in (IT_ + "map", IT_ + "for_each")
                                and len(pev["args"]) == 2 and _is_closure_value(pan_, pev["args"][1], bp)]
                    if len(cons) == 1 and cons[0]["key"] in (IT_ + "for_each", IT_ + "map") and len(cons[0]["args"]) == 2:
                        src = cons[0]["args"][0]
                        if src[0] == "addr":
                            src = pfx_.iter_desc(cons[0])
                        if src and src != "CYCLE" and _flat_pair_stream(crate, src):
                            item = ("arg", 2)
                            inner = (None, ("field", item, "0"), ("field", item, "1"))
                            if cons[0]["key"] == IT_ + "map":
                                mapped = (pan_, cons[0])
                    elif len(cons) == 1 and cons[0]["key"] == IT_ + "fold" and len(cons[0]["args"]) == 3:
                        # stream.fold(rows, |mut rows, (u, v)| { ..insert..; rows })
                        src = cons[0]["args"][0]
                        if src[0] == "addr":
                            src = pfx_.iter_desc(cons[0])
                        rets_f = [e for e in an.events if e["k"] == "return"]
                        hands_on = bool(rets_f) and all(_is_param_value(an, e["val"], 2) for e in rets_f)
                        if src and src != "CYCLE" and _flat_pair_stream(crate, src) and hands_on:
                            item = ("arg", 3)
                            inner = (None, ("field", item, "0"), ("field", item, "1"))
                if not o.check(inner is not None, pretty, "pair-loop", "no loop `for v in (u + 1)..order` around the draw", dr["span"]):
                    continue
                lev, u, v = inner
                if lev is not None:
                    o.check(complete_scan(an, fx, lev), pretty, "pair-loop-complete", "the pair loop can end early", lev["span"])
                if mapped is not None:
                    # the closure returns the oriented pair; every item of the mapped stream must be inserted
                    pan_, mev = mapped
                    rets_ = [e for e in an.events if e["k"] == "return"]
                    okm = False
                    if len(rets_) == 1:
                        rv = rets_[0]["val"]
                        def on_(truth):
                            tag = "true" if truth else "false"
                            return lambda p_: fx.holds(p_, lambda rel: rel.has((tag, dr["res"])))
                        tv, fv = subst_phis(an, fx, rv, on_(True)), subst_phis(an, fx, rv, on_(False))
                        if tv is not None and fv is not None and tv[0] == "agg" and fv[0] == "agg":
                            okm = {tuple(tv[3]), tuple(fv[3])} == {(u, v), (v, u)}
                    o.check(okm, pretty, "both-directions", "the two outcomes of the draw do not yield u->v and v->u for the pair (u, v)", dr["span"])
                    sinks = [e for e in pan_.events if e["k"] == "call" and e is not mev and any(a == mev["res"] for a in e["args"])]
                    oks = len(sinks) == 1 and (sinks[0]["key"].endswith("Extend::extend") or sinks[0]["key"].endswith("Iterator::collect") or
                                               (sinks[0]["key"].endswith("Iterator::for_each") and _inserts_its_pair(crate, sinks[0])))
                    o.check(oks, pretty, "one-insertion-per-branch", "the oriented pairs are not all inserted (extend / collect / for_each(add_arc))",
                            dr["span"])
                    continue
                T = [x for x in ins if fx.holds(x[0]["b"], lambda rel: rel.has(("true", dr["res"])))]
                F = [x for x in ins if fx.holds(x[0]["b"], lambda rel: rel.has(("false", dr["res"])))]
                rest = [x for x in ins if x not in T and x not in F]
                if not T and not F and len(rest) == 1:
                    # one insertion after the two outcomes merge: `let (tail, head) = if draw { (u, v) } else { (v, u) }`
                    ev0, tl, hd = rest[0]
                    def on(truth):
                        tag = "true" if truth else "false"
                        return lambda p_: fx.holds(p_, lambda rel: rel.has((tag, dr["res"])))
                    tt, th = subst_phis(an, fx, tl, on(True)), subst_phis(an, fx, hd, on(True))
                    ft, fh = subst_phis(an, fx, tl, on(False)), subst_phis(an, fx, hd, on(False))
                    if None not in (tt, th, ft, fh) and (tt, th) != (ft, fh) and an.cfg.dominates(dr["b"], ev0["b"]):
                        T, F, rest = [(ev0, tt, th)], [(ev0, ft, fh)], []
                o.check(len(T) == 1 and len(F) == 1 and not rest, pretty, "one-insertion-per-branch",
                        "not exactly one arc insertion on each outcome of the draw (found %d / %d, %d elsewhere)" % (len(T), len(F), len(rest)), dr["span"])
                if len(T) == 1 and len(F) == 1:
                    a = (T[0][1], T[0][2])
                    b_ = (F[0][1], F[0][2])
                    o.check({a, b_} == {(u, v), (v, u)}, pretty, "both-directions",
                            "the two outcomes do not insert u->v and v->u for the pair (u, v)", dr["span"])
            o.check(found, pretty, "draw-exists", "no direction draw (next_bool) found")
        elif nm == "random_recursive_tree":
            o.instances += 1
            pretty = crate.prog.pretty[p]
            bodies = [p] + [c for c in crate.fn_paths() if crate.prog.fns[c].get("root") == p and c != p]
            ok = False
            for bp in bodies:
                an = crate.an(bp)
                for (b, i), t in an.stmt_terms.items():
                    if t[0] == "bin" and t[1] == "Rem":
                        ok = True
                        # modulus is the loop variable u (range 1..order) / closure parameter
            o.check(ok, pretty, "parent-is-rem-u", "the parent of u is not drawn as `x % u`")
    return o.report(floors={"seeded tournament / tree generators": (o.instances, 8)})


# ---------------------------------------------------------------------------
def rule_filter_verts(crate, prop, tier):
    """C11: filter_vertices(p) keeps every vertex v of self with p(v), also when no kept arc touches it: the implementation
    scans the vertex set of self (vertices() / the keys of its map), tests p on the scanned vertex and gives it a row of
    the result under that test alone.  A result built from the arcs only loses isolated kept vertices."""
    o = Obl("FILTER-VERTS")
    prog = crate.prog
    for im in prog.impls:
        if im["trait"] != "graaf::op::filter_vertices::FilterVertices":
            continue
        for it in im["items"]:
            if it["name"] != "filter_vertices" or it["path"] not in prog.fns:
                continue
            p = it["path"]
            o.instances += 1
            an = crate.an(p)
            fx = crate.fx(p)
            who = prog.pretty[p]
            vloops = []
            for ev in an.events:
                if ev["k"] == "call" and ev["key"] == ITER_NEXT:
                    d = fx.iter_desc(ev)
                    t = d
                    while t and t != "CYCLE" and t[0] == "call" and t[3] and t[1].split("::")[-1] in ("copied", "cloned", "keys", "iter", "into_iter"):
                        t = t[3][0]
                    if t and t != "CYCLE" and ((t[0] == "call" and t[1].endswith("Vertices::vertices")) or
                                               (t[0] == "at" and t[1].startswith("A1"))):
                        vloops.append(ev)
            pipes = [ev for ev in an.events if ev["k"] == "call" and ev["key"] and ev["key"].startswith("core::iter::traits::iterator::Iterator::")
                     and ev["key"].split("::")[-1] in ("filter", "filter_map", "collect", "fold", "for_each")]
            if not vloops:
                if pipes:
                    o.undecide(who, "vertex-scan", "filter_vertices is written as an iterator pipeline the rule does not interpret")
                else:
                    o.check(False, who, "vertex-scan", "filter_vertices never scans the vertex set of self (vertices() / the keys of its "
                            "map): a kept vertex that no kept arc touches gets no row in the result", prog.fns[p].get("span"))
                continue
            good = False
            from .facts import contradictory
            for lev in vloops:
                item = ("field", ("dc", lev["res"], "Some"), "0")
                hb = an.cfg.loop_of(lev["b"])
                body = an.cfg.loops.get(hb, set())
                calls = [ev for ev in an.events if ev["k"] == "call" and ev["key"] in ("core::ops::function::Fn::call", "core::ops::function::FnMut::call_mut")
                         and ev["b"] in body and an.cfg.loop_of(ev["b"]) == hb and ev["args"] and len(ev["args"]) == 2
                         and ev["args"][1][0] == "agg" and len(ev["args"][1][3]) == 1]
                for t in calls:
                    u = t["args"][1][3][0]
                    # the tested value is the scanned vertex: the item, or the key the item's first component points to
                    if not (u == item or u == ("field", item, "0") or (u[0] == "mem" and u[3] is not None and u[3] in (("field", item, "0"), item))):
                        continue

                    def names_u(x):
                        if x == u:
                            return True
                        if x[0] in ("at", "addr") and x[2] is None:
                            vals = [v for (var, ver), v in an.term_of.items() if var == x[1] and v[0] != "opq"]
                            return u in vals
                        return x[0] == "mem" and x == u
                    keyed = {ev["b"] for ev in an.events if ev["k"] == "call" and ev["b"] in body and len(ev["args"]) >= 2
                             and ev["key"] in ("alloc::collections::btree::map::BTreeMap::entry", "alloc::collections::btree::map::BTreeMap::insert")
                             and ev["args"][0][0] == "addr" and ev["args"][0][1].startswith("L") and names_u(ev["args"][1])}
                    lookups = [ev["res"] for ev in an.events if ev["k"] == "call" and ev["b"] in body and len(ev["args"]) == 2
                               and ev["key"] in ("alloc::collections::btree::map::BTreeMap::get_mut", "alloc::collections::btree::map::BTreeMap::get")
                               and ev["args"][0][0] in ("addr", "at") and ev["args"][0][1].startswith("L") and names_u(ev["args"][1])]
                    # every path from "the predicate holds for u" to the end of the iteration makes u a key of the result
                    starts = [tg for tg, lab in an.cfg.succ[t["b"]]] if False else []
                    latches = {pb for pb, _ in an.cfg.pred[hb] if an.cfg.dominates(hb, pb)}
                    seen, work = set(), [t["b"]]
                    leak = False
                    assume = {("true", t["res"])}
                    while work:
                        x = work.pop()
                        if x in seen:
                            continue
                        seen.add(x)
                        if x in keyed and x != t["b"]:
                            continue
                        for tg, lab in an.cfg.succ[x]:
                            if tg not in body:
                                continue
                            atoms = set(fx.close(fx.edge_atoms(x, lab, tg)))
                            if contradictory(atoms | assume):
                                continue
                            if any(("variant", r_, "Some") in atoms for r_ in lookups):
                                continue        # u was found to be a key already
                            if tg == hb:
                                if x in latches:
                                    leak = True
                                continue
                            work.append(tg)
                    if keyed and not leak:
                        good = True
            o.check(good, who, "vertex-kept", "a scanned vertex that satisfies the predicate is not given a row of the result under that test "
                    "alone (it is kept only when a kept arc touches it)", vloops[0]["span"])
    return o.report(floors={"filter_vertices impls": (o.instances, 1)})


# ---------------------------------------------------------------------------
def rule_er_draw(crate, prop, tier):
    """C15: erdos_renyi includes an arc exactly under `rng.next_f64() < p` (strict).  With next_f64 in [0, 1) (UNIT-INTERVAL)
    this gives no arcs for p = 0 and all arcs for p = 1; a non-strict test, a comparison of raw integer draws with a scaled
    threshold, or a draw used in any other way does not."""
    from .closures import capture_map
    from .relax import _all_terms
    o = Obl("ER-DRAW")
    NF = "Xoshiro256StarStar::next_f64"
    for p, nm, st in generator_impls(crate, True):
        if nm != "erdos_renyi":
            continue
        o.instances += 1
        pretty = crate.prog.pretty[p]
        an0 = crate.an(p)
        pp = param_locals(an0, ("p",)).get("p")
        bodies = [p] + sorted(c for c in crate.fn_paths() if crate.prog.fns[c].get("root") == p and c != p)
        draws = 0
        other_draws = []
        delegates = False
        ptaint = {p: ({pp, ("addr", "L%d" % pp[1], None), ("mem", "L%d" % pp[1], ("e",), None)} if pp else set())}

        def is_p(t, pset):
            if t in pset or any(_mentions(t, x) for x in pset):
                return True
            # read through a captured reference to p
            if t[0] == "mem" and isinstance(t[1], str) and t[1].endswith("*"):
                R = t[1][:-1]
                if ("mem", R, ("e",), None) in pset:
                    return True
                if R.startswith("A1.") and ("field", ("arg", 1), R[3:]) in pset:
                    return True
            # a reference to a local that holds p
            if t[0] == "addr" and t[2] is None and ("mem", t[1], ("e",), None) in pset:
                return True
            return False
        for bp in bodies:
            an = crate.an(bp)
            if bp != p:
                cm = capture_map(crate, an)
                par = crate.prog.fns[bp].get("parent")
                pt = ptaint.get(par, set())
                ptaint[bp] = {cv for pv, cv in (cm.valmap if cm else []) if isinstance(pv, tuple) and pt and is_p(pv, pt)}
            pset = ptaint[bp]
            for ev in an.events:
                if ev["k"] != "call" or not ev["key"]:
                    continue
                if ev["key"].endswith("ErdosRenyi::erdos_renyi"):
                    delegates = True
                if ev["key"].endswith("Xoshiro256StarStar::next") or ev["key"].endswith("Xoshiro256StarStar::next_bool") or \
                        (ev["key"] == ITER_NEXT and ev["fn"] and "Xoshiro" in str(ev["fn"].get("resolved_pretty", "")) + str(ev["fn"].get("pretty", ""))):
                    other_draws.append(ev)
                if not ev["key"].endswith(NF):
                    continue
                draws += 1
                res = ev["res"]
                uses = []

                def walk(t, parent):
                    if t == res:
                        uses.append(parent)
                        return
                    if isinstance(t, tuple):
                        for x in t:
                            if isinstance(x, tuple):
                                walk(x, t)
                seen = set()
                for t in _all_terms(an):
                    if t is res or t == res or t in seen:
                        continue
                    seen.add(t)
                    walk(t, None)
                def is_cmp(u):
                    # draw < p, or its negation p <= draw (`if draw >= p { continue }`)
                    return u is not None and u[0] == "bin" and ((u[1] == "Lt" and u[2] == res and is_p(u[3], pset)) or
                                                                (u[1] == "Le" and u[3] == res and is_p(u[2], pset)))
                good = bool(uses) and all(is_cmp(u) for u in uses)
                if good:
                    # polarity: the arc is kept / inserted when draw < p holds
                    rets = [e for e in an.events if e["k"] == "return"]
                    rv = rets[0]["val"] if len(rets) == 1 else None
                    if rv is not None and _mentions(rv, res):
                        good = (rv[0] == "bin" and rv[1] == "Lt") or (rv[0] == "un" and rv[1] == "Not" and rv[2][0] == "bin" and rv[2][1] == "Le")
                    else:
                        fx_ = crate.fx(bp)
                        sinks = [e for e in an.events if e["k"] == "call" and e["key"] and an.cfg.dominates(ev["b"], e["b"]) and e["b"] != ev["b"]
                                 and (e["key"].endswith("BTreeSet::insert") or e["key"].endswith("AddArc::add_arc") or
                                      e["key"].endswith("AdjacencyMatrix::toggle") or e["key"].endswith("Vec::push"))]
                        for e in sinks:
                            if not fx_.holds(e["b"], lambda rel: any(a[0] == "lt" and a[1] == res and is_p(a[2], pset) for a in rel.w)):
                                good = False
                o.check(good, pretty, "draw-strictly-below-p", "a draw of next_f64() is not used exactly as `draw < p`: the extremes p = 0 "
                        "(no arcs) and p = 1 (all arcs) are no longer guaranteed", ev["span"])
        # the heads of row u are all vertices but u: in `(0..a).chain(a + 1..n)` the skipped vertex a is the row variable
        # (a closure parameter or a loop item), not a value that is fixed while the rows vary
        from .origin import payload_of as _pl
        for bp in bodies:
            an = crate.an(bp)
            for ev in an.events:
                if ev["k"] != "call" or not ev["key"] or not ev["key"].endswith("Iterator::chain") or len(ev["args"]) != 2:
                    continue
                r1, r2 = ev["args"]
                if not (r1[0] == "agg" and r1[1] == "adt" and r1[2][1] == "Range" and r2[0] == "agg" and r2[1] == "adt" and r2[2][1] == "Range"):
                    continue
                a_ = r1[3][1]
                lo2 = r2[3][0]
                if not (r1[3][0] == ("const", "usize", 0) and lo2[0] == "bin" and lo2[1] == "Add" and a_ in (lo2[2], lo2[3])):
                    continue
                captured = (a_[0] == "field" and a_[1] == ("arg", 1)) or (a_[0] == "mem" and isinstance(a_[1], str) and a_[1].startswith("A1."))
                rowvar = a_ == ("arg", 2) or (a_[0] == "field" and a_[1] == ("arg", 2)) or _pl(a_)[0] is not None or \
                    (a_[0] == "mem" and isinstance(a_[1], str) and a_[1].startswith("A2"))
                if captured and not rowvar and crate.prog.fns[bp]["kind"] == "Closure":
                    # a capture of the parent's row variable is a row variable
                    cm_ = capture_map(crate, an)
                    pvals = [pv for pv, cv in (cm_.valmap if cm_ else []) if cv == a_]
                    if any(pv == ("arg", 2) or (pv[0] == "field" and pv[1] == ("arg", 2)) or _pl(pv)[0] is not None
                           or (pv[0] in ("addr", "at") and any(_pl(v_)[0] is not None or v_ == ("arg", 2)
                                                              for (var, ver), v_ in cm_.pan.term_of.items() if var == pv[1]))
                           for pv in pvals):
                        continue
                    o.check(False, pretty, "row-heads-skip-the-row", "the heads of a row are drawn from (0..a).chain(a + 1..n) where a is a value "
                            "captured by the worker, not the row being filled: rows other than a can receive themselves as head "
                            "(a self-loop) and never receive a", ev["span"])
        if draws == 0 and not delegates:
            if other_draws:
                o.check(False, pretty, "draw-is-next-f64", "arcs are decided by raw draws (%s) instead of `next_f64() < p`: a threshold "
                        "scaled to the integer range cannot be exact at p = 1" % other_draws[0]["key"].split("::")[-1], other_draws[0]["span"])
            else:
                o.undecide(pretty, "draw-strictly-below-p", "no draw of the PRNG was found in erdos_renyi")
    return o.report(floors={"erdos_renyi impls": (o.instances, 4)})


# ---------------------------------------------------------------------------
def rule_exact_ids(crate, prop, tier):
    """C14: the deterministic generators compute vertex ids with exact arithmetic: a `wrapping_*` / `overflowing_*`
    operation on usize is accepted only where the facts exclude the wrap-around (2^64 is not a multiple of the order, so
    reducing a wrapped value `% order` is not the mathematical residue)."""
    from .panics import no_overflow
    o = Obl("EXACT-IDS")
    WR = {"usize::wrapping_sub": "Sub", "usize::wrapping_add": "Add", "usize::wrapping_mul": "Mul",
          "usize::overflowing_sub": "Sub", "usize::overflowing_add": "Add", "usize::overflowing_mul": "Mul",
          "usize::wrapping_neg": "Neg"}
    for p, nm, st in generator_impls(crate, False):
        o.instances += 1
        pretty = crate.prog.pretty[p]
        clean = True
        for bp in [p] + sorted(c for c in crate.fn_paths() if crate.prog.fns[c].get("root") == p and c != p):
            an = crate.an(bp)
            fx = crate.fx(bp)
            for ev in an.events:
                if ev["k"] != "call" or ev["key"] not in WR:
                    continue
                op = WR[ev["key"]]
                ok = op != "Neg" and len(ev["args"]) == 2 and no_overflow(crate, an, fx, ev["b"], op, ev["args"][0], ev["args"][1])
                if not ok:
                    clean = False
                    o.check(False, pretty, "wrapping-id-arithmetic", "%s can wrap around here: a vertex id computed from the wrapped value "
                            "(e.g. reduced `%% order`) is not the id the definition names" % ev["key"].split("::")[-1], ev["span"])
        if clean:
            o.check(True, pretty, "exact-id-arithmetic", "")
    return o.report(floors={"deterministic generators": (o.instances, 33)})


# ---------------------------------------------------------------------------
def rule_seed_total(crate, prop, tier):
    """C15: a seeded generator is defined for every seed: no checked arithmetic (overflow assertion), checked
    conversion or division whose operand derives from the `seed` parameter can panic.  Deriving per-thread seeds must
    use wrapping arithmetic."""
    from .closures import capture_map
    o = Obl("SEED-TOTAL")
    for p, nm, st in generator_impls(crate, True):
        o.instances += 1
        pretty = crate.prog.pretty[p]
        an = crate.an(p)
        seed = param_locals(an, ("seed",)).get("seed")
        if seed is None:
            u64s = [k for k in range(1, an.f["arg_count"] + 1) if an.f["locals"][k]["ty"].get("s") == "u64"]
            seed = ("arg", u64s[0]) if len(u64s) == 1 else None
        if not o.check(seed is not None, pretty, "seed-param", "cannot identify the seed parameter"):
            continue
        taint = {p: {seed}}
        bodies = [p] + sorted(c for c in crate.fn_paths() if crate.prog.fns[c].get("root") == p and c != p)
        clean = True
        for bp in bodies:
            ban = crate.an(bp)
            if bp != p:
                cm = capture_map(crate, ban)
                par = crate.prog.fns[bp].get("parent")
                pt = taint.get(par, set())
                taint[bp] = {cv for pv, cv in (cm.valmap if cm else []) if any(_mentions(pv, t) or pv == t for t in pt)}
            tset = taint[bp]
            if not tset:
                continue
            for ev in ban.events:
                if ev["k"] != "assert" or ev.get("kind") != "overflow":
                    continue
                ops = [v for v in (ev.get("detail") or {}).values() if isinstance(v, tuple)]
                if any(_mentions(x, t) or x == t for x in ops for t in tset):
                    clean = False
                    o.check(False, pretty, "seed-arithmetic-can-panic", "checked arithmetic on a value derived from the seed: the generator "
                            "panics for some seeds (derive per-thread seeds with wrapping_add)", ev["span"])
        if clean:
            o.check(True, pretty, "seed-arithmetic-total", "")
    return o.report(floors={"seeded generators": (o.instances, 12)})


# ---------------------------------------------------------------------------
def rule_unit_interval(crate, prop, tier):
    """C15: Xoshiro256StarStar::next_f64 lies in [0, 1): decided for the usual constructions
    (a) f64::from_bits(0x3FF << 52 | (x & (2^52 - 1))) - 1.0, (b) (x & M) as f64 / C (or (x >> k) as f64 / C) by integer
    interval arithmetic on the constants, (c) (x [& M | >> k]) as f64 * C by evaluating the largest value in IEEE double
    arithmetic (u64::MAX as f64 rounds up to 2^64, so `x as f64 * 2^-64` reaches 1.0)"""
    o = Obl("UNIT-INTERVAL")
    ps = [p for p in crate.fn_paths() if p.endswith("::next_f64") and "xoshiro" in p]
    for p in ps:
        o.instances += 1
        an = crate.an(p)
        who = crate.prog.pretty[p]
        rets = [ev for ev in an.events if ev["k"] == "return"]
        r = rets[0]["val"] if len(rets) == 1 else None
        verdict = None

        def cint(t):
            if t[0] == "const" and isinstance(t[2], int):
                return t[2]
            if t[0] == "constx" and t[1] in ("f64", "f32") and t[2].endswith(t[1]) and t[2][:-3].isdigit():
                return int(t[2][:-3])      # an integral float constant (2^52 written as 4503599627370496.0)
            if t[0] == "bin" and t[1] == "Shl" and cint(t[2]) is not None and cint(t[3]) is not None:
                return cint(t[2]) << cint(t[3])
            if t[0] == "bin" and t[1] == "Sub" and cint(t[2]) is not None and cint(t[3]) is not None:
                return cint(t[2]) - cint(t[3])
            if t[0] == "cast" and t[1] in ("IntToFloat", "IntToInt"):
                return cint(t[2])
            return None

        def upper(t):
            """largest integer value of an unsigned expression over one unknown u64"""
            v = cint(t)
            if v is not None:
                return v
            if t[0] == "bin" and t[1] == "BitAnd":
                us = [cint(x) for x in (t[2], t[3]) if cint(x) is not None]
                return min(us) if us else None
            if t[0] == "bin" and t[1] == "Shr" and cint(t[3]) is not None:
                return (1 << (64 - cint(t[3]))) - 1
            if t[0] == "cast" and t[1] in ("IntToFloat", "IntToInt"):
                return upper(t[2])
            return None
        if r is not None and r[0] == "bin" and r[1] == "Sub" and r[3][0] == "constx" and r[3][2].startswith("1") \
                and r[2][0] == "call" and r[2][1] == "float::from_bits":
            bits = r[2][3][0]
            if bits[0] == "bin" and bits[1] == "BitOr":
                parts = [bits[2], bits[3]]
                expo = [cint(x) for x in parts if cint(x) is not None]
                mant = [x for x in parts if cint(x) is None]
                if len(expo) == 1 and len(mant) == 1:
                    mu = upper(mant[0])
                    verdict = expo[0] == 1023 << 52 and mu is not None and mu < (1 << 52)
        elif r is not None and r[0] == "bin" and r[1] == "Div":
            num, den = upper(r[2]), cint(r[3])
            if num is not None and den is not None:
                verdict = 0 < den and num < den and den <= (1 << 53)
        elif r is not None and r[0] == "bin" and r[1] == "Mul":
            # (integer expression of the draw) as f64 * C: both steps are monotone and correctly rounded, so the largest
            # result is float(largest integer) * C in IEEE double arithmetic (Python floats are IEEE doubles)
            def fconst(t):
                if t[0] == "constx" and t[1] == "f64" and t[2].endswith("f64"):
                    try:
                        return float(t[2][:-3])
                    except ValueError:
                        return None
                if t[0] == "bin" and t[1] in ("Div", "Mul"):
                    a1, b1 = fconst(t[2]), fconst(t[3])
                    if a1 is not None and b1 is not None and (t[1] == "Mul" or b1 != 0):
                        return a1 / b1 if t[1] == "Div" else a1 * b1
                return None

            def draw_upper(t):
                u = upper(t)
                if u is not None:
                    return u
                if t[0] == "cast" and t[1] in ("IntToFloat", "IntToInt"):
                    return draw_upper(t[2])
                if t[0] == "field" and t[1][0] == "dc" and t[1][2] == "Some" and t[1][1][0] == "site" and t[1][1][2] == ITER_NEXT:
                    return (1 << 64) - 1       # the raw 64-bit draw
                return None
            for a_, b_ in ((r[2], r[3]), (r[3], r[2])):
                cst = fconst(b_)
                if cst is not None and a_[0] == "cast" and a_[1] == "IntToFloat":
                    u = draw_upper(a_[2])
                    if u is not None and cst > 0:
                        verdict = float(u) * cst < 1.0
        if verdict is None:
            o.undecide(who, "unit-interval", "next_f64 is not built in one of the two forms the rule evaluates")
        else:
            o.check(verdict, who, "unit-interval", "next_f64 can return a value outside [0, 1): `next_f64() < p` then misses an arc at p = 1 "
                    "(or the mantissa mask / exponent constant is wrong)", crate.prog.fns[p]["span"])
    return o.report(floors={"next_f64": (o.instances, 1)})


# ---------------------------------------------------------------------------
HASH_ORDER_EXPOSING = {"iter", "iter_mut", "into_iter", "keys", "values", "values_mut", "into_keys", "into_values", "drain",
                       "extract_if", "retain", "difference", "symmetric_difference", "intersection", "union"}
DENY_PREFIXES = ("std::time::", "std::collections::hash", "std::hash::random", "std::thread::current",
                 "std::env::", "std::process::id", "std::thread::functions::current", "core::hash::sip",
                 "std::sys::random", "std::random", "std::thread::functions::sleep")
AP_KEY = "std::thread::functions::available_parallelism"
SEED_SINKS = ("Xoshiro256StarStar::new", "SplitMix64::new")
AP_SEED_ALLOWED = ("<repr::adjacency_map::AdjacencyMap as gen::erdos_renyi::ErdosRenyi>::erdos_renyi",
                   "<repr::adjacency_map::AdjacencyMap as gen::random_tournament::RandomTournament>::random_tournament")


def rule_nondet(crate, prop, tier):
    o = Obl("NONDET")
    prog = crate.prog
    ap_fns = set()
    for p in crate.fn_paths():
        f_ = prog.fns[p]
        an = crate.an(p)
        o.instances += 1
        for ev in an.events:
            if ev["k"] != "call" or ev["fn"] is None:
                continue
            path = ev["fn"]["path"]
            res = ev["fn"].get("resolved", "")
            bad = any(path.startswith(d) or res.startswith(d) for d in DENY_PREFIXES)
            if bad and (path.startswith("std::collections::hash") or res.startswith("std::collections::hash")):
                # a hash container is nondeterministic only through its iteration order; membership, insertion, removal
                # and set comparisons give the same answers for every hasher state
                last = path.split("::")[-1]
                bad = last in HASH_ORDER_EXPOSING
            if bad:
                o.check(False, prog.pretty[p], "ambient:" + path.split("::")[-1],
                        "call of %s: an ambient source of nondeterminism" % path, ev["span"])
            if ev["key"] == AP_KEY:
                ap_fns.add(f_.get("root", p))
        # HashMap / HashSet typed locals
        # iteration over a hash container through the Iterator / IntoIterator traits
        for ev in an.events:
            if ev["k"] == "call" and ev["key"] in ("core::iter::traits::collect::IntoIterator::into_iter",) and ev["fn"]:
                ta = ev["fn"].get("targs", [])
                if ta and ty_contains(ta[0], lambda x: x["k"] == "adt" and x.get("name") in ("HashMap", "HashSet")):
                    o.check(False, prog.pretty[p], "hash-container", "a HashMap/HashSet is iterated (randomised iteration order)", ev["span"])
    o.check(True, "crate", "scanned", "")
    # thread-count taint into PRNG seeds
    for root in sorted(ap_fns):
        fam = [p for p in crate.fn_paths() if prog.fns[p].get("root") == root or p == root]
        tainted_seed = None
        for p in fam:
            an = crate.an(p)
            fx = crate.fx(p)
            for ev in an.events:
                if ev["k"] == "call" and ev["key"] and any(ev["key"].endswith(s) for s in SEED_SINKS):
                    if ap_tainted(crate, an, fx, ev["args"][0]):
                        tainted_seed = ev
        allowed = prog.pretty[root] in AP_SEED_ALLOWED
        o.check(tainted_seed is None or allowed, prog.pretty[root], "thread-count-in-seed",
                "the number of CPUs flows into a PRNG seed: the result depends on the machine",
                tainted_seed["span"] if tainted_seed else None)
    # a seeded generator whose workers claim work from a shared atomic counter: which worker's PRNG stream serves which row
    # then depends on the schedule (a fixed block / stride per worker does not)
    ATOMIC_RMW = ("fetch_add", "fetch_sub", "fetch_update", "swap", "compare_exchange", "compare_exchange_weak", "fetch_max", "fetch_min")
    for root, nm, st in generator_impls(crate, True):
        fam = [p for p in crate.fn_paths() if prog.fns[p].get("root") == root or p == root]
        draws = any(ev["k"] == "call" and ev["key"] and ("Xoshiro256StarStar" in ev["key"] or "SplitMix64" in ev["key"])
                    for p in fam for ev in crate.an(p).events)
        for p in fam:
            for ev in crate.an(p).events:
                if ev["k"] == "call" and ev["key"] and ev["key"].startswith("core::sync::atomic::Atomic") \
                        and ev["key"].split("::")[-1] in ATOMIC_RMW and draws:
                    o.check(False, prog.pretty[p], "dynamic-work-in-seeded-generator", "a seeded generator hands out work through a shared "
                            "atomic counter (%s): which PRNG stream fills which row depends on the thread schedule, so equal arguments "
                            "no longer give equal digraphs" % ev["key"].split("::")[-1], ev["span"])
    return o.report(floors={"bodies scanned": (o.instances, 300)},
                    note="available_parallelism families=%d" % len(ap_fns))


def ap_tainted(crate, an, fx, t, depth=0):
    from .closures import capture_map
    if depth > 6 or not isinstance(t, tuple) or not t:
        return False
    if t[0] == "site" and t[2] == AP_KEY:
        return True
    if t[0] == "pval":
        cm = capture_map(crate, an)
        return cm is not None and ap_tainted(crate, cm.pan, crate.fx(cm.pan.path), t[1], depth + 1)
    site, path = payload_of(t)
    if site is not None:
        ev = fx.an_call_at(site[1])
        if ev is not None and ev["key"] == ITER_NEXT:
            d = fx.iter_desc(ev)
            if d and d != "CYCLE" and ap_tainted(crate, an, fx, d, depth + 1):
                return True
    cm = capture_map(crate, an)
    if cm is not None:
        for pv, cv in cm.valmap:
            if t == cv and ap_tainted(crate, cm.pan, crate.fx(cm.pan.path), pv, depth + 1):
                return True
    return any(ap_tainted(crate, an, fx, x, depth + 1) for x in t if isinstance(x, tuple))
