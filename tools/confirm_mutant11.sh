#!/bin/bash
# usage: tools/confirm_mutant5.sh <Cxx> [miri] [taskset-mask]
# Round-11 seeded changes: the agent left /tmp/mutA_<Cxx>/A.diff and tests/demo_<cxx>.rs in a clean worktree.
# Confirms it in that worktree (demo fails with / passes without, full lib suite passes with the change),
# runs every check against the changed tree, stores everything under /verif/seeded/<Cxx>-r10/ and restores the tree.
set -u
P="$1"; MIRI="${2:-}"; MASK="${3:-}"
W=/tmp/mutA_$P
lp=$(echo "$P" | tr 'A-Z' 'a-z')
DEMO=demo_${lp}
DIFF=$W/A.diff
NAME=$P-r11
OUT=/verif/seeded/$NAME; mkdir -p "$OUT"
cd "$W" || exit 2
[ -s "$DIFF" ] || { echo "no diff $DIFF"; exit 2; }
[ -f "tests/$DEMO.rs" ] || { echo "no demo tests/$DEMO.rs"; exit 2; }
git checkout -q -- src
TS=""; [ -n "$MASK" ] && TS="taskset -c $MASK"
run_demo() { if [ "$MIRI" = miri ]; then $TS cargo +nightly miri test --offline --test "$DEMO" >/tmp/demo_$NAME.log 2>&1; else $TS cargo test --offline --test "$DEMO" >/tmp/demo_$NAME.log 2>&1; fi; echo $?; }
without=$(run_demo); tail -3 /tmp/demo_$NAME.log > "$OUT/demo_without_change.txt"
git apply "$DIFF" || { echo "diff does not apply"; exit 3; }
with=$(run_demo); tail -3 /tmp/demo_$NAME.log > "$OUT/demo_with_change.txt"
suite=$(cargo test --offline --lib 2>&1 | grep "test result" | tail -1)
echo "$P demo with change: exit $with ; without: exit $without ; suite: $suite"
cp "$DIFF" "$OUT/patch.diff"; cp "tests/$DEMO.rs" "$OUT/$DEMO.rs"
alarms=""
F=$(mktemp /tmp/facts-mA.XXXXXX.json)
GSA_REPO="$W" /verif/export_facts.sh "$F" >/dev/null 2>&1 || echo "export failed"
cp "$F" /tmp/facts_mA_$P.json
for c in C01 C02 C03 C04 C05 C06 C07 C08 C11 C12 C13 C14 C15 C16 C17 C18 C19 C20; do
  out=$(cd /verif && GSA_NO_EVIDENCE=1 ./check $c --facts "$F" 2>&1); rc=$?
  if [ $rc -eq 1 ]; then alarms="$alarms $c"; echo "$out" | grep "violation rule" | head -3 | sed "s/^/   [$c]/"; fi
  echo "$out" | grep "^UNDECIDED" | head -2 | sed "s/^/   [$c] /" | cut -c1-200
done
rm -f "$F"
git checkout -q -- src
echo "$P alarms:${alarms}"
echo "{\"demo_exit_with_change\": $with, \"demo_exit_without_change\": $without, \"suite\": \"$suite\", \"alarms\": \"${alarms# }\", \"miri\": \"$MIRI\", \"taskset\": \"$MASK\"}" > "$OUT/confirm.json"
