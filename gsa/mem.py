"""MEM: unsafe-operation obligations (DESIGN §3.1)."""
from .core import Analysis, mk_len, strip_ref
from .facts import Facts
from . import effects as E

RAW_DEREF_OK_KEYS = ()


def is_raw_ptr_local(an, local):
    return an.locals[local]["ty"]["k"] == "rawptr"


def span_str(sp):
    return "%s:%d" % (sp["file"], sp["line"])


def from_macro(sp, names=("vec", "format_args", "panic", "assert", "assert_ne", "assert_eq", "format",
                          "unreachable", "write", "debug_assert", "const_format_args")):
    for e in sp.get("exp", []):
        if e.startswith("macro:") and e.split(":", 1)[1] in names:
            return True
    return False


class Site:
    def __init__(self, an, kind, b, span, **kw):
        self.an = an
        self.fn = an.path
        self.kind = kind
        self.b = b
        self.span = span
        self.__dict__.update(kw)
        self.status = None
        self.how = None
        self.detail = None

    def key(self):
        return "%s|%s|%s|%s" % (self.fn, self.kind, getattr(self, "rootname", "?"), getattr(self, "idxname", "?"))


def ptr_root(t):
    """(container identity term, index term or None, kind) of a raw pointer / reference term"""
    idx = None
    while True:
        k = t[0]
        if k == "pcast":
            t = t[1]
            continue
        if k == "cast":
            t = t[2]
            continue
        if k == "call":
            key, args = t[1], t[3]
            if key in ("rawptr::add",) and len(args) == 2:
                if idx is not None:
                    return None, None, "double-offset"
                idx = args[1]
                t = args[0]
                continue
            if key in ("alloc::vec::Vec::as_mut_ptr", "alloc::vec::Vec::as_ptr", "slice::as_ptr", "slice::as_mut_ptr") and args:
                return strip_ref(args[0]), idx, "buf"
            if key in ("rawptr::as_mut", "rawptr::as_ref"):
                t = args[0]
                continue
        return t, idx, "unknown"


def inventory(an):
    """all unsafe operations of one body"""
    sites = []
    f = an.f
    # 1. unsafe calls
    for ev in an.events:
        if ev["k"] != "call":
            continue
        key = ev["key"]
        sp = ev["span"]
        if key is None:
            continue
        if ev["unsafe"]:
            if from_macro(sp):
                continue
            sites.append(Site(an, "call:" + key, ev["b"], sp, ev=ev))
    # 2. raw pointer dereferences
    for b in an.cfg.rpo:
        blk = an.blocks[b]
        def scan_place(p, sp, what):
            L = p["local"]
            if from_macro(sp):
                return
            if p["proj"] and p["proj"][0]["k"] == "deref" and is_raw_ptr_local(an, L):
                sites.append(Site(an, "deref", b, sp, place=p, what=what))
        for i, s in enumerate(blk["stmts"]):
            if s["k"] != "assign":
                continue
            scan_place(s["place"], s["span"], "store")
            rv = s["rv"]
            for op in _rv_operands(rv):
                if op["k"] in ("copy", "move"):
                    scan_place(op["place"], s["span"], "load")
            if rv["k"] in ("ref", "rawptr", "discriminant"):
                scan_place(rv["place"], s["span"], "ref")
            if rv["k"] == "cast" and ("Transmute" in rv["kind"] or "PointerWithExposedProvenance" in rv["kind"]):
                if not from_macro(s["span"]):
                    sites.append(Site(an, "cast:" + rv["kind"].split("(")[0], b, s["span"], stmt=(b, i)))
        t = blk["term"]
        for op in an._term_operands(t):
            if op["k"] in ("copy", "move"):
                scan_place(op["place"], blk["tspan"], "load")
    return sites


def _rv_operands(rv):
    k = rv["k"]
    if k in ("use", "cast", "repeat"):
        return [rv["op"]]
    if k == "binop":
        return [rv["a"], rv["b"]]
    if k == "unop":
        return [rv["a"]]
    if k == "aggregate":
        return rv["ops"]
    return []


def check_idx(an, facts, b, I, C, vers_now):
    if C is None:
        return False, "no-root"
    if C[0] == "at":
        R, ver = C[1], C[3]
        if vers_now.get(R, ("e",)) != ver:
            return False, "stale-pointer(%s)" % R
    bound = mk_len(C, an)
    if I[0] == "const" and bound[0] == "const" and isinstance(I[2], int) and I[2] < bound[2]:
        return True, "CONST"
    if facts.holds(b, lambda rel: rel.lt(I, bound)):
        return True, "GUARD"
    return False, ("need", I, bound)


def discharge_site(s, facts):
    an = s.an
    k = s.kind
    if k == "call:rawptr::add":
        ev = s.ev
        P, I = ev["args"]
        C, idx0, kind = ptr_root(P)
        s.rootterm, s.idx = C, I
        if idx0 is not None:
            return False, "double-offset"
        if kind != "buf":
            return False, ("unknown-root", C)
        return check_idx(an, facts, s.b, I, C, ev["vers"])
    if k in ("call:slice::get_unchecked", "call:slice::get_unchecked_mut"):
        ev = s.ev
        recv = an.arg_for_call(ev["args"][0], ev["vers"], True, {"k": "ref"})
        C = strip_ref(recv)
        s.rootterm, s.idx = C, ev["args"][1]
        return check_idx(an, facts, s.b, ev["args"][1], C, ev["vers"])
    if k == "deref":
        L = s.place["local"]
        cur = an.ver_in[s.b]  # approximate: pointer temps are defined before use in straight-line code
        P = pointer_term_at(an, s)
        s.ptr = P
        C, idx0, kind = ptr_root(P)
        if P[0] == "call" and P[1] == "rawptr::add":
            return True, "VIA-ADD"
        if P[0] in ("pcast",) and P[1][0] == "call" and P[1][1] == "rawptr::add":
            return True, "VIA-ADD"
        if kind == "buf" and idx0 is None:
            return check_idx(an, facts, s.b, ("const", "usize", 0), C, an.ver_at_term[s.b])
        return False, ("deref-of", P)
    if k.endswith("unwrap_unchecked"):
        X = s.ev["args"][0]
        want = "Some" if "option" in k else "Ok"
        if facts.holds(s.b, lambda rel: rel.variant(X) == want):
            return True, "GUARD"
        return False, ("need-variant", X, want)
    return False, "unhandled"


def pointer_term_at(an, s):
    """term of the raw pointer local dereferenced at site s"""
    L = s.place["local"]
    # the latest definition of v<L> that reaches the site: walk the block
    b = s.b
    cur = dict(an.ver_in[b])
    blk = an.blocks[b]
    # find the statement index of this site by span identity
    best = an.var_term(cur, "v%d" % L)
    for i, st in enumerate(blk["stmts"]):
        if st["k"] == "assign" and st["span"] is s.span:
            return an.var_term(cur, "v%d" % L)
        for v in an.defs_at.get((b, i), ()):
            cur[v] = ("d", b, i)
    return an.var_term(cur, "v%d" % L)
