"""MIR-level inlining of small private helper functions into their callers (on the exported JSON).

The shape rules (traversal schemas, RELAX-AGREE, FW-SHAPE, GUARD, ...) are intra-procedural.  A maintainer who
extracts `fn mark(&mut self, v) -> bool`, `fn pop_current(&mut self) -> Option<..>` or `fn relax(dist, arc) -> bool`
keeps the behaviour but moves the operations the rules look for into another body.  Before any analysis, every call to
a crate-local *private*, *safe*, non-recursive, small function that is not a trait method and that the accessor-summary
mechanism does not already cover is replaced by a copy of the callee's blocks:

    bb_call:  ...; _dest = callee(a1, .., an) -> bb_next
  becomes
    bb_call:  ...; _p1 = a1; ..; _pn = an; goto callee_entry'
    callee blocks' (locals and block numbers shifted; `return` -> `goto bb_ret`)
    bb_ret:   _dest = move _ret'; goto bb_next

Public functions are never inlined: rules that are *about* calls of the public API (add_arc in conversions, has_arc in
derived queries, generators) must keep seeing those calls.

Helpers that contain unsafe operations are inlined as well (`unsafe fn relax(dist_ptr, arc)`, `fn mark(&mut self, v)`
written with a raw pointer): the obligations of an `unsafe fn` are its callers' by Rust's own convention, and a private
helper can only be reached through its call sites, so its unsafe sites are judged in the context of every caller.  A
helper every call of which was inlined is not judged on its own any more (`crate.inlined_away`).  Exception: a helper
that owns an entry of the reviewed trust table keeps being analysed where it is written (the entry is keyed by it)."""
import copy
import json
import os

MAX_BLOCKS = 60
MAX_DEPTH = 3


def _shift_place(p, off):
    q = {"local": p["local"] + off, "proj": []}
    for e in p["proj"]:
        e2 = dict(e)
        if e2.get("k") == "index" and "local" in e2:
            e2["local"] = e2["local"] + off
        q["proj"].append(e2)
    return q


def _shift_operand(op, off):
    if op.get("k") in ("copy", "move"):
        o = dict(op)
        o["place"] = _shift_place(op["place"], off)
        return o
    return op


def _shift_rvalue(rv, off):
    r = dict(rv)
    if "place" in r:
        r["place"] = _shift_place(r["place"], off)
    for k in ("op", "a", "b"):
        if k in r and isinstance(r[k], dict):
            r[k] = _shift_operand(r[k], off)
    if "ops" in r:
        r["ops"] = [_shift_operand(o, off) for o in r["ops"]]
    return r


def _shift_stmt(s, off):
    t = dict(s)
    if "place" in t and isinstance(t["place"], dict):
        t["place"] = _shift_place(t["place"], off)
    if "rv" in t:
        t["rv"] = _shift_rvalue(t["rv"], off)
    return t


def _shift_term(t, off, boff, ret_block):
    k = t["k"]
    u = dict(t)
    if k == "return":
        return {"k": "goto", "target": ret_block}
    if k == "goto":
        u["target"] = t["target"] + boff
    elif k == "switch":
        u["discr"] = _shift_operand(t["discr"], off)
        u["targets"] = [[v, tg + boff] for v, tg in t["targets"]]
        u["otherwise"] = t["otherwise"] + boff
    elif k == "call":
        u["args"] = [_shift_operand(a, off) for a in t["args"]]
        if isinstance(t.get("func"), dict) and t["func"].get("k") in ("copy", "move"):
            u["func"] = _shift_operand(t["func"], off)
        u["dest"] = _shift_place(t["dest"], off)
        u["target"] = None if t["target"] is None else t["target"] + boff
        if isinstance(t.get("unwind"), int):
            u["unwind"] = t["unwind"] + boff
    elif k == "assert":
        u["cond"] = _shift_operand(t["cond"], off)
        u["target"] = t["target"] + boff
        if t.get("detail"):
            u["detail"] = {kk: (_shift_operand(vv, off) if isinstance(vv, dict) and "k" in vv else vv) for kk, vv in t["detail"].items()}
        if isinstance(t.get("unwind"), int):
            u["unwind"] = t["unwind"] + boff
    elif k == "drop":
        u["place"] = _shift_place(t["place"], off)
        u["target"] = t["target"] + boff
        if isinstance(t.get("unwind"), int):
            u["unwind"] = t["unwind"] + boff
    return u


_TRUSTED_FNS = None


def _trusted_fn_names():
    global _TRUSTED_FNS
    if _TRUSTED_FNS is None:
        path = os.path.join(os.path.dirname(os.path.dirname(os.path.abspath(__file__))), "tables", "trusted_sites.json")
        try:
            _TRUSTED_FNS = {e["fn"].split("::{closure")[0] for e in json.load(open(path))}
        except (OSError, ValueError):
            _TRUSTED_FNS = set()
    return _TRUSTED_FNS


def inlinable(prog_fns, summaries, callee_path, pretty=None, allow_unsafe=None):
    g = prog_fns.get(callee_path)
    if g is None or g["kind"] == "Closure":
        return False
    if g.get("vis") == "Public":
        return False
    if "impl_trait" in g or "trait_default_of" in g:
        return False
    if callee_path in summaries:
        return False
    if len(g["blocks"]) > MAX_BLOCKS:
        return False
    if _calls(g, callee_path, prog_fns, set()):
        return False
    if g.get("unsafe") or _has_unsafe_ops(g):
        if pretty is not None and pretty.get(callee_path, callee_path) in _trusted_fn_names():
            return False
        return allow_unsafe is not None and (allow_unsafe == "all" or callee_path in allow_unsafe)
    return True


def unsafe_helper_candidates(fns, summaries, pretty):
    """private helpers with unsafe operations that phase 2 may inline (see Crate.__init__)"""
    by_path = {f["path"]: f for f in fns}
    return [f["path"] for f in fns if f["kind"] in ("Fn", "AssocFn") and (f.get("unsafe") or _has_unsafe_ops(f))
            and inlinable(by_path, summaries, f["path"], pretty, "all")]


def _has_closures(g, prog_fns):
    """the body builds closures: their bodies are separate functions whose `parent` link would no longer name the body
    they are evaluated in"""
    return any(h.get("parent") == g["path"] for h in prog_fns.values() if h["kind"] == "Closure")


def _has_unsafe_ops(g):
    """the body performs an unsafe operation itself (call of an unsafe fn, dereference of a raw pointer): its obligations
    stay attached to the function they are written in"""
    raw = {i for i, l in enumerate(g["locals"]) if l["ty"].get("k") == "rawptr"}

    def place_derefs_raw(p):
        return p["local"] in raw and any(e.get("k") == "deref" for e in p["proj"])
    for b in g["blocks"]:
        if b.get("cleanup"):
            continue
        for s_ in b["stmts"]:
            if isinstance(s_.get("place"), dict) and place_derefs_raw(s_["place"]):
                return True
            rv = s_.get("rv") or {}
            if isinstance(rv.get("place"), dict) and place_derefs_raw(rv["place"]):
                return True
            for k in ("op", "a", "b"):
                o = rv.get(k)
                if isinstance(o, dict) and o.get("k") in ("copy", "move") and place_derefs_raw(o["place"]):
                    return True
        t = b["term"]
        if t["k"] == "call":
            fo = t["func"]
            if fo.get("k") == "const" and "fn" in fo and fo["fn"].get("unsafe"):
                # format_args! inside assert! / panic! expands to an unsafe constructor call
                if any(e.startswith("macro:") for e in (b.get("tspan") or {}).get("exp", [])):
                    continue
                return True
    return False


def _calls(g, target, prog_fns, seen):
    """g can reach `target` through crate-local calls (recursion guard)"""
    if g["path"] in seen:
        return False
    seen.add(g["path"])
    for b in g["blocks"]:
        t = b["term"]
        if t["k"] != "call":
            continue
        fo = t["func"]
        if not (fo.get("k") == "const" and "fn" in fo and fo["fn"].get("local")):
            continue
        cp = fo["fn"].get("resolved") or fo["fn"]["path"]
        if cp == target:
            return True
        h = prog_fns.get(cp)
        if h is not None and _calls(h, target, prog_fns, seen):
            return True
    return False


def inline_helpers(fns, summaries, pretty=None, allow_unsafe=None):
    """mutates the function records in place; returns ({caller path: [callee paths inlined]}, helpers inlined at every call)"""
    by_path = {f["path"]: f for f in fns}
    done = {}
    kept_calls = set()      # helpers with a call site that was not inlined
    for f in fns:
        if f["kind"] not in ("Fn", "AssocFn", "Closure"):
            continue
        changed = True
        depth = 0
        chain = [f["path"]]
        while changed and depth < MAX_DEPTH:
            changed = False
            depth += 1
            nblocks = len(f["blocks"])
            for bi in range(nblocks):
                b = f["blocks"][bi]
                if b.get("cleanup"):
                    continue
                t = b["term"]
                if t["k"] != "call" or t["target"] is None:
                    continue
                fo = t["func"]
                if not (fo.get("k") == "const" and "fn" in fo):
                    continue
                fn = fo["fn"]
                if not fn.get("local") or "trait" in fn:
                    continue
                cp = fn.get("resolved") or fn["path"]
                if cp == f["path"] or cp in chain[1:]:
                    continue
                if not inlinable(by_path, summaries, cp, pretty, allow_unsafe):
                    continue
                g = by_path[cp]
                if len(t["args"]) != g["arg_count"]:
                    continue
                _splice(f, bi, g)
                done.setdefault(f["path"], []).append(cp)
                changed = True
    inlined = {cp for v in done.values() for cp in v}
    # remaining direct calls / references of an inlined helper anywhere keep it alive as a function of its own
    for f in fns:
        for b in f["blocks"]:
            t = b["term"]
            if t["k"] == "call":
                fo = t["func"]
                if fo.get("k") == "const" and "fn" in fo:
                    cp = fo["fn"].get("resolved") or fo["fn"].get("path")
                    if cp in inlined and cp != f["path"]:
                        kept_calls.add(cp)
            for s_ in b["stmts"]:
                rv = s_.get("rv") or {}
                for k in ("op", "a", "b"):
                    o_ = rv.get(k)
                    if isinstance(o_, dict) and o_.get("k") == "const" and isinstance(o_.get("fn"), dict):
                        cp = o_["fn"].get("resolved") or o_["fn"].get("path")
                        if cp in inlined:
                            kept_calls.add(cp)
    away = {cp for cp in inlined if cp not in kept_calls}
    return done, away


def _splice(f, bi, g):
    b = f["blocks"][bi]
    t = b["term"]
    off = len(f["locals"])
    boff = len(f["blocks"])
    for l in g["locals"]:
        f["locals"].append(copy.deepcopy(l))
    span = b.get("tspan")
    # argument moves
    for k, a in enumerate(t["args"]):
        b["stmts"].append({"k": "assign", "place": {"local": off + 1 + k, "proj": []}, "rv": {"k": "use", "op": a}, "span": span})
    ret_block = boff + len(g["blocks"])
    for gb in g["blocks"]:
        nb = {"stmts": [_shift_stmt(s, off) for s in gb["stmts"]],
              "term": _shift_term(gb["term"], off, boff, ret_block),
              "tspan": gb.get("tspan"), "cleanup": gb.get("cleanup", False)}
        f["blocks"].append(nb)
    f["blocks"].append({"stmts": [{"k": "assign", "place": t["dest"], "rv": {"k": "use", "op": {"k": "move", "place": {"local": off, "proj": []}}},
                                   "span": span}],
                        "term": {"k": "goto", "target": t["target"]}, "tspan": span, "cleanup": False})
    b["term"] = {"k": "goto", "target": boff}


FN_CALL_KEYS = ("core::ops::function::Fn::call", "core::ops::function::FnMut::call_mut")


def unsafe_called_closures(fns):
    """closures with unsafe operations that their parent calls directly (Fn::call / FnMut::call_mut / FnOnce::call_once) and
    hands to nothing else: {closure path}"""
    by_path = {f["path"]: f for f in fns}
    called, elsewhere = set(), set()
    for f in fns:
        for b in f["blocks"]:
            t = b["term"]
            if t["k"] != "call":
                continue
            ty = (t["func"].get("ty") or {}) if t["func"].get("k") == "const" else {}
            targs = ty.get("args") or []
            if ty.get("path") in FN_CALL_KEYS and targs and targs[0].get("k") == "closure":
                called.add(targs[0].get("path"))
                continue

            def mentions(x):
                if isinstance(x, dict):
                    if x.get("k") == "closure" and x.get("path"):
                        elsewhere.add(x["path"])
                    for v in x.values():
                        mentions(v)
                elif isinstance(x, list):
                    for v in x:
                        mentions(v)
            mentions(targs)
    return {c for c in called - elsewhere if c in by_path and _has_unsafe_ops(by_path[c])}


def inline_closure_calls(fns, allow_unsafe=()):
    """`let is_set = |i| ..; is_set(a) && is_set(b)`: a direct call of a local closure (Fn::call / FnMut::call_mut on a
    reference to the closure value) is replaced by a copy of the closure body, like a private helper.  The closure's
    environment parameter receives the reference the call passes, its other parameters the components of the argument
    tuple.  Closures handed to iterator adaptors or threads are not affected (they are not called by the body itself).
    Returns {caller path: [closure paths]}"""
    by_path = {f["path"]: f for f in fns}
    done = {}
    for f in fns:
        if f["kind"] not in ("Fn", "AssocFn", "Closure"):
            continue
        for _round in range(2):
            nblocks = len(f["blocks"])
            changed = False
            for bi in range(nblocks):
                b = f["blocks"][bi]
                if b.get("cleanup"):
                    continue
                t = b["term"]
                if t["k"] != "call" or t["target"] is None or len(t["args"]) != 2:
                    continue
                fo = t["func"]
                ty = fo.get("ty") or {}
                if not (fo.get("k") == "const" and ty.get("k") == "fndef" and ty.get("path") in FN_CALL_KEYS):
                    continue
                targs = ty.get("args") or []
                if not targs or targs[0].get("k") != "closure":
                    continue
                g = by_path.get(targs[0].get("path"))
                if g is None or g is f or len(g["blocks"]) > MAX_BLOCKS or (_has_unsafe_ops(g) and g["path"] not in allow_unsafe):
                    continue
                a0, a1 = t["args"]
                if a0.get("k") not in ("copy", "move") or a0["place"]["proj"]:
                    continue
                envty = f["locals"][a0["place"]["local"]]["ty"]
                if envty.get("s") != g["locals"][1]["ty"].get("s"):
                    continue        # by-value call of a closure whose body takes a reference (or the reverse): a shim is involved
                nparams = g["arg_count"] - 1
                if a1.get("k") in ("copy", "move") and not a1["place"]["proj"]:
                    tl = a1["place"]["local"]
                    params = [{"k": "move", "place": {"local": tl, "proj": [
                        {"k": "field", "idx": k, "name": str(k), "ty": g["locals"][2 + k]["ty"]}]}} for k in range(nparams)]
                elif nparams == 0:
                    params = []
                else:
                    continue
                call = dict(t)
                call["args"] = [a0] + params
                b["term"] = call
                _splice(f, bi, g)
                done.setdefault(f["path"], []).append(g["path"])
                changed = True
            if not changed:
                break
    return done
